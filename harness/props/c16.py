"""C16 — velocity regeneration changes only velocities, at the right temperature.

Tie: the real `modify_velocities` of the five engines (GROMACS with infretis_genvel, CP2K,
LAMMPS, ASE, TurtleMD — constructed offline as in test/engines/test_velocity_functions.py, in a
temp dir under /var/tmp) and the real `prepare_shooting_point`, driven by a *scripted* generator
installed as `engine.rgen` (returns fixed standard normals × scale + loc and logs the request),
against the Lean model `Infretis.Vel.modifyVelocities` / `prepareShootingPoint` (drv_c16).

Property predicates evaluated on the implementation's own output, independent of the model:
  positions/box/identities of genvel.* equal the source frame's (to written precision);
  source file bytes and the source System unchanged;  Σ m v = 0 when zero_momentum is on;
  kin_new = E_kin(written velocities), dek = kin_new − E_kin(old) or inf;
  exactly one draw request, on the engine's rgen (numpy's global state untouched, same rgen state
  ⇒ same velocities);  scale²·m = k_B·T against exact SI constants within the proved ε.
"""
from __future__ import annotations

import copy as _copy
import math
import os
import shutil
import tempfile
from fractions import Fraction
from pathlib import Path

import numpy as np

from common import err_kind, frac_token, lst

CORPUS_IN_RUN = True      # run() replays corpus/C16 itself (first), through the full tie
EX = Path("/repo/examples")
ENGINES = ("gromacs", "cp2k", "lammps", "ase", "turtlemd")
EXT = {"gromacs": "g96", "cp2k": "xyz", "lammps": "lammpstrj", "ase": "traj", "turtlemd": "xyz"}

# exact SI (2019) constants and CODATA-2018 values, as in Props/C16.lean
K_SI = Fraction("1.380649e-23")
N_A = Fraction("6.02214076e23")
E_SI = Fraction("1.602176634e-19")
HARTREE_J = Fraction("4.3597447222071e-18")
ME_IN_U = Fraction("5.48579909065e-4")
# proved |ratio − 1| bounds (Props/C16.lean) — used as tolerance of the variance predicate
EPS = {"gromacs": 6.232e-8, "lammps": 1.8075e-10, "cp2k": 1.1928e-6, "ase": 3.3943e-7, "turtlemd": 0.0}
TURTLE_KB = 0.0083144621
CP2K_ELEMENTS = ("H", "He", "Li", "C", "N", "O", "F", "Na", "Mg", "Pt", "Au", "U")
MASS_POOL = (1.008, 1.007947, 2.0, 12.011, 15.999, 18.998403163, 35.45, 39.948, 107.8682, 196.966569)


def kT_units(engine, T, m_user):
    """exact k_B·T / m expressed as (engine velocity unit)² for a particle of `m_user`
    (g/mol resp. u) — computed from SI constants only (no constant of the code under test)"""
    T = Fraction(T)
    m = Fraction(m_user)
    if engine == "gromacs":      # (nm/ps)^2 = 1e6 m²/s²; mass g/mol = 1e-3/N_A kg
        return K_SI * T / (m / 1000 / N_A) / Fraction(10) ** 6
    if engine == "lammps":       # (Å/fs)^2 = 1e10 m²/s²
        return K_SI * T / (m / 1000 / N_A) / Fraction(10) ** 10
    if engine == "cp2k":         # m_e·v_au² = E_h ; m = m_user u = m_user/ME_IN_U m_e
        return K_SI * T / HARTREE_J / (m / ME_IN_U)
    if engine == "ase":          # amu·(Å/t_ase)² = eV
        return K_SI * T / E_SI / m
    if engine == "turtlemd":     # reduced units: the user's boltzmann
        return Fraction(TURTLE_KB) * T / m
    raise ValueError(engine)


class ScriptedGen:
    """stand-in for numpy.random.Generator: fixed standard normals, logs every request"""

    def __init__(self, z, events=None):
        self.z = np.array(z, dtype=float)
        self.log = []
        self.events = events if events is not None else []

    def normal(self, loc=0.0, scale=1.0, size=None):
        self.events.append("engine:normal")
        sc = np.array(scale, dtype=float)
        self.log.append({"stream": "rgen", "method": "normal", "loc": float(loc), "scale": sc.copy(),
                         "size": None if size is None else tuple(size)})
        return loc + sc * self.z.reshape(size)

    def standard_normal(self, size=None):
        self.events.append("engine:standard_normal")
        if isinstance(size, int):
            size = (size,)
        self.log.append({"stream": "rgen", "method": "standard_normal", "loc": 0.0, "scale": None,
                         "size": None if size is None else tuple(size)})
        return self.z.reshape(size).copy()

    def __getattr__(self, name):
        raise AssertionError(f"unexpected draw request {name}")


class GlobalTap:
    """temporarily replaces numpy.random.standard_normal / normal (numpy's *global* state, what
    ase uses when no rng= is passed) by scripted versions that log the request"""

    def __init__(self, z, log):
        self.z = np.array(z, dtype=float)
        self.log = log

    def __enter__(self):
        self._sn, self._n = np.random.standard_normal, np.random.normal

        def sn(size=None):
            if isinstance(size, int):
                size = (size,)
            self.log.append({"stream": "global", "method": "standard_normal", "loc": 0.0, "scale": None,
                             "size": None if size is None else tuple(size)})
            return self.z.reshape(size).copy()

        def nm(loc=0.0, scale=1.0, size=None):
            sc = np.array(scale, dtype=float)
            self.log.append({"stream": "global", "method": "normal", "loc": float(loc), "scale": sc.copy(),
                             "size": None if size is None else tuple(size)})
            return loc + sc * self.z.reshape(size)

        np.random.standard_normal, np.random.normal = sn, nm
        return self

    def __exit__(self, *a):
        np.random.standard_normal, np.random.normal = self._sn, self._n


# ------------------------------------------------------------------ engines, built offline
def _imports():
    import importlib.util  # noqa: F401
    from infretis.classes.engines.cp2k import CP2KEngine
    from infretis.classes.engines.factory import create_engine
    from infretis.classes.engines.gromacs import GromacsEngine
    from infretis.classes.engines.lammps import LAMMPSEngine
    from infretis.classes.system import System
    from infretis.core import tis
    return dict(CP2KEngine=CP2KEngine, create_engine=create_engine, GromacsEngine=GromacsEngine,
                LAMMPSEngine=LAMMPSEngine, System=System, tis=tis)


def build_engine(mods, work: Path, case, tag=""):
    """construct the engine of `case` the way the repo's tests do (stdout of the constructors muted)"""
    import contextlib
    import io
    with contextlib.redirect_stdout(io.StringIO()):
        return _build_engine(mods, work, case, tag)


def _build_engine(mods, work: Path, case, tag=""):
    import tomli
    eng, T, n = case["engine"], case["T"], case["n"]
    d = work / f"in_{eng}{tag}"
    if d.exists():
        shutil.rmtree(d)
    if eng == "gromacs":
        d.mkdir()      # only the three inputs (other checks run engines inside the example dir concurrently)
        for fn in ("conf.g96", "grompp.mdp", "topol.top"):
            shutil.copy(EX / "gromacs/H2/gromacs_input" / fn, d / fn)
        e = mods["GromacsEngine"]("echo", d.resolve(), 0, 0, T, masses=masses_arg(case), infretis_genvel=True)
    elif eng == "lammps":
        d.mkdir()
        shutil.copy(EX / "lammps/H2/lammps_input/lammps.input", d / "lammps.input")
        types = sorted(set(case["masses"]))
        txt = ["Title", "", f"{n} atoms", "0 bonds", "", f"{len(types)} atom types", "",
               "0 30 xlo xhi", "0 30 ylo yhi", "0 30 zlo zhi", "", "Masses", ""]
        # the rows of both sections come in a case-dependent order (legal LAMMPS; audit finding
        # C16:lammps:masses-section-not-sorted): no draw from the rng, so recorded cases replay identically
        flip = sum(repr(case["masses"]).encode()) % 4
        mrows = [f"{k + 1}\t{m!r}" for k, m in enumerate(types)]
        arows = [f"{i + 1}\t1\t{types.index(m) + 1} 0.000\t{i}.000 0.000 0.000" for i, m in enumerate(case["masses"])]
        txt += mrows[::-1] if flip in (1, 3) else mrows
        txt += ["", "Atoms", ""]
        txt += arows[::-1] if flip in (2, 3) else arows
        (d / "lammps.data").write_text("\n".join(txt) + "\n")
        e = mods["LAMMPSEngine"]("lmp_mpi", d.resolve(), 0, 0, T)
    elif eng == "cp2k":
        d.mkdir()
        inp = (EX / "cp2k/H2/cp2k_input/cp2k.inp").read_text().replace("TEMPERATURE 300", f"TEMPERATURE {T!r}")
        (d / "cp2k.inp").write_text(inp)
        lines = [f"{n}", "# initial"] + [f"{el} {i}.0 0.0 0.0" for i, el in enumerate(case["elements"])]
        (d / "initial.xyz").write_text("\n".join(lines) + "\n")
        e = mods["CP2KEngine"]("cp2k", str(d.resolve()), 1, 1, T)
    elif eng == "turtlemd":
        cfg = tomli.loads((EX / "turtlemd/H2/infretis.toml").read_text())
        cfg["engine"]["temperature"] = T
        cfg["engine"]["boltzmann"] = TURTLE_KB
        cfg["engine"]["particles"] = {"mass": masses_arg(case), "name": ["H"] * n,
                                      "pos": [[0.3 * i, 0.0, 0.0] for i in range(n)]}
        e = mods["create_engine"](cfg)
    elif eng == "ase":
        cfg = tomli.loads((EX / "ase/H2/infretis0.toml").read_text())
        cfg["engine"]["temperature"] = T
        cfg["engine"]["calculator_settings"]["module"] = str((EX / "ase/H2/H2-calc.py").resolve())
        e = mods["create_engine"](cfg)
    else:
        raise ValueError(eng)
    return _finish_engine(e, work, eng, tag)


def _finish_engine(e, work, eng, tag=""):
    exe = work / f"exe_{eng}{tag}"
    if exe.exists():
        shutil.rmtree(exe)
    exe.mkdir()
    e.exe_dir = str(exe)
    return e


# ------------------------------------------------------------------ frames: writing the source, parsing genvel
G96_PREFIX = "{:5d} {:5s} {:5s}{:7d}"


def write_source(case, path: Path):
    """write a 2-frame (g96: 1-frame) source file; frame `case['idx']` is the shooting point.
    All numbers have ≤ 4 decimals, so every text format used by the engines holds them exactly."""
    eng, n = case["engine"], case["n"]
    pos, vel, box = np.array(case["pos"]), np.array(case["vel"]), case["box"]
    other_p, other_v = pos[::-1] + 0.5, vel[::-1] * 0.5
    frames = [(pos, vel), (other_p, other_v)] if case["idx"] == 0 else [(other_p, other_v), (pos, vel)]
    if eng in ("cp2k", "turtlemd"):
        names = case["elements"] if eng == "cp2k" else case["names"]
        out = []
        for p, v in frames:
            out.append(f"{n}")
            out.append("# no box here" if box is None else "# Box: " + " ".join(f"{b:9.4f}" for b in box))
            for i in range(n):
                nums = list(p[i]) + ([] if case.get("no_velocities") else list(v[i]))
                out.append(f"{names[i]:5s}" + "".join(f" {x:15.9f}" for x in nums))
        path.write_text("\n".join(out) + "\n")
    elif eng == "lammps":
        out = []
        order = case["file_order"]
        for p, v in frames:
            out += ["ITEM: TIMESTEP", "0", "ITEM: NUMBER OF ATOMS", str(n), "ITEM: BOX BOUNDS pp pp pp"]
            out += [f"{lo!r} {hi!r}" for lo, hi in box]
            out.append("ITEM: ATOMS id type x y z vx vy vz")
            for i in order:
                out.append(f"{i + 1} {case['types'][i]} " + " ".join(repr(float(x)) for x in list(p[i]) + list(v[i])))
        path.write_text("\n".join(out) + "\n")
    elif eng == "gromacs":
        p, v = pos, vel
        out = ["TITLE", "c16 frame", "END", "POSITION"]
        pre = [G96_PREFIX.format(i // 2 + 1, "RES", case["names"][i], i + 1) for i in range(n)]
        out += [pre[i] + "".join(f"{x:15.9f}" for x in p[i]) for i in range(n)]
        out += ["END"]
        if case["g96_vel_section"]:
            out += ["VELOCITY"] + [pre[i] + "".join(f"{x:15.9f}" for x in v[i]) for i in range(n)] + ["END"]
        out += ["BOX", "".join(f"{b:15.9f}" for b in box), "END"]
        path.write_text("\n".join(out) + "\n")
    elif eng == "ase":
        from ase import Atoms
        from ase.io.trajectory import Trajectory
        tr = Trajectory(str(path), "w")
        for p, v in frames:
            at = Atoms(numbers=case["numbers"], positions=p, cell=box, pbc=True)
            at.set_masses(case["masses"])
            if not case.get("no_velocities"):
                at.set_velocities(v)
            tr.write(at)
        tr.close()


def parse_frame(eng, path, n):
    """independent parser of a single-frame genvel file → dict(pos, vel, box, ids)"""
    if eng in ("cp2k", "turtlemd"):
        L = Path(path).read_text().split("\n")
        assert int(L[0]) == n
        low = L[1].lower()
        box = [float(x) for x in low.split("box:")[1].split()] if "box:" in low else None
        rows = [l.split() for l in L[2:2 + n]]
        return {"ids": [r[0] for r in rows], "pos": np.array([[float(x) for x in r[1:4]] for r in rows]),
                "vel": np.array([[float(x) for x in r[4:7]] for r in rows]), "box": box}
    if eng == "lammps":
        L = Path(path).read_text().split("\n")
        assert int(L[3]) == n
        box = [[float(x) for x in l.split()] for l in L[5:8]]
        rows = sorted(([float(x) for x in l.split()] for l in L[9:9 + n]), key=lambda r: r[0])
        return {"ids": [(int(r[0]), int(r[1])) for r in rows], "pos": np.array([r[2:5] for r in rows]),
                "vel": np.array([r[5:8] for r in rows]), "box": [x for b in box for x in b]}
    if eng == "gromacs":
        sec, cur = {}, None
        for l in Path(path).read_text().split("\n"):
            if l.strip() == "END":
                cur = None
            elif cur is None and l.strip():
                cur = l.strip()
                sec[cur] = []
            elif cur is not None:
                sec[cur].append(l)
        f3 = lambda l: [float(l[24 + 15 * k: 39 + 15 * k]) for k in range(3)]  # noqa: E731
        return {"ids": [l[:24] for l in sec["POSITION"]], "pos": np.array([f3(l) for l in sec["POSITION"]]),
                "vel": np.array([f3(l) for l in sec.get("VELOCITY", [])]),
                "box": [float(x) for x in sec["BOX"][0].split()], "vel_ids": [l[:24] for l in sec.get("VELOCITY", [])]}
    if eng == "ase":
        from ase.io import read
        at = read(str(path))
        return {"ids": list(zip([int(x) for x in at.numbers], [float(x) for x in at.get_masses()])),
                "pos": at.positions.copy(), "vel": at.get_velocities(),
                "box": [float(x) for x in at.cell.array.flatten()] + [bool(x) for x in at.pbc]}
    raise ValueError(eng)


def source_frame(case):
    """what the source frame holds, in the same canonical form as parse_frame"""
    eng, n = case["engine"], case["n"]
    pos, vel = np.array(case["pos"], dtype=float), np.array(case["vel"], dtype=float)
    if case.get("no_velocities") and eng in ("cp2k", "turtlemd", "ase"):
        vel = np.zeros_like(pos)      # the frame carries no velocities: the engines read zeros
    if eng == "cp2k":
        return {"ids": list(case["elements"]), "pos": pos, "vel": vel, "box": case["box"]}
    if eng == "turtlemd":
        return {"ids": list(case["names"]), "pos": pos, "vel": vel, "box": case["box"]}
    if eng == "lammps":
        return {"ids": [(i + 1, case["types"][i]) for i in range(n)], "pos": pos, "vel": vel,
                "box": [float(x) for b in case["box"] for x in b]}
    if eng == "gromacs":
        return {"ids": [G96_PREFIX.format(i // 2 + 1, "RES", case["names"][i], i + 1) for i in range(n)],
                "pos": pos, "vel": vel if case["g96_vel_section"] else np.zeros_like(pos), "box": list(case["box"])}
    if eng == "ase":
        b = case["box"]
        cell = [b[0], 0, 0, 0, b[1], 0, 0, 0, b[2]]
        return {"ids": list(zip(case["numbers"], [float(m) for m in case["masses"]])), "pos": pos, "vel": vel,
                "box": [float(x) for x in cell] + [True] * 3}
    raise ValueError(eng)


def make_settings(case):
    """the `vel_settings` / tis_set dict handed to modify_velocities: key-less or with an explicit
    zero_momentum, plus the other (nested) entries a real tis_set carries"""
    vs = {"maxlength": 2000, "allowmaxlength": False, "n_jumps": 3, "interface_cap": [0.5, {"k": 1}]} \
        if case.get("rich_settings", True) else {}
    if "zm_value" in case:        # any (falsy-but-valid) value; case["zm"] = its Python truth value
        vs["zero_momentum"] = case["zm_value"]
    elif case["zm"] is not None:
        vs["zero_momentum"] = case["zm"]
    return vs


def snap_system(s):
    out = {}
    for k, v in sorted(vars(s).items()):
        if isinstance(v, np.ndarray):
            out[k] = ("nd", v.shape, v.tobytes(), id(v))
        else:
            out[k] = ("py", repr(v), id(v) if isinstance(v, (list, dict)) else 0)
    return out


# ------------------------------------------------------------------ one case on the real code
def run_case(mods, work, case, via_prepare=False, shared_vs=None, engine=None, tag="", src_name=None):
    """returns a dict with everything observed on the real implementation.
    `engine`: use this (long-lived) engine object instead of building a fresh one."""
    eng, n, T = case["engine"], case["n"], case["T"]
    try:
        e = engine if engine is not None else build_engine(mods, work, case, tag)
    except Exception as ex:  # noqa: BLE001
        return {"engine_mass": None, "err": "construct:" + err_kind(ex) + ":" + str(ex)[:200]}
    src = work / (src_name or f"src_{eng}{tag}.{EXT[eng]}")
    write_source(case, src)
    src_bytes = src.read_bytes()
    z = np.array(case["z"], dtype=float)
    events = []
    gen = ScriptedGen(z, events)
    e.rgen = gen
    sysm = mods["System"]()
    idx = 0 if eng == "gromacs" else case["idx"]
    sysm.set_pos((str(src), idx))
    sysm.ekin = case["sys_ekin"]
    sysm.vpot = -1.25
    sysm.vel_rev = bool(case.get("vel_rev", False))
    sysm.order = [0.25]
    before = snap_system(sysm)
    vs = make_settings(case) if shared_vs is None else shared_vs
    vs_before = _copy.deepcopy(vs)
    gstate = np.random.get_state()
    obs = {"engine_mass": None, "err": None}
    target = sysm
    try:
        with GlobalTap(z, gen.log):
            if via_prepare:
                class _Ord:
                    def calculate(self, system):
                        return [0.75]

                pick = case.get("pick", 2)
                picks = []

                class _Pick:          # the job's MOVE stream (ens_set rgen): only `integers` is legitimate
                    def integers(self, lo, hi=None, **k):
                        events.append("move:integers")
                        picks.append((lo, hi))
                        return pick

                    def __getattr__(self, name):
                        raise AssertionError(f"unexpected draw request {name} on the move stream")
                from infretis.classes.path import Path as InfPath
                e.order_function = _Ord()
                path = InfPath(maxlen=20)
                for k in range(4):
                    if k == pick:
                        path.phasepoints.append(sysm)
                    else:
                        o = mods["System"]()
                        o.set_pos((str(src), idx))
                        o.order = [0.1 * k]
                        path.phasepoints.append(o)
                ens_set = {"tis_set": vs, "interfaces": [0.0, 0.25, 1.0], "ens_name": "c16"}
                ens_before = _copy.deepcopy(ens_set)
                shpt, sidx, dek = mods["tis"].prepare_shooting_point(path, _Pick(), e, ens_set)
                obs["ens_set_same"] = ens_set == ens_before
                obs["draw_order"] = list(events)
                obs["pick_args"] = picks
                obs["pick_ok"] = (sidx == pick and len(path.phasepoints) == 4 and path.phasepoints[pick] is sysm)
                kin_new = shpt.ekin
                target = shpt
                obs["copy_is_new_object"] = shpt is not sysm
                obs["copy_attrs"] = {k: (getattr(shpt, k) is getattr(sysm, k)) for k in vars(sysm)}
                obs["copy_order"] = list(shpt.order)
                obs["copy_keeps"] = (shpt.temperature is sysm.temperature and shpt.vel_rev == sysm.vel_rev
                                     and shpt.vpot == sysm.vpot)
            else:
                dek, kin_new = e.modify_velocities(sysm, vs)
    except Exception as ex:  # noqa: BLE001
        obs["err"] = err_kind(ex) + ":" + str(ex)[:200]
        return obs
    g2 = np.random.get_state()
    obs["global_state_untouched"] = (gstate[0] == g2[0] and np.array_equal(gstate[1], g2[1]) and gstate[2:] == g2[2:])
    obs["dek"], obs["kin_new"] = float(dek), float(kin_new)
    obs["settings_same"] = (vs == vs_before and list(vs.keys()) == list(vs_before.keys()))
    obs["settings_before"], obs["settings_after"] = vs_before, _copy.deepcopy(vs)
    obs["log"] = gen.log
    obs["config"] = target.config
    obs["sys_ekin_after"] = target.ekin
    m = getattr(e, "masses", None) if eng == "gromacs" else getattr(e, "mass", None)
    obs["engine_mass"] = None if m is None else [float(x) for x in np.array(m).flatten()]
    obs["beta"] = float(e.beta)
    try:
        obs["genvel"] = parse_frame(eng, target.config[0], n)
    except Exception as ex:  # noqa: BLE001  (changed code may write something unreadable: report, don't crash)
        obs["err"] = f"genvel-unreadable:{type(ex).__name__}:{str(ex)[:160]}"
        return obs
    obs["genvel_name_ok"] = (os.path.basename(target.config[0]) == f"genvel.{EXT[eng]}" and target.config[1] == 0
                             and os.path.dirname(target.config[0]) == str(e.exe_dir))
    obs["src_bytes_same"] = src.read_bytes() == src_bytes
    obs["src_system_same"] = True if not via_prepare else (snap_system(sysm) == before)
    if not via_prepare:   # modify_velocities is given the object it may rebind: only config/ekin may change
        after = snap_system(sysm)
        obs["changed_attrs"] = sorted(k for k in after if after[k] != before[k])
    return obs


# ------------------------------------------------------------------ model side
def cols(a):
    a = np.array(a, dtype=float)
    if a.size == 0:
        return "0"
    return " ".join([str(a.shape[1])] + [lst(list(a[:, j]), frac_token) for j in range(a.shape[1])])


INT_MASS_POOL = (1, 2, 16, 72, 12, 35)
USER_MASS_ENGINES = ("gromacs", "turtlemd")   # `mass` built with np.reshape from the user's toml list


def masses_arg(case):
    """the mass list as the user's toml would give it: floats, Python ints, or numpy int64 scalars.
    (GROMACS `masses=[..]` and TurtleMD `particles.mass` go through np.reshape, so an all-integer list
    gives an *integer-typed* mass array; CP2K/LAMMPS/ASE masses come from files and are always floats.)"""
    kind = case.get("mass_dtype", "float")
    if kind == "int":
        return [int(m) for m in case["masses"]]
    if kind == "npint64":
        return [np.int64(m) for m in case["masses"]]
    return list(case["masses"])


def masses_as_given(case):
    if case["engine"] == "cp2k":
        from infretis.classes.engines.engineparts import PERIODIC_TABLE
        return [PERIODIC_TABLE[el] for el in case["elements"]]
    return list(case["masses"])


def model_line(case, sig, vkin, vrng, ids_tokens):
    eng = case["engine"]
    sf = source_frame(case)
    zm = "-" if case["zm"] is None else str(int(bool(case["zm"])))
    ek = "-" if case["sys_ekin"] is None else frac_token(case["sys_ekin"])
    box = sf["box"]
    if eng == "ase":
        boxtok = lst([float(x) for x in box[:9]], frac_token)
    else:
        boxtok = "-" if box is None else lst(box, frac_token)
    return " ".join(["mod", eng, vkin, vrng, frac_token(case["T"]), frac_token(TURTLE_KB), zm, ek,
                     lst(masses_as_given(case), frac_token), lst([30.0, 30.0, 30.0], frac_token),
                     lst(list(sig), frac_token), cols(case["z"]), cols(sf["vel"]), cols(sf["pos"]), boxtok,
                     lst(ids_tokens)])


def parse_model(ans):
    f = [x.strip() for x in ans.split("|")]
    req = f[0].split()
    rl = lambda s: [Fraction(t) for t in s.split()[1:]]  # noqa: E731

    def rc(s):
        t = s.split()
        k, out, i = int(t[0]), [], 1
        for _ in range(k):
            m = int(t[i])
            out.append([Fraction(x) for x in t[i + 1:i + 1 + m]])
            i += 1 + m
        return out
    return {"stream": req[0], "method": req[1], "loc": Fraction(req[2]), "npart": int(req[3]), "dim": int(req[4]),
            "scaleSq": None if req[5] == "-" else [Fraction(t) for t in req[6:]],
            "momSq": rl(f[1]), "mass": rl(f[2]), "beta": Fraction(f[3]),
            "kinOld": None if f[4] == "-" else Fraction(f[4]), "kinNew": Fraction(f[5]),
            "dek": math.inf if f[6] == "inf" else Fraction(f[6]), "vel": rc(f[7]), "pos": rc(f[8]),
            "box": None if f[9] == "-" else rl(f[9]), "ids": [int(t) for t in f[10].split()[1:]]}


def close(a, b, rel=1e-9, ab=0.0):
    a, b = float(a), float(b)
    if math.isinf(a) or math.isinf(b):
        return a == b
    return abs(a - b) <= ab + rel * max(abs(a), abs(b))


def written_abs_tol(eng):
    return 6e-10 if eng in ("gromacs", "cp2k", "turtlemd") else 0.0


# ------------------------------------------------------------------ case generation
def gen_case(rng, eng, n, T, zm, kind, mass_dtype=None):
    q = lambda lo, hi: rng.randint(lo * 16, hi * 16) / 16.0  # noqa: E731  (dyadic, ≤ 4 decimals)
    case = {"engine": eng, "n": n, "T": T, "zm": zm, "idx": rng.randint(0, 1), "kind": kind}
    case["pos"] = [[q(0, 9), q(0, 9), q(0, 9)] for _ in range(n)]
    if kind == "zero-old-vel":
        case["vel"] = [[0.0, 0.0, 0.0] for _ in range(n)]
    else:
        case["vel"] = [[q(-2, 2), q(-2, 2), q(-2, 2)] for _ in range(n)]
        if all(v == [0.0, 0.0, 0.0] for v in case["vel"]):
            case["vel"][0][0] = 0.5
    if kind == "zero-draw":
        case["z"] = [[0.0, 0.0, 0.0] for _ in range(n)]
    else:
        case["z"] = [[rng.gauss(0, 1) for _ in range(3)] for _ in range(n)]
    if kind == "sparse-draw":         # some components exactly 0.0
        for row in case["z"]:
            row[rng.randrange(3)] = 0.0
        case["z"][0] = [0.0, 0.0, case["z"][0][2] or 0.5]
    if kind == "no-velocities":
        case["no_velocities"] = True
    case["sys_ekin"] = None if rng.random() < 0.35 else q(0, 40)
    case["vel_rev"] = rng.random() < 0.3
    if eng == "cp2k":
        case["elements"] = [rng.choice(CP2K_ELEMENTS) for _ in range(n)]
        case["box"] = None if rng.random() < 0.25 else [q(5, 40), q(5, 40), q(5, 40)]
    else:
        case["masses"] = [rng.choice(MASS_POOL) if rng.random() < 0.6 else round(rng.uniform(0.5, 250.0), 6)
                          for _ in range(n)]
    if kind == "equal-masses":
        if eng == "cp2k":
            case["elements"] = [case["elements"][0]] * n
        else:
            case["masses"] = [case["masses"][0]] * n
    if kind == "disparate-masses" and n > 1:
        if eng == "cp2k":
            case["elements"] = ["H"] + ["U"] * (n - 1)
        else:
            case["masses"] = [0.001] + [25000.0] * (n - 1)
    if eng in USER_MASS_ENGINES and kind in ("equal-masses", "disparate-masses"):
        mass_dtype = "float"
    if eng in USER_MASS_ENGINES:
        if mass_dtype is None and rng.random() < 0.25:
            mass_dtype = rng.choice(("int", "npint64"))
        if mass_dtype in ("int", "npint64"):
            case["mass_dtype"] = mass_dtype
            case["masses"] = [rng.choice(INT_MASS_POOL) for _ in range(n)]
            if all(m == 1 for m in case["masses"]):
                case["masses"][0] = 16
    if eng == "turtlemd":
        case["names"] = [rng.choice(("H", "Ar", "X")) for _ in range(n)]
        case["box"] = None if rng.random() < 0.25 else [q(5, 40), q(5, 40), q(5, 40)]
    if eng == "gromacs":
        case["names"] = [rng.choice(("H1", "OW", "C")) for _ in range(n)]
        case["box"] = [q(2, 9), q(2, 9), q(2, 9)]
        case["g96_vel_section"] = rng.random() < 0.85 and kind != "no-velocities"
        case["idx"] = 0
        if kind == "ekin-zero":
            case["sys_ekin"] = 0.0     # falsy but valid: dek = kin_new − 0.0, not inf
    if eng == "lammps":
        types = sorted(set(case["masses"]))
        case["types"] = [types.index(m) + 1 for m in case["masses"]]
        order = list(range(n))
        if rng.random() < 0.5:
            rng.shuffle(order)
        case["file_order"] = order
        case["box"] = [[q(-3, 0), q(5, 40)] for _ in range(3)]
    if eng == "ase":
        case["numbers"] = [rng.choice((1, 6, 8, 18, 79)) for _ in range(n)]
        case["box"] = [q(5, 40), q(5, 40), q(5, 40)]
    return case


def cases_for(ctx):
    rng = ctx.rng
    temps = [300, 77.5, 1000] if ctx.quick else [300, 77.5, 1000, 1.5, 4200, 273.15]
    ns = {"lammps": (2, 3, 5), "default": (1, 2, 3, 6)}
    out = []
    for eng in ENGINES:
        for T in temps:
            for n in ns.get(eng, ns["default"]):
                for zm in (None, False, True):
                    kinds = ["plain"] if ctx.quick else ["plain", "plain"]
                    if T == 300:
                        kinds += ["zero-old-vel"] + (["zero-draw"] if n == 2 else [])
                    for kind in kinds:
                        out.append(gen_case(rng, eng, n, T, zm, kind))
    # boundary / falsy-but-valid classes
    falsy = [0, 0.0, "", None, [], 1, "no"]      # values of the zero_momentum entry: Python truthiness decides
    for eng in ENGINES:
        nn = 2 if eng != "lammps" else 3
        for kind in ("equal-masses", "disparate-masses", "sparse-draw", "no-velocities", "ekin-zero"):
            if kind == "ekin-zero" and eng != "gromacs":
                continue
            if kind == "no-velocities" and eng == "lammps":
                continue                           # a lammps dump always carries vx vy vz
            for zm in ((None, True) if ctx.quick else (None, False, True)):
                out.append(gen_case(rng, eng, nn if ctx.quick else rng.choice((2, 3, 5)), 300, zm, kind))
        for val in (falsy if not ctx.quick else rng.sample(falsy, 3) + [None]):
            c = gen_case(rng, eng, nn, 300, bool(val), "zm-value")
            c["zm_value"] = val
            out.append(c)
        for T in ((0.001,) if ctx.quick else (0.001, 1e-6, 0.5)):      # small positive temperature
            out.append(gen_case(rng, eng, nn, T, rng.choice((None, False, True)), "small-T"))
    # integer-typed mass arrays (the user writes `mass = [2, 16]`): the result must not depend on the dtype
    for eng in USER_MASS_ENGINES:
        for md in ("int", "npint64"):
            for n in (2, 4):
                for zm in (None, False, True):
                    out.append(gen_case(rng, eng, n, 300, zm, "plain", mass_dtype=md))
    extra = 40 if ctx.quick else 600
    for _ in range(extra):
        eng = rng.choice(ENGINES)
        n = rng.randint(2, 8)
        T = round(rng.uniform(1.0, 2000.0), 3)
        out.append(gen_case(rng, eng, n, T, rng.choice((None, False, True)), "plain"))
    return out


# ------------------------------------------------------------------ evaluation of one case
def evaluate(ctx, case, obs, obs_prep, driver_answers):
    """property predicates on the code's output (ctx.fail) and model-vs-code (ctx.disagree).
    `driver_answers` = {(vkin): parsed model answer} or None.  Returns the list of failed signatures."""
    eng, n, T = case["engine"], case["n"], case["T"]
    failed = []

    def fail(sig, what):
        failed.append(sig)
        ctx.hit("property-fails:" + sig)
        done = ctx.extra.setdefault("_reported", [])
        if sig not in done:          # one concrete input per signature (the framework keeps ≤ 20 entries)
            done.append(sig)
            ctx.fail(sig, what, {"case": {k: v for k, v in case.items() if not k.startswith("_")}})

    for tag, o in (("modify_velocities", obs), ("prepare_shooting_point", obs_prep)):
        if o is None:
            continue
        if o.get("err"):
            fail(f"C16:{eng}:raises", f"{tag} raised {o['err']}")
            return failed
        sf = source_frame(case)
        g = o["genvel"]
        tol = written_abs_tol(eng)
        # 1. only velocities change
        if g["ids"] != sf["ids"] or (eng == "gromacs" and g.get("vel_ids") != sf["ids"]):
            fail(f"C16:{eng}:ids-changed", f"{tag}: identities {g['ids']} ≠ source {sf['ids']}")
        if g["pos"].shape != sf["pos"].shape or not np.array_equal(g["pos"], sf["pos"]):
            fail(f"C16:{eng}:positions-changed", f"{tag}: positions {g['pos'].tolist()} ≠ source {sf['pos'].tolist()}")
        if sf["box"] is not None and g["box"] != sf["box"]:
            fail(f"C16:{eng}:box-changed", f"{tag}: box {g['box']} ≠ source {sf['box']}")
        if not o["genvel_name_ok"]:
            fail(f"C16:{eng}:config-not-genvel", f"{tag}: system.config = {o['config']}")
        # 2. the frame it was taken from
        if not o["src_bytes_same"]:
            fail(f"C16:{eng}:source-file-altered", f"{tag}: the source trajectory file was modified")
        if not o["src_system_same"]:
            fail(f"C16:{eng}:source-system-altered", f"{tag}: the shooting point's System object was modified")
        if not o.get("settings_same", True):
            fail(f"C16:{eng}:settings-mutated", f"{tag}: the settings dict handed in was changed: "
                 f"{o['settings_before']} → {o['settings_after']} (a later engine given the same dict inherits it)")
        if not o.get("ens_set_same", True):
            fail(f"C16:{eng}:settings-mutated", f"{tag}: prepare_shooting_point changed the ensemble settings it was handed")
        if tag == "modify_velocities" and not set(o["changed_attrs"]) <= {"config", "ekin"}:
            fail(f"C16:{eng}:other-attrs-changed", f"modify_velocities changed {o['changed_attrs']}")
        if tag == "prepare_shooting_point":
            want_order = ["move:integers", "engine:standard_normal" if eng == "ase" else "engine:normal"]
            if o.get("draw_order") != want_order or o.get("pick_args") != [(1, 3)] or not o.get("pick_ok"):
                fail(f"C16:{eng}:draw-order", f"prepare_shooting_point on a 4-frame path: draws {o.get('draw_order')} "
                     f"(want {want_order}: one index draw integers(1, length-1) on the move stream, then one velocity "
                     f"draw on the engine stream), integers{o.get('pick_args')}, shooting point/index ok={o.get('pick_ok')}")
            if not o["copy_is_new_object"]:
                fail(f"C16:{eng}:no-copy", "prepare_shooting_point returned the path's own System object")
        # 3. zero momentum
        masses = np.array(o["engine_mass"] if o["engine_mass"] is not None else case["masses"]).reshape(-1, 1)
        v = g["vel"]
        zm_on = case["zm"] if case["zm"] is not None else (eng == "cp2k")
        if zm_on:
            mom = (v * masses).sum(axis=0)
            # scale of the momenta that were drawn (a lone particle is left with rounding residue only)
            zabs = np.abs(np.array(case["z"], dtype=float))
            sdv = np.array([math.sqrt(float(kT_units(eng, T, m_))) for m_ in masses_as_given(case)]).reshape(-1, 1)
            scale = float(np.abs(v * masses).sum()) + float((masses * sdv * zabs).sum()) + 1e-300
            if np.any(np.abs(mom) > 1e-9 * scale + tol * float(masses.sum())):
                fail(f"C16:{eng}:momentum-not-zero", f"{tag}: total momentum {mom.tolist()} with zero_momentum on")
        # 4. reported energies
        ekin_file = 0.5 * float((masses * v * v).sum())
        etol = (1e-9 * abs(ekin_file) + tol * float((masses * np.abs(v)).sum()) + tol * tol * float(masses.sum()) * 3
                + 1e-300)
        kin_old_true = 0.5 * float((masses * sf["vel"] ** 2).sum())
        if abs(o["kin_new"] - ekin_file) > etol:
            sig = "C16:ase:kin-before-stationary" if eng == "ase" and zm_on else f"C16:{eng}:kin-new-inconsistent"
            fail(sig, f"{tag}: returned kin_new {o['kin_new']!r} but the written velocities carry {ekin_file!r}")
        old = case["sys_ekin"] if eng == "gromacs" else kin_old_true
        want = math.inf if (old is None or (eng != "gromacs" and old == 0.0)) else ekin_file - old
        if math.isinf(want) != math.isinf(o["dek"]) or (not math.isinf(want) and abs(o["dek"] - want) > etol + 1e-9 * abs(old)):
            sig = "C16:ase:kin-before-stationary" if eng == "ase" and zm_on else f"C16:{eng}:dek-inconsistent"
            fail(sig, f"{tag}: dek {o['dek']!r}, kinetic energy of written minus old velocities is {want!r}")
        if o["sys_ekin_after"] is None or abs(o["sys_ekin_after"] - o["kin_new"]) > 0:
            fail(f"C16:{eng}:system-ekin", f"{tag}: system.ekin {o['sys_ekin_after']} ≠ returned kin_new {o['kin_new']}")
        # 5. the draw request
        log = o["log"]
        if len(log) != 1:
            fail(f"C16:{eng}:draw-count", f"{tag}: {len(log)} draw requests {[(l['stream'], l['method']) for l in log]}")
        for l in log:
            if l["stream"] != "rgen":
                fail(f"C16:{eng}:global-rng", f"{tag}: draw {l['method']} went to numpy's global state, not engine.rgen")
            if l["loc"] != 0.0:
                fail(f"C16:{eng}:draw-loc", f"{tag}: loc={l['loc']}")
            if l["size"] != (n, 3):
                fail(f"C16:{eng}:draw-shape", f"{tag}: size={l['size']}")
        if not o["global_state_untouched"]:
            fail(f"C16:{eng}:global-rng", f"{tag}: numpy's global random state was advanced")
        # 6. variance in the engine's units against SI
        mu = masses_as_given(case)
        if log and log[0]["method"] == "normal" and log[0]["scale"] is not None:
            sc = np.broadcast_to(log[0]["scale"], (n, 1)).flatten() if np.ndim(log[0]["scale"]) else np.full(n, float(log[0]["scale"]))
            for i in range(n):
                want_v2 = kT_units(eng, T, mu[i])
                got = Fraction(float(sc[i])) ** 2
                if eng == "lammps":      # the request is in (kcal/g); the written velocity is scale/√(1e7/4184)
                    got = got * Fraction(4184, 10 ** 7)
                if abs(float(got / want_v2) - 1.0) > EPS[eng] * 1.001 + 1e-12:
                    fail(f"C16:{eng}:variance", f"{tag}: particle {i} scale²·m/(k_B T) − 1 = {float(got / want_v2) - 1.0:.3e}")
        if not zm_on and log:
            zarr = np.array(case["z"], dtype=float)
            for i in range(n):
                sd = math.sqrt(float(kT_units(eng, T, mu[i])))
                for j in range(3):
                    if abs(v[i, j] - sd * zarr[i, j]) > (EPS[eng] + 1e-9) * abs(sd * zarr[i, j]) + tol:
                        fail(f"C16:{eng}:velocity-not-sigma-z", f"{tag}: v[{i},{j}]={v[i, j]!r}, √(k_BT/m)·z={sd * zarr[i, j]!r}")
    # ---- model vs code
    if driver_answers is not None and obs is not None and not obs.get("err"):
        ok_variants = []
        for vkin, mo in driver_answers.items():
            probs = compare_model(case, obs, mo)
            if not probs:
                ok_variants.append(vkin)
        want_variant = "repaired" if eng == "ase" else "asIs"   # Vel.codeVariant: /repo since commit 1dd0318
        if want_variant not in ok_variants:
            mo = driver_answers.get(want_variant) or next(iter(driver_answers.values()))
            ctx.disagree({"fn": f"{eng}.modify_velocities", "case": case}, {k: obs[k] for k in ("dek", "kin_new", "beta")},
                         compare_model(case, obs, mo))
        case["_variants_ok"] = ok_variants
    return failed


def compare_model(case, obs, mo):
    eng, n = case["engine"], case["n"]
    probs = []
    tol = written_abs_tol(eng)
    log = obs["log"]
    if len(log) != 1:
        return [f"{len(log)} requests"]
    l = log[0]
    if l["method"] != mo["method"] or l["loc"] != float(mo["loc"]) or l["size"] != (mo["npart"], mo["dim"]):
        probs.append(f"request {l['method']} loc={l['loc']} size={l['size']} vs model {mo['method']} {mo['npart']}x{mo['dim']}")
    if mo["scaleSq"] is not None:
        if l["scale"] is None:
            probs.append("no scale")
        else:
            sc = np.array(l["scale"], dtype=float).flatten()
            if len(sc) != len(mo["scaleSq"]) or any(not close(Fraction(float(a)) ** 2, b, 1e-12) for a, b in zip(sc, mo["scaleSq"])):
                probs.append(f"scale² {[float(a) ** 2 for a in sc]} vs model {[float(b) for b in mo['scaleSq']]}")
    if obs["engine_mass"] is not None and (len(obs["engine_mass"]) != len(mo["mass"]) or any(
            not close(a, b, 1e-14) for a, b in zip(obs["engine_mass"], mo["mass"]))):
        probs.append(f"mass {obs['engine_mass']} vs {[float(x) for x in mo['mass']]}")
    if not close(obs["beta"], mo["beta"], 1e-14):
        probs.append(f"beta {obs['beta']} vs {float(mo['beta'])}")
    # energy scale of the raw draw: after a momentum reset of a single particle the code is left with
    # rounding residue (1e-36) where the model has exactly 0
    z = np.array(case["z"], dtype=float)
    mm = np.array([float(x) for x in mo["mass"]]).reshape(-1, 1)
    if l["scale"] is not None:
        vd = np.array(l["scale"], dtype=float).reshape(-1, 1) * z
    else:
        vd = ase_sigp(case).reshape(-1, 1) * z / mm
    kdraw = 0.5 * float((mm * vd * vd).sum()) / (1e7 / 4184 if eng == "lammps" else 1.0)
    if not close(obs["kin_new"], mo["kinNew"], 1e-9, 1e-12 * kdraw):
        probs.append(f"kin_new {obs['kin_new']} vs {float(mo['kinNew'])}")
    kscale = max(abs(float(mo["kinNew"])), abs(float(mo["kinOld"] or 0)), 1e-3 * kdraw)
    if not close(obs["dek"], mo["dek"], 1e-9, 1e-9 * kscale):
        probs.append(f"dek {obs['dek']} vs {float(mo['dek'])}")
    gv = obs["genvel"]["vel"]
    mv = np.array([[float(x) for x in col] for col in mo["vel"]]).T if mo["vel"] and mo["vel"][0] else np.zeros((0, 3))
    vmax = float(np.abs(mv).max()) if mv.size else 0.0
    vmax = max(vmax, float(np.abs(vd).max()) if vd.size else 0.0)
    if gv.shape != mv.shape or np.any(np.abs(gv - mv) > tol + 1e-9 * np.abs(mv) + 1e-12 * vmax):
        probs.append(f"velocities {gv.tolist()} vs model {mv.tolist()}")
    mp = np.array([[float(x) for x in col] for col in mo["pos"]]).T
    if obs["genvel"]["pos"].shape != mp.shape or not np.array_equal(obs["genvel"]["pos"], mp):
        probs.append("positions vs model")
    gb = obs["genvel"]["box"]
    mb = None if mo["box"] is None else [float(x) for x in mo["box"]]
    if eng == "ase":
        gb = gb[:9]
    if (gb is None) != (mb is None) or (gb is not None and [float(x) for x in gb] != mb):
        probs.append(f"box {gb} vs model {mb}")
    if mo["stream"] != l["stream"]:
        probs.append(f"stream {l['stream']} vs model {mo['stream']}")
    return probs


def id_tokens(case):
    sf = source_frame(case)
    table = {}
    return [table.setdefault(repr(x), len(table) + 1) for x in sf["ids"]]


def ase_sigp(case):
    import ase.units
    return np.sqrt(np.array(case["masses"], dtype=float) * (ase.units.kB * case["T"]))


def do_case(ctx, mods, work, case, with_prepare, shared_vs=None, **kw):
    eng = case["engine"]
    obs = run_case(mods, work, case, shared_vs=shared_vs, **kw)
    obs_prep = run_case(mods, work, case, via_prepare=True) if with_prepare else None
    answers = None
    if ctx._driver_ok and not obs.get("err") and len(obs["log"]) == 1:
        l = obs["log"][0]
        if eng == "ase":
            sig = ase_sigp(case)
            vr = "repaired"          # Vel.codeVariant; a global draw shows up as a stream mismatch
            lines = [model_line(case, sig, vk, vr, id_tokens(case)) for vk in ("asIs", "repaired")]
            out = ctx.driver(lines)
            answers = {"asIs": parse_model(out[0]), "repaired": parse_model(out[1])}
            # units.kB·T·m against the model's rational
            for a, b in zip(sig, answers["asIs"]["momSq"]):
                if not close(Fraction(float(a)) ** 2, b, 1e-12):
                    ctx.disagree({"fn": "ase momenta scale", "case": case}, float(a) ** 2, float(b))
        elif l["scale"] is not None:
            sig = np.broadcast_to(np.array(l["scale"], dtype=float), (case["n"], 1)).flatten()
            out = ctx.driver([model_line(case, sig, "asIs", "asIs", id_tokens(case))])
            answers = {"asIs": parse_model(out[0])}
    failed = evaluate(ctx, case, obs, obs_prep, answers)
    return obs, obs_prep, failed


def _assume(ctx, items):
    for it in items:          # run(ctx) may be called again by the framework (escalation): no duplicates
        if it not in ctx.assumptions:
            ctx.assumptions.append(it)


def _report(ctx, sig, what, replay):
    """one concrete input per signature (the framework keeps few entries); every occurrence is counted"""
    ctx.hit("property-fails:" + sig)
    done = ctx.extra.setdefault("_reported", [])
    if sig not in done:
        done.append(sig)
        ctx.fail(sig, what, replay)


def run_chain(ctx, mods, work, case):
    """repeated kicks: `len(case['chain_z'])` consecutive modify_velocities calls on the SAME engine object and
    the SAME System (each call regenerates from the frame the previous call wrote: system.config =
    (exe_dir/genvel.<ext>, 0) while that file's content changes).  After EVERY call, against the frame the system
    pointed to BEFORE the call (read here with the independent parser):
      dek == kin_new − E_kin(that frame's velocities) (GROMACS: − system.ekin before the call), inf when zero/None;
      kin_new == E_kin(written velocities); positions/box/ids of genvel == that frame's; Σ m v = 0 when requested;
      the original source file's bytes unchanged.  Returns the failed signatures."""
    eng, n = case["engine"], case["n"]
    failed = []
    rep = {"case": {k: v for k, v in case.items() if not k.startswith("_")}}

    def fail(sig, what):
        failed.append(sig)
        _report(ctx, sig, what, rep)

    try:
        e = build_engine(mods, work, case)
    except Exception as ex:  # noqa: BLE001
        fail(f"C16:{eng}:raises", f"engine construction raised {err_kind(ex)}: {ex}")
        return failed
    src = work / f"src_{eng}.{EXT[eng]}"
    write_source(case, src)
    src_bytes = src.read_bytes()
    sysm = mods["System"]()
    sysm.set_pos((str(src), 0 if eng == "gromacs" else case["idx"]))
    sysm.ekin = case["sys_ekin"]
    vs = make_settings(case)
    vs_before = _copy.deepcopy(vs)
    zm_on = case["zm"] if case["zm"] is not None else (eng == "cp2k")
    tol = written_abs_tol(eng)
    prev = source_frame(case)
    for k, z in enumerate(case["chain_z"]):
        tag = f"call {k + 1} of {len(case['chain_z'])} on the same engine and System"
        if k > 0:      # what the system points to now, read independently before the call
            prev = parse_frame(eng, sysm.config[0], n)
        ekin_before = sysm.ekin
        gen = ScriptedGen(np.array(z, dtype=float))
        e.rgen = gen
        try:
            with GlobalTap(np.array(z, dtype=float), gen.log):
                dek, kin_new = e.modify_velocities(sysm, vs)
        except Exception as ex:  # noqa: BLE001
            fail(f"C16:{eng}:raises", f"{tag}: modify_velocities raised {err_kind(ex)}: {str(ex)[:160]}")
            return failed
        dek, kin_new = float(dek), float(kin_new)
        if vs != vs_before:
            fail(f"C16:{eng}:settings-mutated", f"{tag}: modify_velocities changed the settings dict it was handed: "
                 f"{vs_before} → {vs}")
        g = parse_frame(eng, sysm.config[0], n)
        m = getattr(e, "masses", None) if eng == "gromacs" else getattr(e, "mass", None)
        masses = np.array(case["masses"] if m is None else m, dtype=float).reshape(-1, 1)
        if g["ids"] != prev["ids"]:
            fail(f"C16:{eng}:ids-changed", f"{tag}: identities {g['ids']} ≠ those of the frame it was taken from {prev['ids']}")
        if g["pos"].shape != prev["pos"].shape or not np.array_equal(g["pos"], prev["pos"]):
            fail(f"C16:{eng}:positions-changed", f"{tag}: positions {g['pos'].tolist()} ≠ those of the frame it was "
                 f"taken from {prev['pos'].tolist()}")
        if prev["box"] is not None and g["box"] != prev["box"]:
            fail(f"C16:{eng}:box-changed", f"{tag}: box {g['box']} ≠ {prev['box']}")
        if src.read_bytes() != src_bytes:
            fail(f"C16:{eng}:source-file-altered", f"{tag}: the original source trajectory file was modified")
        v = g["vel"]
        ekin_file = 0.5 * float((masses * v * v).sum())
        etol = (1e-9 * abs(ekin_file) + tol * float((masses * np.abs(v)).sum()) + tol * tol * float(masses.sum()) * 3
                + 1e-300)
        if abs(kin_new - ekin_file) > etol:
            fail(f"C16:{eng}:kin-new-inconsistent", f"{tag}: returned kin_new {kin_new!r} but the written velocities "
                 f"carry {ekin_file!r}")
        pv = prev["vel"] if np.size(prev["vel"]) else np.zeros_like(prev["pos"])
        old = ekin_before if eng == "gromacs" else 0.5 * float((masses * pv ** 2).sum())
        want = math.inf if (old is None or (eng != "gromacs" and old == 0.0)) else ekin_file - old
        if math.isinf(want) != math.isinf(dek) or (not math.isinf(want) and abs(dek - want) > etol + 1e-9 * abs(old)):
            fail(f"C16:{eng}:dek-inconsistent", f"{tag}: dek {dek!r}, but kinetic energy of the written velocities minus "
                 f"that of the frame the system pointed to before the call is {want!r}")
        if zm_on:
            mom = (v * masses).sum(axis=0)
            zabs = np.abs(np.array(z, dtype=float))
            sdv = np.array([math.sqrt(float(kT_units(eng, case["T"], m_))) for m_ in masses_as_given(case)]).reshape(-1, 1)
            scale = float(np.abs(v * masses).sum()) + float((masses * sdv * zabs).sum()) + 1e-300
            if np.any(np.abs(mom) > 1e-9 * scale + tol * float(masses.sum())):
                fail(f"C16:{eng}:momentum-not-zero", f"{tag}: total momentum {mom.tolist()} with zero_momentum on")
        if len(gen.log) != 1 or gen.log[0]["stream"] != "rgen":
            fail(f"C16:{eng}:global-rng" if any(l["stream"] != "rgen" for l in gen.log) else f"C16:{eng}:draw-count",
                 f"{tag}: draw requests {[(l['stream'], l['method']) for l in gen.log]}")
    return failed


def chain_cases(ctx):
    rng = ctx.rng
    out = []
    for eng in ENGINES:
        for zm in (None, False, True):
            for rep in range(1 if ctx.quick else 4):
                n = rng.choice((2, 3, 5))
                T = rng.choice((300, 77.5, 1000))
                c = gen_case(rng, eng, n, T, zm, "chain")
                c["chain_z"] = [[[rng.gauss(0, 1) for _ in range(3)] for _ in range(n)] for _ in range(rng.randint(4, 6))]
                out.append(c)
    return out


def run_shared_settings(ctx, mods, work):
    """sequences of engines handed ONE settings dict (as a driver / multi-engine set-up hands one tis_set to
    several engines), key-less and with explicit keys.  Every engine's result must be what its OWN default gives
    (full tie + predicates for that engine on the shared dict: model `zeroMomentumFlag`, variance, v = σ·z …) and
    must equal, bit for bit, the same call on a fresh copy of the original dict."""
    rng = ctx.rng
    orders = [list(ENGINES[i:] + ENGINES[:i]) for i in range(len(ENGINES))]
    for _ in range(1 if ctx.quick else 6):
        o = list(ENGINES)
        rng.shuffle(o)
        orders.append(o)
    for order in orders:
        for zm in (None, False, True):
            proto = {"engine": order[0], "zm": zm, "rich_settings": rng.random() < 0.5}
            shared = make_settings(proto)
            original = _copy.deepcopy(shared)
            for pos, eng in enumerate(order):
                n = rng.choice((2, 3, 4))
                case = gen_case(rng, eng, n, rng.choice((300, 77.5)), zm, "shared-settings")
                case["rich_settings"] = proto["rich_settings"]
                case["history"] = order[:pos]
                handed = _copy.deepcopy(shared)
                obs, _p, failed = do_case(ctx, mods, work, case, False, shared_vs=shared)
                fresh = run_case(mods, work, case, shared_vs=_copy.deepcopy(original))
                ctx.count(2, branch="shared-settings")
                if obs.get("err") or fresh.get("err"):
                    continue
                same = (np.array_equal(obs["genvel"]["vel"], fresh["genvel"]["vel"]) and obs["dek"] == fresh["dek"]
                        and obs["kin_new"] == fresh["kin_new"])
                if not same:
                    _report(ctx, f"C16:{eng}:result-depends-on-call-history",
                            f"{eng}.modify_velocities after {order[:pos]} on one shared settings dict (originally "
                            f"{original}, now {handed}) writes velocities {obs['genvel']['vel'].tolist()} / kin_new "
                            f"{obs['kin_new']!r}; on a fresh copy of the original settings the same engine, frame and "
                            f"draw give {fresh['genvel']['vel'].tolist()} / {fresh['kin_new']!r}",
                            {"case": {k: v for k, v in case.items() if not k.startswith("_")}, "order": order,
                             "position": pos, "original_settings": original, "settings_when_called": handed,
                             "check": "shared-settings"})


def vary_case(rng, base, kind):
    """a new frame / draw / settings for the SAME engine instance: what is fixed at construction (masses,
    elements, atom count, temperature) is kept — except for ASE, whose masses come from each frame"""
    eng = base["engine"]
    if eng == "ase":
        return gen_case(rng, eng, rng.choice((1, 2, 3, 5)), base["T"], rng.choice((None, False, True)), kind)
    c = gen_case(rng, eng, base["n"], base["T"], rng.choice((None, False, True)), kind)
    for k in ("masses", "mass_dtype", "elements", "types"):
        if k in base:
            c[k] = _copy.deepcopy(base[k])
        else:
            c.pop(k, None)
    return c


def run_long_lived(ctx, mods, work):
    """ONE engine object over a sequence of different systems (new frame content under the SAME file name and
    under new names, new settings, for ASE also other atom counts and masses), and TWO engine objects of one
    class alive at once with different temperatures and masses, used alternately.  Every call goes through the
    full tie/predicates for the current input and must equal, bit for bit, the same call on a FRESH engine
    (nothing cached from earlier calls or shared between instances may leak)."""
    rng = ctx.rng
    for eng in ENGINES:
        n0 = rng.choice((2, 3)) if eng != "lammps" else 3
        base_a = gen_case(rng, eng, n0, 300, None, "long-lived")
        base_b = gen_case(rng, eng, n0 + 1, rng.choice((77.5, 1000)), None, "long-lived")
        try:
            ea = build_engine(mods, work, base_a, tag="A")
            eb = build_engine(mods, work, base_b, tag="B")
        except Exception as ex:  # noqa: BLE001
            _report(ctx, f"C16:{eng}:raises", f"engine construction raised {err_kind(ex)}: {ex}", {"case": base_a})
            continue
        seq = ["A", "A", "B", "A", "B"] if ctx.quick else ["A", "A", "A", "B", "A", "B", "B", "A"]
        for k, who in enumerate(seq):
            base, e = (base_a, ea) if who == "A" else (base_b, eb)
            case = vary_case(rng, base, "long-lived")
            case["history"] = seq[:k]
            # same file NAME rewritten with different content on even steps, a new name on odd ones
            src_name = f"src_{eng}{who}.{EXT[eng]}" if k % 2 == 0 else f"src_{eng}{who}_{k}.{EXT[eng]}"
            obs, _p, _f = do_case(ctx, mods, work, case, False, engine=e, tag=who, src_name=src_name)
            fresh = run_case(mods, work, case, tag="F")
            ctx.count(2, branch="long-lived-engine")
            if obs.get("err") or fresh.get("err"):
                if bool(obs.get("err")) != bool(fresh.get("err")):
                    _report(ctx, f"C16:{eng}:result-depends-on-call-history",
                            f"call {k + 1} on a long-lived engine: {obs.get('err')} vs fresh engine: {fresh.get('err')}",
                            {"case": {kk: v for kk, v in case.items() if not kk.startswith("_")}})
                continue
            same = (np.array_equal(obs["genvel"]["vel"], fresh["genvel"]["vel"]) and obs["dek"] == fresh["dek"]
                    and obs["kin_new"] == fresh["kin_new"] and obs["engine_mass"] == fresh["engine_mass"]
                    and obs["beta"] == fresh["beta"]
                    and np.array_equal(obs["genvel"]["pos"], fresh["genvel"]["pos"]) and obs["genvel"]["box"] == fresh["genvel"]["box"])
            if not same:
                _report(ctx, f"C16:{eng}:result-depends-on-call-history",
                        f"call {k + 1} (engine {who}, history {seq[:k]}) on a long-lived {eng} engine gives velocities "
                        f"{obs['genvel']['vel'].tolist()}, kin_new {obs['kin_new']!r}, beta {obs['beta']!r}; a fresh engine "
                        f"for the same input gives {fresh['genvel']['vel'].tolist()}, {fresh['kin_new']!r}, {fresh['beta']!r}",
                        {"case": {kk: v for kk, v in case.items() if not kk.startswith("_")}, "check": "long-lived",
                         "sequence": seq, "position": k})


def sigma_argument_check(ctx, mods, work):
    """draw_maxwellian_velocities(vel, mass, beta, sigma_v): an explicit non-negative sigma_v (also 0.0, falsy
    but valid) is used as given; None or any negative entry → estimated as sqrt((1/beta)(1/mass)) — tie only"""
    case = gen_case(ctx.rng, "turtlemd", 3, 300, None, "sigma-arg")
    e = build_engine(mods, work, case, tag="S")
    mass = np.array(case["masses"], dtype=float).reshape(-1, 1)
    z = np.array(case["z"], dtype=float)
    est = np.sqrt((1.0 / e.beta) * (1 / mass))
    for name, sv, want in (("none", None, est), ("given", np.array([[0.5], [2.0], [0.125]]), None),
                           ("zeros", np.zeros((3, 1)), None), ("negative", np.array([[0.5], [-1.0], [2.0]]), est)):
        gen = ScriptedGen(z)
        e.rgen = gen
        sv_in = None if sv is None else sv.copy()
        vel, sig = e.draw_maxwellian_velocities(np.zeros((3, 3)), mass, e.beta, sigma_v=sv)
        want_sig = sv_in if want is None else want
        ctx.count(1, branch="sigma-argument")
        ok = (len(gen.log) == 1 and np.allclose(sig, want_sig, rtol=1e-14, atol=0) and np.allclose(vel, want_sig * z, rtol=1e-14, atol=0)
              and (sv is None or np.array_equal(sv, sv_in)))
        if not ok:
            _report(ctx, "C16:draw:sigma-v-argument", f"draw_maxwellian_velocities(sigma_v={name}): returned sigma "
                    f"{np.array(sig).tolist()}, expected {np.array(want_sig).tolist()}; draws {len(gen.log)}",
                    {"case": case, "sigma_v": None if sv_in is None else sv_in.tolist(), "check": "sigma-arg"})


def gromacs_own_genvel_guard(ctx, mods, work):
    """GROMACS without infretis_genvel (gmx generates): outside the property, except that a request the engine
    cannot honour (zero_momentum False) must be refused before anything is touched"""
    case = gen_case(ctx.rng, "gromacs", 2, 300, False, "gmx-genvel")
    import contextlib
    import io
    d = work / "in_gromacsG"
    if d.exists():
        shutil.rmtree(d)
    d.mkdir()
    for fn in ("conf.g96", "grompp.mdp", "topol.top"):
        shutil.copy(EX / "gromacs/H2/gromacs_input" / fn, d / fn)
    with contextlib.redirect_stdout(io.StringIO()):
        e = mods["GromacsEngine"]("echo", d.resolve(), 0, 0, 300)
    _finish_engine(e, work, "gromacs", "G")
    src = work / "src_gromacsG.g96"
    write_source(case, src)
    b0 = src.read_bytes()
    s_ = mods["System"]()
    s_.set_pos((str(src), 0))
    s_.ekin = 3.5
    before = snap_system(s_)
    for val in (False,):
        vs = {"zero_momentum": val}
        try:
            e.modify_velocities(s_, vs)
            out = "no error"
        except ValueError:
            out = "value"
        except Exception as ex:  # noqa: BLE001
            out = err_kind(ex)
        ctx.count(1, branch="gromacs-own-genvel-guard")
        if out != "value" or snap_system(s_) != before or src.read_bytes() != b0 or vs != {"zero_momentum": val}:
            _report(ctx, "C16:gromacs:genvel-guard", f"gmx-generated velocities with zero_momentum={val!r}: {out}; "
                    "System/source/settings untouched = "
                    f"{snap_system(s_) == before}/{src.read_bytes() == b0}/{vs == {'zero_momentum': val}}",
                    {"case": case, "check": "gmx-guard"})


def reproducibility(ctx, mods, work, case):
    """same engine.rgen state twice ⇒ same written velocities (real numpy generators)"""
    eng = case["engine"]
    vels = []
    for rep in range(2):
        e = build_engine(mods, work, case)
        src = work / f"src_{eng}.{EXT[eng]}"
        write_source(case, src)
        e.rgen = np.random.default_rng(12345)
        np.random.seed(1000 + rep)           # a different *global* state each time
        s = mods["System"]()
        s.set_pos((str(src), 0 if eng == "gromacs" else case["idx"]))
        s.ekin = 1.0
        e.modify_velocities(s, {} if case["zm"] is None else {"zero_momentum": case["zm"]})
        vels.append(parse_frame(eng, s.config[0], case["n"])["vel"])
    ok = np.array_equal(vels[0], vels[1])
    if not ok:
        ctx.fail(f"C16:{eng}:global-rng", "two regenerations from the same engine.rgen state (seed 12345) give "
                 f"different velocities: {vels[0].tolist()} vs {vels[1].tolist()}", {"case": case, "check": "reproducibility"})
    return ok


def moment_check(ctx, mods, work):
    """supporting evidence only: 1e5 real numpy draws per engine, mean and m·v²/(k_BT) in a 6σ band"""
    res = {}
    for eng in ENGINES:
        case = gen_case(ctx.rng, eng, 5, 300, False, "plain")
        e = build_engine(mods, work, case)
        src = work / f"src_{eng}.{EXT[eng]}"
        write_source(case, src)
        e.rgen = np.random.default_rng(ctx.seed + 7)
        np.random.seed(ctx.seed + 11)
        mu = masses_as_given(case)
        sd = np.array([math.sqrt(float(kT_units(eng, 300, m))) for m in mu]).reshape(-1, 1)
        xs = []
        reps = 100000 // 15 + 1
        for _ in range(reps):
            s = mods["System"]()
            s.set_pos((str(src), 0 if eng == "gromacs" else case["idx"]))
            s.ekin = 1.0
            e.modify_velocities(s, {"zero_momentum": False})
            xs.append(parse_frame(eng, s.config[0], 5)["vel"] / sd)
        x = np.concatenate(xs).flatten()
        N = len(x)
        res[eng] = {"draws": int(N), "mean": float(x.mean()), "var": float((x * x).mean()),
                    "mean_ok_6sigma": bool(abs(x.mean()) < 6 / math.sqrt(N)),
                    "var_ok_6sigma": bool(abs((x * x).mean() - 1) < 6 * math.sqrt(2 / N) + 1e-5)}
    ctx.extra["moment_check_supporting_evidence"] = res


def shoot_fields(ctx, obs_prep, case):
    """heap model vs the real prepare_shooting_point: which attributes of the copy are rebound"""
    eng = case["engine"]
    out = ctx.driver([f"shoot {eng} asIs asIs {0 if eng == 'gromacs' else case['idx']} 0"])[0]
    rebound = sorted(k for k, same in obs_prep["copy_attrs"].items() if not same and k in
                     ("config", "order", "pos", "vel", "box", "temperature"))
    ekin_changed = True
    model_changed = sorted(x for x in out.split("changed=")[1].split()[0].split(",") if x not in ("ekin",))
    if "src_same=true" not in out or "objs_same=true" not in out or "srcfile_same=true" not in out:
        ctx.disagree({"fn": "prepareShootingPoint", "case": case}, "source untouched", out)
    box_none = obs_prep["genvel"]["box"] is None
    want = [k for k in model_changed if not (k == "box" and box_none)]
    if rebound != want or not ekin_changed:
        ctx.disagree({"fn": "prepareShootingPoint fields", "case": case}, rebound, want)


# ------------------------------------------------------------------ C07, the half that lives in the engines
class LoggingGen:
    """a real numpy Generator (seeded) behind a proxy that logs every method call and its result:
    this *is* the job's engine stream in the C07 runs"""

    def __init__(self, seed):
        object.__setattr__(self, "_g", np.random.default_rng(seed))
        object.__setattr__(self, "log", [])

    def __getattr__(self, name):
        attr = getattr(self._g, name)
        if not callable(attr):
            return attr

        def call(*a, **k):
            r = attr(*a, **k)
            self.log.append({"method": name, "result": r if np.ndim(r) == 0 else None,
                             "shape": None if np.ndim(r) == 0 else tuple(np.shape(r))})
            return r
        return call


_NP_GLOBAL = ("random", "rand", "randn", "randint", "random_sample", "ranf", "sample", "random_integers",
              "normal", "standard_normal", "uniform", "choice", "shuffle", "permutation", "bytes", "seed",
              "exponential", "gamma", "beta", "binomial", "poisson", "multivariate_normal", "lognormal",
              "standard_exponential", "standard_gamma", "standard_cauchy", "standard_t", "triangular", "laplace")
_PY_GLOBAL = ("random", "randint", "randrange", "uniform", "gauss", "normalvariate", "choice", "choices", "shuffle",
              "sample", "getrandbits", "seed", "betavariate", "expovariate", "triangular", "randbytes")


class Tripwire:
    """logs every call of numpy's GLOBAL random functions, of the `random` module's functions, and every
    construction of a fresh generator (`default_rng`, also the name bound inside turtlemd.integrators) —
    the calls go through unchanged"""

    def __init__(self):
        self.global_calls = []
        self.new_generators = []
        self._saved = []

    def _wrap(self, mod, name, kind):
        import random as _r
        import traceback
        orig = getattr(mod, name)

        def w(*a, **k):
            fr = [f for f in traceback.extract_stack(limit=8)[:-1] if "harness/props" not in f.filename]
            where = f"{fr[-1].filename}:{fr[-1].lineno}" if fr else "?"
            if kind == "gen":
                seed = a[0] if a else k.get("seed")
                self.new_generators.append({"fn": name, "seed": seed, "where": where})
            else:
                self.global_calls.append({"fn": f"{kind}.{name}", "where": where})
            return orig(*a, **k)
        self._saved.append((mod, name, orig))
        setattr(mod, name, w)
        _ = _r

    def __enter__(self):
        import random as _r
        for n in _NP_GLOBAL:
            if hasattr(np.random, n):
                self._wrap(np.random, n, "numpy.random")
        for n in _PY_GLOBAL:
            if hasattr(_r, n):
                self._wrap(_r, n, "random")
        self._wrap(np.random, "default_rng", "gen")
        try:
            import turtlemd.integrators as ti
            if hasattr(ti, "default_rng"):
                self._wrap(ti, "default_rng", "gen")
        except Exception:  # noqa: BLE001
            pass
        return self

    def __exit__(self, *a):
        for mod, name, orig in reversed(self._saved):
            setattr(mod, name, orig)


def _c07_engine(mods, work, case, integrator=None, spell=None):
    """build one engine for the C07 runs (ASE / TurtleMD with the requested integrator) for `case`;
    `spell`: how the integrator's class name is spelled in the settings (None = as in the examples,
    "lower", "upper", "swap" = other capitalisations the engines accept: they lower-case the name)"""
    def sp(name):
        return {None: name, "lower": name.lower(), "upper": name.upper(), "swap": name.swapcase()}[spell]
    import contextlib
    import io
    import tomli
    eng, T, n = case["engine"], case["T"], case["n"]
    if integrator is None:
        return build_engine(mods, work, case)
    with contextlib.redirect_stdout(io.StringIO()):
        if eng == "ase":
            cfg = tomli.loads((EX / "ase/H2/infretis0.toml").read_text())
            cfg["engine"]["temperature"] = T
            cfg["engine"]["integrator"] = sp(integrator)
            cfg["engine"]["calculator_settings"]["module"] = str((EX / "ase/H2/H2-calc.py").resolve())
            e = mods["create_engine"](cfg)
        else:
            cfg = tomli.loads((EX / "turtlemd/H2/infretis.toml").read_text())
            cfg["engine"]["temperature"] = T
            cfg["engine"]["boltzmann"] = TURTLE_KB
            cfg["engine"]["particles"] = {"mass": masses_arg(case), "name": ["H"] * n,
                                          "pos": [[0.3 * i, 0.0, 0.0] for i in range(n)]}
            if integrator == "velocityverlet":
                cfg["engine"]["integrator"] = {"class": sp("VelocityVerlet"), "settings": {}}
            elif integrator == "langevinoverdamped":
                cfg["engine"]["integrator"] = {"class": sp("LangevinOverdamped"),
                                               "settings": {"gamma": 10, "beta": 1.0 / (TURTLE_KB * T)}}
            else:
                cfg["engine"]["integrator"] = {"class": sp("LangevinInertia"),
                                               "settings": {"gamma": 10, "beta": 1.0 / (TURTLE_KB * T)}}
            e = mods["create_engine"](cfg)
        return _finish_engine(e, work, eng)


def _gen_state(gen):
    st = gen._g.bit_generator.state
    return (st["state"]["state"], st["state"]["inc"], st.get("has_uint32"), st.get("uinteger"))


def _c07_job(mods, e, gen, case, src, zm, do_prop, integ):
    """one job on engine object `e` whose stream is `gen` (as select_shoot does: engine.rgen = pens['rgen-eng']):
    modify_velocities and, if `do_prop`, a short propagate — both under a tripwire.  Returns what was observed."""
    import warnings
    from infretis.classes.path import Path as InfPath
    eng = case["engine"]

    class _Ord:
        def calculate(self, system):
            return [0.5]

    e.rgen = gen
    e.order_function = _Ord()
    out = {"mv_err": None, "prop_err": None, "seeds_given": [], "lmp": {}, "traj": None, "path_len": None}
    s = mods["System"]()
    s.set_pos((str(src), 0 if eng == "gromacs" else case["idx"]))
    s.ekin = 1.0
    s.order = [0.5]
    n0 = len(gen.log)
    with Tripwire() as tw:
        try:
            e.modify_velocities(s, {"zero_momentum": zm})
        except Exception as ex:  # noqa: BLE001
            out["mv_err"] = err_kind(ex) + ":" + str(ex)[:120]
    out["mv_tw"] = tw
    out["mv_draws"] = len(gen.log) - n0
    out["genvel"] = None if out["mv_err"] else parse_frame(eng, s.config[0], case["n"])["vel"]
    if not do_prop or out["mv_err"]:
        out["state"] = _gen_state(gen)
        return out
    n1 = len(gen.log)
    undo = []
    if eng == "turtlemd":
        orig_int = e.integrator

        def rec_int(*a, _o=orig_int, **k):
            out["seeds_given"].append(k.get("seed", "absent"))
            return _o(*a, **k)
        e.integrator = rec_int
        undo.append(lambda: setattr(e, "integrator", orig_int))
    if eng == "lammps":
        import infretis.classes.engines.lammps as lm
        orig_w = lm.write_for_run

        def rec_w(infile, outfile, input_settings=None, _o=orig_w):
            out["lmp"]["seed"] = (input_settings or {}).get("infretis_seed")
            r = _o(infile, outfile, input_settings)
            out["lmp"]["text"] = Path(outfile).read_text()
            return r
        lm.write_for_run = rec_w
        undo.append(lambda: setattr(lm, "write_for_run", orig_w))
        e.lmp = ["false"]
        e.sleep = 0.001
    path = InfPath(maxlen=4)
    ens_set = {"interfaces": [0.0, 0.25, 1.0], "ens_name": "c07", "tis_set": {}}
    before = set(os.listdir(e.exe_dir))
    with Tripwire() as tw2, warnings.catch_warnings():
        warnings.simplefilter("ignore")
        try:
            e.propagate(path, ens_set, s, reverse=False)
        except Exception as ex:  # noqa: BLE001
            out["prop_err"] = err_kind(ex) + ":" + str(ex)[:160]
    for u in undo:
        u()
    out["prop_tw"] = tw2
    out["prop_log"] = gen.log[n1:]
    out["ints"] = [int(l["result"]) for l in out["prop_log"] if l["method"] == "integers"]
    out["path_len"] = path.length
    # the trajectory this job produced (content only; names carry pid and a global counter)
    new = sorted(f for f in set(os.listdir(e.exe_dir)) - before if "trajF" in f and not f.startswith("msg"))
    if new and eng == "ase":
        from ase.io.trajectory import Trajectory
        tr = Trajectory(os.path.join(e.exe_dir, new[0]))
        out["traj"] = [(a.positions.tobytes(), a.get_momenta().tobytes()) for a in tr]
        tr.close()
    elif new:
        out["traj"] = Path(os.path.join(e.exe_dir, new[0])).read_bytes()
    out["state"] = _gen_state(gen)
    return out


def run_c07_engine_streams(ctx):
    """C07, engine half: every random number drawn in-process for a move — velocity draws, seeds handed
    to stochastic integrators — comes from the job's engine stream (`engine.rgen`), in every engine class.

    For each engine class TWO successive jobs run on the SAME engine object, the first with logging
    generator A, the second with B (as select_shoot does: `engine.rgen = pens["rgen-eng"]`), each job =
    `modify_velocities` and, where the engine integrates in-process or hands a seed to the MD program (ASE
    VelocityVerlet/Langevin, TurtleMD VelocityVerlet/LangevinInertia/LangevinOverdamped, LAMMPS
    `infretis_seed`), a short `propagate`; all under a tripwire on numpy's global random functions, the
    `random` module and fresh `default_rng` constructions.  Then job 2 is repeated on a FRESH engine object
    with a generator in B's initial state.  Each of the following is `C07:<engine>:draw-outside-job-stream`:
      a global draw; a generator seeded by something the job's rgen did not return; a LAMMPS/TurtleMD seed that
      the job's rgen did not return; during job 2 a draw that advances A (a generator kept from job 1), or
      job 2 differing from the same job on the fresh engine (velocities, trajectory, seeds, final state of B):
      "a job's streams are a function of the seed and the job's ordinal only".
    Called from harness/props/c07.py (failures are ctx.fail there) and from C16's own run (failures are
    recorded in the histogram under c07_ keys and in the evidence, not raised)."""
    mods = _imports()
    raise_fail = ctx.prop == "C07"
    work = Path(tempfile.mkdtemp(prefix="c07eng-", dir="/var/tmp"))
    cwd = os.getcwd()
    results = []
    plan = [("gromacs", None, False), ("cp2k", None, False), ("lammps", None, True),
            ("ase", "velocityverlet", True), ("ase", "langevin", True),
            ("turtlemd", "velocityverlet", True), ("turtlemd", "langevininertia", True),
            ("turtlemd", "langevinoverdamped", True)]
    temps = (300,) if ctx.quick else (300, 77.5, 1200)

    def report(eng, what, replay):
        sig = f"C07:{eng}:draw-outside-job-stream"
        ctx.hit(f"c07_fail:{sig}")
        if raise_fail:
            ctx.fail(sig, what, replay)
        else:
            ctx.extra.setdefault("c07_engine_stream_failures", []).append({"signature": sig, "what": what, **replay})

    def check_job(label, eng, integ, tag, job, rep):
        """the single-job predicates"""
        for phase, tw in (("modify_velocities", job["mv_tw"]), ("propagate", job.get("prop_tw"))):
            if tw is None:
                continue
            ints = job.get("ints", []) if phase == "propagate" else []
            for g in tw.global_calls:
                report(eng, f"{label} {tag}: {phase} called {g['fn']} at {g['where']} (global state), not engine.rgen",
                       dict(rep, job=tag, phase=phase, call=g))
            for g in tw.new_generators:
                ok = g["seed"] is not None and np.ndim(g["seed"]) == 0 and any(int(g["seed"]) == x for x in ints)
                if not ok:
                    report(eng, f"{label} {tag}: {phase} built {g['fn']}(seed={g['seed']!r}) at {g['where']}: the seed is "
                           f"not a value drawn from the job's rgen {ints}",
                           dict(rep, job=tag, phase=phase, call={k: str(v) for k, v in g.items()}))
        if not job["mv_err"] and job["mv_draws"] == 0:
            report(eng, f"{label} {tag}: modify_velocities made no draw on the job's rgen", dict(rep, job=tag))
        if job.get("prop_tw") is None:
            return
        ints = job["ints"]
        if eng == "turtlemd":
            for sd in job["seeds_given"]:
                if sd == "absent" or not any(int(sd) == x for x in ints):
                    report(eng, f"{label} {tag}: integrator seed {sd!r} is not a value drawn from the job's rgen {ints}",
                           dict(rep, job=tag, seed=str(sd)))
            if not job["seeds_given"] and not job["prop_err"]:
                report(eng, f"{label} {tag}: the integrator was not built through engine.integrator", dict(rep, job=tag))
        if eng == "lammps":
            sd = job["lmp"].get("seed")
            line = [l for l in job["lmp"].get("text", "").split("\n") if l.split()[:3] == ["variable", "seed", "index"]]
            if sd is None or not any(int(sd) == x for x in ints):
                report(eng, f"lammps {tag}: infretis_seed {sd!r} is not a value drawn from the job's rgen {ints}",
                       dict(rep, job=tag, seed=str(sd)))
            elif not line or line[0].split()[3] != str(int(sd)):
                report(eng, f"lammps {tag}: run.inp carries {line} instead of the drawn seed {sd}",
                       dict(rep, job=tag, seed=str(sd), line=line))
        if eng == "ase" and integ == "langevin" and not job["prop_err"]:
            if not any(l["method"] == "standard_normal" for l in job["prop_log"]):
                report(eng, f"ase/langevin {tag}: the thermostat noise was not drawn from the job's rgen", dict(rep, job=tag))

    def same(a, b):
        if isinstance(a, np.ndarray) or isinstance(b, np.ndarray):
            return a is not None and b is not None and np.array_equal(a, b)
        return a == b

    try:
        os.chdir(work)
        for (eng, integ, do_prop) in plan:
            for T in temps:
                for zm in (False, True):
                    label = eng + ("" if integ is None else f"/{integ}")
                    # spelling of the integrator name: every capitalisation the engine accepts must behave alike
                    n_spelled = sum(v for k, v in ctx.hist.items() if k.startswith("c07_integrator_spelling:"))
                    spell = None if integ is None else [None, "lower", "upper", "swap"][n_spelled % 4]
                    case = gen_case(ctx.rng, eng, 3, T, False, "plain")
                    seed_a, seed_b = ctx.rng.randrange(1 << 30), ctx.rng.randrange(1 << 30)
                    rep = {"engine": eng, "integrator": integ, "integrator_spelling": spell, "T": T,
                           "zero_momentum": zm, "rgen_seed_job1": seed_a,
                           "rgen_seed_job2": seed_b, "case": {k: v for k, v in case.items() if not k.startswith("_")}}
                    try:
                        e = _c07_engine(mods, work, case, integ, spell)
                    except Exception as ex:  # noqa: BLE001
                        ctx.hit(f"c07_build_error:{label}:{err_kind(ex)}")
                        continue
                    ctx.hit(f"c07_integrator_spelling:{spell}")
                    src = work / f"src_{eng}.{EXT[eng]}"
                    write_source(case, src)
                    gen_a, gen_b = LoggingGen(seed_a), LoggingGen(seed_b)
                    # ---- job 1 (stream A) and job 2 (stream B) on the same engine object
                    job1 = _c07_job(mods, e, gen_a, case, src, zm, do_prop, integ)
                    a_state, a_calls = _gen_state(gen_a), len(gen_a.log)
                    job2 = _c07_job(mods, e, gen_b, case, src, zm, do_prop, integ)
                    ctx.count(2, c07_engine=label)
                    check_job(label, eng, integ, "job 1", job1, rep)
                    if _gen_state(gen_a) != a_state or len(gen_a.log) != a_calls:
                        kept = [l["method"] for l in gen_a.log[a_calls:]]
                        report(eng, f"{label}: during job 2 (engine.rgen = B) the engine drew {len(kept)} times "
                               f"({sorted(set(kept))}) from job 1's generator A, which it kept",
                               dict(rep, job="job 2", kept_calls=kept[:10]))
                    check_job(label, eng, integ, "job 2 (same engine object)", job2, rep)
                    # ---- job 2 again, on a fresh engine object with a generator in B's initial state
                    try:
                        e2 = _c07_engine(mods, work, case, integ, spell)
                    except Exception as ex:  # noqa: BLE001
                        ctx.hit(f"c07_build_error:{label}:{err_kind(ex)}")
                        continue
                    write_source(case, src)
                    gen_b2 = LoggingGen(seed_b)
                    job2f = _c07_job(mods, e2, gen_b2, case, src, zm, do_prop, integ)
                    ctx.count(1, c07_engine=label + ":fresh")
                    diffs = [k for k in ("genvel", "traj", "state", "seeds_given", "path_len")
                             if not same(job2.get(k), job2f.get(k))]
                    if job2["lmp"].get("seed") != job2f["lmp"].get("seed"):
                        diffs.append("lammps seed")
                    if (job2["mv_err"] is None) != (job2f["mv_err"] is None) or \
                            (job2["prop_err"] is None) != (job2f["prop_err"] is None):
                        diffs.append("error")
                    if diffs:
                        report(eng, f"{label}: the second job on a used engine object differs from the same job (same "
                               f"stream B) on a fresh engine object in {diffs}: the result is not a function of the "
                               "job's stream only", dict(rep, job="job 2", differs=diffs))
                    # two (concurrent or successive) jobs with different streams: the seeds handed on differ
                    s1 = [str(x) for x in job1["seeds_given"]] + [str(job1["lmp"].get("seed"))]
                    s2 = [str(x) for x in job2["seeds_given"]] + [str(job2["lmp"].get("seed"))]
                    if do_prop and seed_a != seed_b and eng in ("turtlemd", "lammps") and s1 == s2 \
                            and any(x not in ("None", "absent") for x in s1):
                        report(eng, f"{label}: two jobs with different engine streams handed the same seed(s) {s1} to the "
                               "integrator / MD program", dict(rep, job="job 1 vs job 2", seeds=s1))
                    ctx.hit(f"c07_modify_velocities:{label}:draws_on_rgen={job1['mv_draws']},{job2['mv_draws']}")
                    if do_prop:
                        ctx.hit(f"c07_propagate:{label}:rgen_calls="
                                f"{sorted(set(l['method'] for l in job2.get('prop_log', [])))}")
                        if job2["prop_err"] and eng != "lammps":
                            ctx.hit(f"c07_propagate_error:{label}:{job2['prop_err'][:80]}")
                    results.append({"engine": label, "T": T, "zm": zm,
                                    "mv_draws": [job1["mv_draws"], job2["mv_draws"], job2f["mv_draws"]],
                                    "propagate_rgen_calls": [len(j.get("prop_log", [])) for j in (job1, job2, job2f)],
                                    "seeds_handed_on": [[str(x) for x in j["seeds_given"]] + (
                                        [str(j["lmp"].get("seed"))] if eng == "lammps" and do_prop else [])
                                        for j in (job1, job2, job2f)],
                                    "job2_equals_fresh": not diffs, "A_untouched_in_job2": _gen_state(gen_a) == a_state,
                                    "path_len": job2["path_len"], "error": job2["prop_err"]})
        ctx.extra["c07_engine_streams"] = results[:40]
        _assume(ctx, [
            "C07 engine half: GROMACS's own gen_vel (gen_seed = -1, chosen by gmx) and seeds inside user-supplied MD "
            "templates (ld_seed, cp2k thermostat seeds) are outside the property by its own words; CP2K/GROMACS "
            "propagation is an external program without in-process draws",
        ])
    finally:
        os.chdir(cwd)
        shutil.rmtree(work, ignore_errors=True)
    return results


def run(ctx):
    mods = _imports()
    work = Path(tempfile.mkdtemp(prefix="c16-", dir="/var/tmp"))
    cwd = os.getcwd()
    ctx.rule = ("per engine × temperature × atom count × zero_momentum ∈ {absent, False, True}: random dyadic "
                "positions/old velocities/box, masses from a pool or random, scripted standard normals; plus "
                "zero-old-velocity and zero-draw cases and seeded random (engine, n ≤ 8, T) cases; chains of 4–6 consecutive "
                "regenerations on one engine object and one System per engine × zero_momentum. "
                "Non-trivial = non-zero draw; distinct by (engine, T, n, zm, masses, z).")
    try:
        os.chdir(work)
        # corpus first: witnesses of the findings, boundary cases
        import json
        from common import CORPUS
        corpus = []
        for f in sorted((CORPUS / "C16").glob("*.json")):
            c = json.loads(f.read_text()).get("replay", {}).get("case")
            if c is not None:
                c["kind"] = "corpus:" + f.stem
                corpus.append(c)
        cases = corpus + cases_for(ctx)
        seen_variants = {"kin": set(), "rng": set()}
        for k, case in enumerate(cases):
            with_prepare = (k % 3 == 0) or not ctx.quick
            try:
                obs, obs_prep, failed = do_case(ctx, mods, work, case, with_prepare)
            except Exception as ex:  # noqa: BLE001  (never let a harness exception hide failures of other cases)
                import traceback
                ctx.disagree({"fn": "harness exception", "case": {kk: v for kk, v in case.items() if not kk.startswith("_")}},
                             type(ex).__name__ + ": " + str(ex)[:300], traceback.format_exc()[-600:])
                continue
            eng = case["engine"]
            zm_on = case["zm"] if case["zm"] is not None else (eng == "cp2k")
            ctx.count(1 + (1 if with_prepare else 0), engine=eng)
            ctx.hit(f"zm={case['zm']}")
            ctx.hit(f"kind={case['kind']}")
            ctx.hit(f"mass_dtype={case.get('mass_dtype', 'float')}")
            if not obs.get("err"):
                ctx.hit("dek=inf" if math.isinf(obs["dek"]) else "dek=finite")
            if case["kind"] != "zero-draw":
                ctx.distinct((eng, case["T"], case["n"], case["zm"], tuple(masses_as_given(case)),
                              tuple(map(tuple, case["z"]))))
            if eng == "ase" and not obs.get("err") and obs["log"]:
                seen_variants["rng"].add("asIs" if obs["log"][0]["stream"] == "global" else "repaired")
                if zm_on and case["kind"] != "zero-draw" and case["n"] > 1 and "_variants_ok" in case:
                    seen_variants["kin"].update(case["_variants_ok"] if len(case["_variants_ok"]) == 1 else [])
            if with_prepare and obs_prep and not obs_prep.get("err") and ctx._driver_ok and k % 9 == 0:
                shoot_fields(ctx, obs_prep, case)
            if k % 97 == 0:
                ctx.sample({"engine": eng, "T": case["T"], "n": case["n"], "zm": case["zm"], "kind": case["kind"],
                            "dek": None if obs.get("err") else repr(obs["dek"]),
                            "kin_new": None if obs.get("err") else obs["kin_new"],
                            "request": None if obs.get("err") or not obs["log"] else
                            [obs["log"][0]["stream"], obs["log"][0]["method"]]})
        # engines sharing one settings dict; long-lived engine objects; argument/guard checks
        for fn in (run_shared_settings, run_long_lived, sigma_argument_check, gromacs_own_genvel_guard):
            try:
                fn(ctx, mods, work)
            except Exception as ex:  # noqa: BLE001  (a harness exception must not hide concrete failures elsewhere)
                import traceback
                ctx.disagree({"fn": f"harness exception in {fn.__name__}"}, type(ex).__name__ + ": " + str(ex)[:300],
                             traceback.format_exc()[-600:])
        # settings routing: the real shoot / wire_fencing / zero swaps / select_shoot, what they hand to modify_velocities
        try:
            import sys as _sys
            from props import c16_routes
            c16_routes.run_routes(ctx, _sys.modules[__name__], mods, work)
            _assume(ctx, c16_routes.ASSUMPTIONS)
            from props import c16_flow
            c16_flow.run_flow(ctx, _sys.modules[__name__], mods, work)
            _assume(ctx, c16_flow.ASSUMPTIONS)
            from props import c16_extra
            c16_extra.run_extra(ctx, _sys.modules[__name__], mods, work)
            _assume(ctx, c16_extra.ASSUMPTIONS)
        except Exception as ex:  # noqa: BLE001
            import traceback
            ctx.disagree({"fn": "harness exception in run_routes"}, type(ex).__name__ + ": " + str(ex)[:300],
                         traceback.format_exc()[-600:])
        # chained regenerations (repeated kicks) on one engine object and one System
        for c in chain_cases(ctx):
            try:
                run_chain(ctx, mods, work, c)
            except Exception as ex:  # noqa: BLE001
                ctx.disagree({"fn": "harness exception in run_chain", "case": c}, type(ex).__name__ + ": " + str(ex)[:300], "")
                continue
            ctx.count(len(c["chain_z"]), branch="chain")
            ctx.hit(f"chain_len={len(c['chain_z'])}")
        for spot, vs in seen_variants.items():
            if len(vs) > 1:
                ctx.disagree({"fn": f"ase variant spot {spot}"}, sorted(vs), "one variant consistently")
        ctx.extra["ase_variants_observed"] = {k: sorted(v) for k, v in seen_variants.items()}
        ctx.extra.pop("_reported", None)
        # reproducibility from the engine's stream with real generators
        for eng in ENGINES:
            for zm in (False, True):
                c = gen_case(ctx.rng, eng, 3, 300, zm, "plain")
                reproducibility(ctx, mods, work, c)
                ctx.count(1, branch="reproducibility")
        if not ctx.quick:
            moment_check(ctx, mods, work)
            try:
                from props import c16_routes as _r
                import sys as _sys
                _r.projected_moment_check(ctx, _sys.modules[__name__], mods, work)
            except Exception as ex:  # noqa: BLE001  (supporting evidence only)
                ctx.extra["projected_moment_check_supporting_evidence"] = {"error": type(ex).__name__ + ": " + str(ex)[:200]}
        os.chdir(cwd)
        run_c07_engine_streams(ctx)
        ctx.exhaustive = False
        _assume(ctx, [
            "object state is tie-only (the model is functional): one long-lived engine object over sequences of "
            "different frames/settings (same file name rewritten, ASE also other atom counts/masses), two engine "
            "objects of one class alive at once (different T, masses), chains on one System, and one settings dict "
            "through several engines are each compared with a fresh object's result and with the model value of the "
            "current input",
            "the only settings key the five engines read is `zero_momentum` (grep `vel_settings.get(`); its value is "
            "judged by Python truthiness (0, 0.0, '', None, [] → off; 1, 'no' → on) — the tie maps it to the model's "
            "Option Bool that way; AMS (needs scm.plams) is not among the five engines of the property; LAMMPS "
            "supports only `real` units (hard-coded scale/kb); LAMMPS frames with a single atom cannot be read by "
            "the engine at all (genfromtxt returns a 1-D array), so its atom counts start at 2",
            "input purity is tie-only: the model is functional (settings are an argument, `zeroMomentumFlag` = the "
            "entry if present else the engine's own default: CP2K true, all others false — theorem "
            "zero_momentum_flag_rule); that modify_velocities leaves the settings dict and the System's other fields "
            "as handed in, and that results do not depend on which engines saw the dict before, is checked by the tie "
            "(deep compare before/after; sequences of engines on one shared dict vs a fresh copy)",
            "sqrt and the Gaussian sampler are outside the model: numpy's normal(loc, scale, size) is taken to return "
            "loc + scale·z with z standard normal; the tie feeds fixed z and checks the request parameters",
            "source numbers have ≤ 4 decimals so the engines' text formats (15.9f / 9.4f / repr) hold them exactly; "
            "written velocities are compared to 6e-10 absolute (9-decimal formats) + 1e-9 relative",
            "CODATA-2018 values for E_h and m_e/u (measured constants), SI-2019 exact values for k_B, N_A, e, cal = 4.184 J",
            "GROMACS's own gen_vel path (needs gmx) and the MD programs themselves are out of scope; masses > 0",
            "the model is over Rat: the code must not depend on the numeric dtype of the mass array — the tie feeds "
            "float, Python-int and numpy-int64 mass lists to the engines whose masses come from the user's toml "
            "(GROMACS infretis_genvel, TurtleMD); CP2K/LAMMPS/ASE masses are read from files as floats",
            "engines are constructed offline as in test/engines/test_velocity_functions.py (gmx = 'echo')",
        ])
    finally:
        os.chdir(cwd)
        shutil.rmtree(work, ignore_errors=True)


def replay(ctx, obj):
    """re-run one recorded failing input on the current implementation; 1 if it still fails"""
    mods = _imports()
    r = obj.get("replay", {})
    if r.get("check") in ("helper", "gmass", "cp2k-temperature"):
        import sys as _sys
        from props import c16_routes
        return c16_routes.replay_helper(ctx, _sys.modules[__name__], mods, r, obj)
    if r.get("check") in ("lmass", "turtle-dim"):
        import sys as _sys
        from props import c16_extra
        work = Path(tempfile.mkdtemp(prefix="c16-replay-", dir="/var/tmp"))
        cwd = os.getcwd()
        try:
            os.chdir(work)
            return c16_extra.replay_extra(ctx, _sys.modules[__name__], mods, work, r, obj)
        finally:
            os.chdir(cwd)
            shutil.rmtree(work, ignore_errors=True)
    if r.get("check") in ("route", "flow"):
        import sys as _sys
        from props import c16_flow, c16_routes
        work = Path(tempfile.mkdtemp(prefix="c16-replay-", dir="/var/tmp"))
        cwd = os.getcwd()
        try:
            os.chdir(work)
            if r.get("check") == "flow":
                return c16_flow.replay_flow(ctx, _sys.modules[__name__], mods, work, r, obj)
            return c16_routes.replay_route(ctx, _sys.modules[__name__], mods, work, r, obj)
        finally:
            os.chdir(cwd)
            shutil.rmtree(work, ignore_errors=True)
    case = r.get("case")
    if case is None:
        print("replay file holds no concrete case:", obj.get("kind"))
        return 1
    case = _copy.deepcopy(case)
    case.pop("_variants_ok", None)
    work = Path(tempfile.mkdtemp(prefix="c16-replay-", dir="/var/tmp"))
    cwd = os.getcwd()
    try:
        os.chdir(work)
        saved = (ctx._driver_ok, ctx._findings)
        ctx._driver_ok = False
        ctx._findings = []          # evaluate against the property itself, known or not
        if r.get("check") == "reproducibility":
            ok = reproducibility(ctx, mods, work, case)
            print("same rgen state ⇒ same velocities:", ok)
            return 0 if ok else 1
        if r.get("check") == "shared-settings":
            shared = _copy.deepcopy(r["original_settings"])
            for eng in r["order"][: r["position"]]:      # replay the call history on the shared dict
                c0 = gen_case(ctx.rng, eng, 2, 300, case["zm"], "shared-settings")
                run_case(mods, work, c0, shared_vs=shared)
            obs = run_case(mods, work, case, shared_vs=shared)
            fresh = run_case(mods, work, case, shared_vs=_copy.deepcopy(r["original_settings"]))
            same = (not obs.get("err") and not fresh.get("err") and np.array_equal(obs["genvel"]["vel"], fresh["genvel"]["vel"])
                    and obs["kin_new"] == fresh["kin_new"] and obs["dek"] == fresh["dek"])
            print("result independent of the call history:", same)
            return 0 if same else 1
        if "chain_z" in case:
            failed = run_chain(ctx, mods, work, case)
        else:
            obs, obs_prep, failed = do_case(ctx, mods, work, case, True)
        print("signatures failing now:", sorted(set(failed)), "| recorded:", obj.get("signature"))
        return 1 if obj.get("signature") in failed or (failed and obj.get("signature") is None) else 0
    finally:
        if "saved" in locals():
            ctx._driver_ok, ctx._findings = saved
        os.chdir(cwd)
        shutil.rmtree(work, ignore_errors=True)
