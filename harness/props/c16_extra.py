"""C16, follow-up of the independent audit (model `Infretis/Model/VelExtra.lean`).

1. LAMMPS `get_atom_masses`: data files with the rows of the `Masses` section and of the `Atoms` section in ANY order,
   both atom styles, types without atoms, atom ids with gaps; malformed files (unsupported style, missing header
   line, missing section, a type without row / listed twice, an atom of an undeclared type, more atoms announced
   than listed) — real function vs `drv_c16 lmass` (value or error kind), and the property predicate itself:
   every atom (in id order) has the mass listed for ITS type.
2. TurtleMD with `dim` < 3 (the shipped 1-D `double_well`, a 2-D pair well): `kin_new` must be the kinetic energy over
   the engine's `dim` components.  The code as it is sums all three (OPEN finding
   `C16:turtlemd:dim-lt-3:kinetic-energy-counts-unused-components`): reported with exactly that signature when the
   code behaves like the model's `asIs`; silent when it behaves like `repaired`; anything else is a disagreement.
3. shapes: engine mass vector of length k against a frame of n atoms (GROMACS `masses=[…]`, CP2K, TurtleMD): k ∉ {1, n}
   → ValueError (model `err:shape`); k = 1 → numpy's silent broadcast, compared with `modifyNumpyB` (observation:
   the momentum "reset" does not remove the momentum there).
4. `engine.rgen` missing: ValueError for the four numpy engines, silent global draw for ASE (model `mods 0 …`).
5. ASE frames with `FixAtoms`: observed class (fixed atoms get velocity 0, momentum is not reset) — counted, no alarm.
"""
from __future__ import annotations

import contextlib
import copy as _copy
import io
import json
import math
import shutil
from fractions import Fraction
from pathlib import Path

import numpy as np

from common import err_kind, frac_token, lst

SIG_LMASS = "C16:lammps:masses-section-not-sorted"
SIG_DIM = "C16:turtlemd:dim-lt-3:kinetic-energy-counts-unused-components"

ASSUMPTIONS = [
    "ASE frames carry no constraints; with FixAtoms the fixed atoms get velocity 0 and total momentum is not reset to 0 "
    "(ase applies the constraints stored in the frame inside set_momenta; a constrained atom is not a degree of "
    "freedom) — such frames are an observed, counted class of the tie, not judged",
    "LAMMPS get_atom_masses is modelled after `np.genfromtxt` has cut the text into numbers (header counts, rows of "
    "the Masses and Atoms sections); atom ids are distinct; a section shorter than its header announces is only "
    "exercised for the Atoms section at the end of the file; a one-atom file raises IndexError while reading "
    "(1-D genfromtxt result) — mirrored when both header counts are present",
    "shapes: GROMACS / CP2K / TurtleMD hold a mass vector of their own (user list, initial.xyz, toml particles); a frame "
    "with another atom count raises numpy's broadcast ValueError, EXCEPT a length-1 mass vector, which numpy "
    "broadcasts silently over all atoms (then `reset_momentum` divides by the single mass and does not remove the "
    "momentum — model `VelExtra.modifyNumpyB`, theorem length_one_broadcast_counterexample; candidate hardening of "
    "/repo, not judged).  The statements about `Vel.modifyVelocities` hold for the real code on the domain "
    "`len(mass) == atoms in the frame` (theorem modifyVelocitiesS_consistent).  One-atom frames against k > 1 masses "
    "raise only with a real numpy Generator (the scripted one broadcasts) and are not generated.  LAMMPS reads "
    "`n_atoms` rows of the frame (its own count), so its arrays always agree; ASE takes the masses from the frame",
    "engine.rgen is set (select_shoot does that for every engine of a job): without it GROMACS / CP2K / LAMMPS / "
    "TurtleMD raise ValueError('Did not find random generator!!') and ASE silently draws from numpy's GLOBAL state "
    "(`rng=getattr(self, 'rgen', None)`) — model `modifyVelocitiesS hasRgen := false`, theorem no_rgen_behaviour; "
    "compared, not judged",
    "TurtleMD `dim` = dimensionality of the engine's potential; frames are xyz files with three components whatever "
    "`dim`; the propagation overwrites only the first `dim` velocity components of the arrays it read, so frames of "
    "a path keep the unused components of the configuration they started from (zeros for initial / loaded paths, "
    "the last regeneration's draw afterwards)",
    "precision of real engine output: CP2K writes its own trajectories with 10 decimals (F20.10) and no `Box:` "
    "comment — the regeneration rewrites positions with 9 decimals (|Δx| ≤ 5e-10 Å) and substitutes the template "
    "box of cp2k.inp; velocities in atomic units are cut to 9 decimals (≈ 2e-4 relative for U at 1 K); the "
    "`positions-changed` predicate is evaluated on sources with ≤ 4 decimals only",
    "CP2K masses are PERIODIC_TABLE[element name] × 1822.888…: a `&KIND … MASS` override in cp2k.inp (isotopes) and "
    "kind names that are not element symbols are not seen by the engine (the latter: ValueError); GROMACS `masses` is "
    "a list (tied with float / int / int64 entries) or the name of a one-column text file read by np.genfromtxt "
    "(tied: file form compared with the list form); any other type leaves `self.masses` unset",
]


def _mute():
    return contextlib.redirect_stdout(io.StringIO())


# ---------------------------------------------------------------------------------------------- 1. LAMMPS masses
def gen_lmass_case(rng, kind="ok"):
    n = rng.randint(2, 6)
    nt = rng.randint(1, 4)
    style = rng.choice(("full", "charge"))
    type_mass = {t: rng.choice((1.008, 12.011, 15.999, 35.45, 2.0, 196.97, 4.0)) + (0.25 * t if rng.random() < 0.3 else 0.0)
                 for t in range(1, nt + 1)}
    ids = list(range(1, n + 1))
    if rng.random() < 0.3:                      # ids with gaps
        ids = sorted(rng.sample(range(1, 4 * n), n))
    atoms = [{"id": i, "type": rng.randint(1, nt)} for i in ids]
    mass_rows = [[t, type_mass[t]] for t in range(1, nt + 1)]
    c = {"kind": kind, "style": style, "n_atoms": n, "n_types": nt, "mass_rows": mass_rows, "atoms": atoms,
         "header_atoms": True, "header_types": True, "masses_section": True, "atoms_section": True}
    if kind in ("ok", "ok-shuffled"):
        if kind == "ok-shuffled" or rng.random() < 0.7:
            rng.shuffle(c["mass_rows"])
        if rng.random() < 0.7:
            rng.shuffle(c["atoms"])
    elif kind == "reversed-masses":
        if nt == 1:
            c["n_types"] = nt = 2
            c["mass_rows"] = [[1, 1.008], [2, 15.999]]
            c["atoms"][0]["type"] = 2
        c["mass_rows"] = c["mass_rows"][::-1]
        for k, a in enumerate(c["atoms"]):      # make sure two types with different masses are in use
            a["type"] = 1 + k % nt
    elif kind == "style-other":
        c["style"] = rng.choice(("atomic", "molecular", ""))
    elif kind == "no-atoms-header":
        c["header_atoms"] = False
    elif kind == "no-types-header":
        c["header_types"] = False
    elif kind == "no-atoms-section":
        c["atoms_section"] = False
    elif kind == "no-masses-section":
        c["masses_section"] = False
    elif kind == "missing-type":                # as many rows as types, but one id is not among 1..nt
        t = rng.randint(1, nt)
        for r in c["mass_rows"]:
            if r[0] == t:
                r[0] = nt + rng.randint(1, 3)
        rng.shuffle(c["mass_rows"])
    elif kind == "duplicate-type":
        if nt == 1:
            c["n_types"] = nt = 2
            c["mass_rows"] = [[1, 1.008], [2, 15.999]]
        c["mass_rows"][1][0] = c["mass_rows"][0][0]
        rng.shuffle(c["mass_rows"])
    elif kind == "undeclared-atom-type":        # silently mass 0
        c["atoms"][rng.randrange(n)]["type"] = nt + 1
        rng.shuffle(c["mass_rows"])
    elif kind == "more-atoms-announced":
        c["n_atoms"] = n + rng.randint(1, 2)
        rng.shuffle(c["atoms"])
    elif kind == "one-atom":
        c["n_atoms"] = 1
        c["atoms"] = c["atoms"][:1]
    else:
        raise ValueError(kind)
    return c


def write_lammps_data(c, path: Path):
    L = ["LAMMPS data file (c16)", ""]
    if c["header_atoms"]:
        L.append(f"{c['n_atoms']} atoms")
    L += ["0 bonds", ""]
    if c["header_types"]:
        L.append(f"{c['n_types']} atom types")
    L += ["", "0 30 xlo xhi", "0 30 ylo yhi", "0 30 zlo zhi", ""]
    if c["masses_section"]:
        L += ["Masses", ""] + [f"{int(t)} {m!r}" for t, m in c["mass_rows"]] + [""]
    if c["atoms_section"]:
        L += ["Atoms", ""]
        for a in c["atoms"]:
            if c["style"] == "charge":
                L.append(f"{a['id']} {a['type']} 0.0 {a['id']}.0 0.0 0.0")
            else:
                L.append(f"{a['id']} 1 {a['type']} 0.0 {a['id']}.0 0.0 0.0")
    path.write_text("\n".join(L) + "\n")


def lmass_rows(c):
    """the Atoms rows as np.genfromtxt delivers them"""
    if c["style"] == "charge":
        return [[a["id"], a["type"], 0.0, float(a["id"]), 0.0, 0.0] for a in c["atoms"]]
    return [[a["id"], 1, a["type"], 0.0, float(a["id"]), 0.0, 0.0] for a in c["atoms"]]


def lmass_model_line(c, variant):
    style = c["style"] if c["style"] in ("full", "charge") else "other"
    na = c["n_atoms"] if c["header_atoms"] else 0
    nt = c["n_types"] if c["header_types"] else 0
    mr = "-" if not c["masses_section"] else lst([x for r in c["mass_rows"] for x in r], frac_token)
    if not c["atoms_section"]:
        at = "-"
    else:
        rows = lmass_rows(c)
        at = " ".join([str(len(rows)), str(len(rows[0]))] + [frac_token(x) for r in rows for x in r])
    return f"lmass {variant} {style} {na} {nt} {mr} {at}"


def run_lmass_real(mods, c, path):
    from infretis.classes.engines.lammps import get_atom_masses
    write_lammps_data(c, path)
    import warnings
    try:
        with warnings.catch_warnings():
            warnings.simplefilter("ignore")
            m = get_atom_masses(str(path), c["style"])
        return {"masses": [float(x) for x in np.array(m).flatten()], "shape": tuple(np.array(m).shape), "err": None}
    except NotImplementedError:
        return {"err": "err:notimplemented"}
    except ValueError:
        return {"err": "err:value"}
    except IndexError:
        return {"err": "err:index"}
    except Exception as ex:  # noqa: BLE001
        return {"err": "err:" + err_kind(ex)}


def lmass_expected(c):
    """the property: in id order, every atom has the mass listed for its type (well-formed files only)"""
    tm = {int(t): m for t, m in c["mass_rows"]}
    return [tm[a["type"]] for a in sorted(c["atoms"], key=lambda a: a["id"])]


def judge_lmass(c, obs):
    """→ list of (signature, what) for a well-formed file"""
    if obs["err"]:
        return [("C16:lammps:get_atom_masses-raises", f"get_atom_masses raised {obs['err']} on a well-formed data file")]
    want = lmass_expected(c)
    if obs["shape"] != (c["n_atoms"], 1):
        return [("C16:lammps:atom-mass-wrong", f"mass array has shape {obs['shape']}, {c['n_atoms']} atoms")]
    if obs["masses"] != want:
        unsorted = [int(t) for t, _ in c["mass_rows"]] != sorted(int(t) for t, _ in c["mass_rows"])
        sig = SIG_LMASS if unsorted else "C16:lammps:atom-mass-wrong"
        return [(sig, f"Masses rows {c['mass_rows']}, atoms (id, type) "
                      f"{[(a['id'], a['type']) for a in c['atoms']]} ({c['style']}): engine masses in id order "
                      f"{obs['masses']}, the masses listed for the atoms' types are {want}: velocities would be drawn "
                      "with k_B*T/m for the wrong m")]
    return []


LMASS_MALFORMED = ("style-other", "no-atoms-header", "no-types-header", "no-atoms-section", "no-masses-section",
                   "missing-type", "duplicate-type", "undeclared-atom-type", "more-atoms-announced", "one-atom")


def lmass_one(ctx, c16, mods, work, c):
    path = work / "lmass.data"
    obs = run_lmass_real(mods, c, path)
    failed = []
    wellformed = c["kind"] in ("ok", "ok-shuffled", "reversed-masses", "corpus")
    if wellformed:
        for sig, what in judge_lmass(c, obs):
            failed.append(sig)
            c16._report(ctx, sig, what, {"check": "lmass", "lammps_data": c})
    if ctx._driver_ok:
        ans = ctx.driver([lmass_model_line(c, "repaired"), lmass_model_line(c, "asIs")])
        got = obs["err"] if obs["err"] else obs["masses"]

        def val(a):
            return a if a.startswith("err") else [float(Fraction(t)) for t in a.split()[1:]]
        if got != val(ans[0]):
            # the code before 76f2ebe (the `asIs` record) is told apart from an unrelated difference
            note = "behaves like the asIs (positional lookup) variant" if got == val(ans[1]) else ""
            ctx.disagree({"fn": "get_atom_masses", "case": c}, got, ans[0], note)
    return obs, failed


def run_lmass(ctx, c16, mods, work):
    rng = ctx.rng
    cases = []
    from common import CORPUS
    for f in sorted((CORPUS / "C16").glob("*.json")):
        r = json.loads(f.read_text()).get("replay", {})
        if r.get("check") == "lmass":
            cc = _copy.deepcopy(r["lammps_data"])
            cc["kind"] = "corpus"
            cases.append(cc)
    reps = 6 if ctx.quick else 60
    for _ in range(reps):
        cases.append(gen_lmass_case(rng, "ok"))
        cases.append(gen_lmass_case(rng, "ok-shuffled"))
    for _ in range(2 if ctx.quick else 10):
        cases.append(gen_lmass_case(rng, "reversed-masses"))
        for k in LMASS_MALFORMED:
            cases.append(gen_lmass_case(rng, k))
    for c in cases:
        obs, _failed = lmass_one(ctx, c16, mods, work, c)
        ctx.count(1, branch="lmass:" + c["kind"])
        ctx.hit("lmass_outcome=" + (obs["err"] or "ok"))
        if not obs["err"]:
            ctx.distinct(("lmass", c["style"], tuple(map(tuple, c["mass_rows"])),
                          tuple((a["id"], a["type"]) for a in c["atoms"])))
    # the engine constructor hands exactly this vector to modify_velocities
    c = gen_lmass_case(rng, "reversed-masses")
    c["style"] = "full"
    d = work / "in_lammps_lm"
    if d.exists():
        shutil.rmtree(d)
    d.mkdir()
    shutil.copy(c16.EX / "lammps/H2/lammps_input/lammps.input", d / "lammps.input")
    write_lammps_data(c, d / "lammps.data")
    with _mute():
        e = mods["LAMMPSEngine"]("lmp_mpi", d.resolve(), 0, 0, 300)
    got = [float(x) for x in e.mass.flatten()]
    if got != lmass_expected(c) or e.n_atoms != c["n_atoms"]:
        c16._report(ctx, SIG_LMASS, f"LAMMPSEngine.mass {got} ≠ masses of the atoms' types {lmass_expected(c)}",
                    {"check": "lmass", "lammps_data": c})
    ctx.count(1, branch="lmass:engine-constructor")


# ---------------------------------------------------------------------------------------------- 2. TurtleMD dim < 3
def turtle_cfg(dim, masses, T=300, kb=0.0083144621):
    import tomli
    cfg = tomli.loads((Path("/repo/examples/turtlemd/double_well") / "infretis.toml").read_text())
    n = len(masses)
    eng = cfg["engine"]
    eng["temperature"] = T
    eng["boltzmann"] = kb
    if dim == 1:
        eng["particles"] = {"mass": list(masses), "name": ["Z"] * n, "pos": [[-1.0 + 0.5 * i] for i in range(n)]}
        eng["box"] = {"periodic": [False]}
    else:
        eng["potential"] = {"class": "doublewellpair", "settings": {"parameters": {"rzero": 1.0, "height": 6.0, "width": 0.25}}}
        eng["box"] = {"periodic": [False, False]}
        eng["particles"] = {"mass": list(masses), "name": ["Z"] * n, "pos": [[0.5 * i, 0.0] for i in range(n)]}
    return cfg


def gen_dim_case(c16, rng, dim, n, zm, unused):
    case = c16.gen_case(rng, "turtlemd", n, 300, zm, "dim-lt-3")
    case.pop("mass_dtype", None)
    case["masses"] = [rng.choice((1.0, 2.0, 4.0, 0.5)) for _ in range(n)]
    case["names"] = ["Z"] * n
    case["dim"] = dim
    case["unused"] = unused
    if unused == "zeros":                       # frames of an initial / loaded path
        for v in case["vel"]:
            for j in range(dim, 3):
                v[j] = 0.0
        for p in case["pos"]:
            for j in range(dim, 3):
                p[j] = 0.0
    if all(all(x == 0.0 for x in v[:dim]) for v in case["vel"]):
        case["vel"][0][0] = 0.5
    return case


def run_dim_real(c16, mods, work, case):
    with _mute():
        e = mods["create_engine"](turtle_cfg(case["dim"], case["masses"], case["T"], c16.TURTLE_KB))
    e = c16._finish_engine(e, work, "turtlemd", "dim")
    src = work / "src_turtle_dim.xyz"
    c16.write_source(case, src)
    gen = c16.ScriptedGen(np.array(case["z"], dtype=float))
    e.rgen = gen
    s = mods["System"]()
    s.set_pos((str(src), case["idx"]))
    s.ekin = case["sys_ekin"]
    vs = c16.make_settings(case)
    obs = {"err": None, "engine_dim": int(e.dim), "beta": float(e.beta),
           "engine_mass": [float(x) for x in np.array(e.mass).flatten()]}
    try:
        dek, kin_new = e.modify_velocities(s, vs)
    except Exception as ex:  # noqa: BLE001
        obs["err"] = err_kind(ex) + ":" + str(ex)[:200]
        return obs
    obs["dek"], obs["kin_new"], obs["log"] = float(dek), float(kin_new), gen.log
    obs["genvel"] = c16.parse_frame("turtlemd", s.config[0], case["n"])
    obs["sys_ekin_after"] = s.ekin
    return obs


def dim_energies(case, obs):
    d = case["dim"]
    m = np.array(case["masses"], dtype=float).reshape(-1, 1)
    v = obs["genvel"]["vel"]
    old = np.array(case["vel"], dtype=float)
    return {"new_dim": 0.5 * float((m * v[:, :d] ** 2).sum()), "new_all": 0.5 * float((m * v * v).sum()),
            "old_dim": 0.5 * float((m * old[:, :d] ** 2).sum()), "old_all": 0.5 * float((m * old * old).sum())}


def judge_dim(case, obs):
    """→ (signatures failing, what).  The property: kin_new / dek are about the engine's `dim` components."""
    if obs["err"]:
        return ["C16:turtlemd:raises"], f"modify_velocities raised {obs['err']}"
    en = dim_energies(case, obs)
    tol = 1e-9 * (abs(en["new_all"]) + abs(en["old_all"])) + 1e-8
    want_dek = math.inf if en["old_dim"] == 0.0 else en["new_dim"] - en["old_dim"]
    kin_ok = abs(obs["kin_new"] - en["new_dim"]) <= tol
    dek_ok = (math.isinf(want_dek) and math.isinf(obs["dek"])) or (
        not math.isinf(want_dek) and not math.isinf(obs["dek"]) and abs(obs["dek"] - want_dek) <= tol)
    if kin_ok and dek_ok:
        return [], ""
    as_is_dek = math.inf if en["old_all"] == 0.0 else en["new_all"] - en["old_all"]
    like_as_is = abs(obs["kin_new"] - en["new_all"]) <= tol and (
        (math.isinf(as_is_dek) and math.isinf(obs["dek"])) or
        (not math.isinf(as_is_dek) and not math.isinf(obs["dek"]) and abs(obs["dek"] - as_is_dek) <= tol))
    what = (f"TurtleMD dim={case['dim']}, {case['n']} particle(s): kin_new {obs['kin_new']!r}, dek {obs['dek']!r}; over the "
            f"engine's {case['dim']} component(s) the written velocities carry {en['new_dim']!r} and the change is "
            f"{want_dek!r}; over all three components {en['new_all']!r}")
    return [SIG_DIM if like_as_is else "C16:turtlemd:dim-lt-3:kin-new-inconsistent"], what


def compare_dim_model(c16, case, obs, mo):
    """code vs one variant of `modifyTurtleD`: request, mass, beta, kin_new, dek, the first `dim` written components
    (the others: the model's value or 0)"""
    probs = []
    log = obs["log"]
    if len(log) != 1:
        return [f"{len(log)} requests"]
    l = log[0]
    if l["method"] != mo["method"] or l["size"] != (mo["npart"], mo["dim"]) or l["stream"] != mo["stream"]:
        probs.append(f"request {l['method']} {l['size']} {l['stream']}")
    sc = np.array(l["scale"], dtype=float).flatten()
    if len(sc) != len(mo["scaleSq"]) or any(not c16.close(Fraction(float(a)) ** 2, b, 1e-12) for a, b in zip(sc, mo["scaleSq"])):
        probs.append("scale²")
    if not c16.close(obs["beta"], mo["beta"], 1e-14):
        probs.append("beta")
    ks = max(abs(float(mo["kinNew"])), abs(float(mo["kinOld"] or 0)), 1e-6)
    if not c16.close(obs["kin_new"], mo["kinNew"], 1e-9, 1e-8 * ks):
        probs.append(f"kin_new {obs['kin_new']} vs {float(mo['kinNew'])}")
    if not c16.close(obs["dek"], mo["dek"], 1e-9, 1e-8 * ks):
        probs.append(f"dek {obs['dek']} vs {float(mo['dek'])}")
    mv = np.array([[float(x) for x in col] for col in mo["vel"]]).T
    gv = obs["genvel"]["vel"]
    d = case["dim"]
    if gv.shape != mv.shape or np.any(np.abs(gv[:, :d] - mv[:, :d]) > 6e-10 + 1e-9 * np.abs(mv[:, :d])):
        probs.append("velocities (first dim components)")
    elif np.any((np.abs(gv[:, d:] - mv[:, d:]) > 6e-10 + 1e-9 * np.abs(mv[:, d:])) & (np.abs(gv[:, d:]) > 6e-10)):
        probs.append("velocities (unused components: neither the draw nor 0)")
    return probs


def dim_one(ctx, c16, mods, work, case):
    obs = run_dim_real(c16, mods, work, case)
    sigs, what = judge_dim(case, obs)
    rep = {"check": "turtle-dim", "tcase": {k: v for k, v in case.items() if not k.startswith("_")}}
    for sig in sigs:
        c16._report(ctx, sig, what, rep)
    if not obs["err"] and obs["engine_dim"] != case["dim"]:
        ctx.disagree({"fn": "TurtleMDEngine.dim", "case": case}, obs["engine_dim"], case["dim"])
    variant = None
    if ctx._driver_ok and not obs["err"] and len(obs["log"]) == 1:
        sig = np.broadcast_to(np.array(obs["log"][0]["scale"], dtype=float), (case["n"], 1)).flatten()
        base = c16.model_line(case, sig, "asIs", "asIs", c16.id_tokens(case))[len("mod "):]
        ans = ctx.driver([f"modt asIs {case['dim']} {base}", f"modt repaired {case['dim']} {base}"])
        res = {v: compare_dim_model(c16, case, obs, c16.parse_model(a)) for v, a in zip(("asIs", "repaired"), ans)}
        ok = [v for v, p in res.items() if not p]
        if not ok:
            ctx.disagree({"fn": "turtlemd.modify_velocities dim<3", "case": case},
                         {k: obs[k] for k in ("kin_new", "dek")}, res)
        else:
            variant = ok[0] if len(ok) == 1 else "both"
    return obs, sigs, variant


def run_turtle_dim(ctx, c16, mods, work):
    rng = ctx.rng
    seen = set()
    for dim in (1, 2):
        for n in ((1, 2) if ctx.quick else (1, 2, 3, 5)):
            for zm in (None, False, True):
                for unused in ("zeros", "stale"):
                    for _ in range(1 if ctx.quick else 4):
                        case = gen_dim_case(c16, rng, dim, n, zm, unused)
                        obs, sigs, variant = dim_one(ctx, c16, mods, work, case)
                        ctx.count(1, branch=f"turtle-dim{dim}:{unused}")
                        ctx.hit(f"turtle_dim_variant={variant}")
                        if variant in ("asIs", "repaired"):
                            seen.add(variant)
                        ctx.distinct(("tdim", dim, n, zm, unused, tuple(map(tuple, case["z"]))))
    if len(seen) > 1:
        ctx.disagree({"fn": "turtlemd dim<3 variant"}, sorted(seen), "one variant consistently")
    ctx.extra["turtle_dim_variant_observed"] = sorted(seen)


# ---------------------------------------------------------------------------------------------- 3. shapes
def run_shapes(ctx, c16, mods, work):
    rng = ctx.rng
    combos = [(1, 2), (1, 3), (2, 3), (3, 2)] + ([] if ctx.quick else [(1, 5), (2, 5), (4, 2), (3, 5)])
    for eng in ("gromacs", "cp2k", "turtlemd"):
        for k, n in combos:
            for zm in ((True,) if ctx.quick and k != 1 else (None, False, True)):
                big = c16.gen_case(rng, eng, max(k, n), 300, zm, "shape")
                big.pop("mass_dtype", None)
                if "masses" in big:
                    big["masses"] = [float(m) for m in big["masses"]]

                def trunc(c, m):
                    c = _copy.deepcopy(c)
                    c["n"] = m
                    for key in ("masses", "elements", "names", "pos", "vel", "z", "numbers"):
                        if key in c:
                            c[key] = c[key][:m]
                    return c
                case, ecase = trunc(big, n), trunc(big, k)
                if eng == "gromacs":
                    case["g96_vel_section"] = True
                try:
                    e = c16.build_engine(mods, work, ecase, tag="S")
                except Exception as ex:  # noqa: BLE001
                    ctx.disagree({"fn": "shape class: engine construction", "case": ecase}, err_kind(ex), "constructs")
                    continue
                obs = c16.run_case(mods, work, case, engine=e, tag="S")
                ctx.count(1, branch=f"shape:k={'1' if k == 1 else 'other'}")
                mcase = _copy.deepcopy(case)
                for key in ("masses", "elements"):
                    if key in mcase:
                        mcase[key] = ecase[key]
                if k == 1:
                    if obs.get("err"):
                        ctx.disagree({"fn": f"{eng}.modify_velocities length-1 mass vector", "case": case}, obs["err"],
                                     "numpy broadcasts: returns")
                        continue
                    g = obs["genvel"]
                    m1 = float(obs["engine_mass"][0])
                    mom = (m1 * g["vel"]).sum(axis=0)
                    zm_on = case["zm"] if case["zm"] is not None else (eng == "cp2k")
                    scale = float(np.abs(m1 * g["vel"]).sum()) + 1e-300
                    ctx.hit("shape:length1:momentum-" + ("not-reset" if zm_on and np.any(np.abs(mom) > 1e-6 * scale)
                                                          else ("reset" if zm_on else "not-requested")))
                    if ctx._driver_ok and len(obs["log"]) == 1:
                        sig = np.array(obs["log"][0]["scale"], dtype=float).flatten()
                        mo = c16.parse_model(ctx.driver(["mods 1 " + c16.model_line(mcase, sig, "asIs", "asIs",
                                                         c16.id_tokens(case))[len("mod "):]])[0])
                        probs = c16.compare_model(mcase, obs, mo)
                        if probs:
                            ctx.disagree({"fn": f"{eng}.modify_velocities length-1 mass vector", "case": case},
                                         {kk: obs[kk] for kk in ("dek", "kin_new")}, probs)
                else:
                    err = obs.get("err") or ""
                    got = "err:shape" if err.startswith("err:value") and "broadcast" in err else (err or "returns")
                    want = "err:shape"
                    if ctx._driver_ok:
                        want = ctx.driver(["mods 1 " + c16.model_line(mcase, [1.0] * k, "asIs", "asIs",
                                                                       c16.id_tokens(case))[len("mod "):]])[0]
                    if got != want:
                        ctx.disagree({"fn": f"{eng}.modify_velocities mass vector {k} vs frame {n}", "case": case}, got, want)
    # GROMACS `masses` as the name of a text file: same vector as the list form
    case = c16.gen_case(rng, "gromacs", 3, 300, None, "masses-file")
    case.pop("mass_dtype", None)
    e = c16.build_engine(mods, work, case, tag="F")
    d = work / "in_gromacsF"
    (d / "masses.txt").write_text("\n".join(repr(float(m)) for m in case["masses"]) + "\n")
    with _mute():
        e2 = mods["GromacsEngine"]("echo", d.resolve(), 0, 0, 300, masses="masses.txt", infretis_genvel=True)
    if e2.masses.shape != e.masses.shape or not np.array_equal(np.array(e2.masses, dtype=float), np.array(e.masses, dtype=float)):
        ctx.disagree({"fn": "GromacsEngine masses file form", "case": case}, e2.masses.tolist(), e.masses.tolist())
    ctx.count(1, branch="shape:gromacs-masses-file")


# ---------------------------------------------------------------------------------------------- 4. no rgen
def run_no_rgen(ctx, c16, mods, work):
    rng = ctx.rng
    for eng in c16.ENGINES:
        n = 3 if eng == "lammps" else 2
        case = c16.gen_case(rng, eng, n, 300, rng.choice((None, False, True)), "no-rgen")
        e = c16.build_engine(mods, work, case, tag="N")
        if hasattr(e, "rgen"):
            del e.rgen
        src = work / f"src_{eng}N.{c16.EXT[eng]}"
        c16.write_source(case, src)
        s = mods["System"]()
        s.set_pos((str(src), 0 if eng == "gromacs" else case["idx"]))
        s.ekin = case["sys_ekin"]
        log = []
        try:
            with c16.GlobalTap(np.array(case["z"], dtype=float), log):
                e.modify_velocities(s, c16.make_settings(case))
            got = "returns:" + ",".join(f"{l['stream']}:{l['method']}" for l in log)
        except ValueError as ex:
            got = "err:norgen" if "random generator" in str(ex) else "err:value:" + str(ex)[:80]
        except Exception as ex:  # noqa: BLE001
            got = err_kind(ex)
        ctx.count(1, branch="no-rgen:" + eng)
        ctx.hit("no_rgen:" + eng + ":" + got.split(":")[0] + ":" + got.split(":")[1])
        if ctx._driver_ok:
            sig = c16.ase_sigp(case) if eng == "ase" else [1.0] * n
            vk = "repaired" if eng == "ase" else "asIs"
            ans = ctx.driver(["mods 0 " + c16.model_line(case, sig, vk, vk, c16.id_tokens(case))[len("mod "):]])[0]
            want = ans if ans.startswith("err") else "returns:" + {"global": "global", "rgen": "rgen"}[ans.split()[0]] + ":" + ans.split()[1]
            if got != want:
                ctx.disagree({"fn": f"{eng}.modify_velocities without engine.rgen", "case": case}, got, want)


# ---------------------------------------------------------------------------------------------- 5. ASE constraints
def run_ase_constraints(ctx, c16, mods, work):
    from ase import Atoms
    from ase.constraints import FixAtoms
    from ase.io import read
    from ase.io.trajectory import Trajectory
    rng = ctx.rng
    for zm in (None, False, True):
        n = rng.randint(2, 5)
        case = c16.gen_case(rng, "ase", n, 300, zm, "ase-constraints")
        e = c16.build_engine(mods, work, case, tag="C")
        fixed = sorted(rng.sample(range(n), rng.randint(1, n - 1)))
        src = work / "src_aseC.traj"
        tr = Trajectory(str(src), "w")
        at = Atoms(numbers=case["numbers"], positions=case["pos"], cell=case["box"], pbc=True)
        at.set_masses(case["masses"])
        at.set_velocities(case["vel"])
        at.set_constraint(FixAtoms(indices=fixed))
        tr.write(at)
        tr.close()
        gen = c16.ScriptedGen(np.array(case["z"], dtype=float))
        e.rgen = gen
        s = mods["System"]()
        s.set_pos((str(src), 0))
        try:
            _dek, kin_new = e.modify_velocities(s, c16.make_settings(case))
        except Exception as ex:  # noqa: BLE001
            ctx.hit("ase_constraints:raises:" + err_kind(ex))
            ctx.count(1, branch="ase-constraints")
            continue
        out = read(s.config[0])
        v = out.get_velocities()
        p = out.get_momenta()
        zm_on = bool(zm)
        fixed_zero = bool(np.all(v[fixed] == 0.0))
        mom_zero = bool(np.all(np.abs(p.sum(axis=0)) <= 1e-9 * (np.abs(p).sum() + 1e-300)))
        ctx.count(1, branch="ase-constraints")
        ctx.hit(f"ase_constraints:fixed_atoms_velocity_zero={fixed_zero}")
        if zm_on:
            ctx.hit(f"ase_constraints:zero_momentum_requested:total_momentum_zero={mom_zero}")
        # what must hold with or without constraints
        if not np.array_equal(out.positions, np.array(case["pos"], dtype=float)) or list(out.numbers) != list(case["numbers"]):
            c16._report(ctx, "C16:ase:constrained:positions-changed", "constrained frame: positions / numbers changed",
                        {"check": "ase-constraints", "tcase": case, "fixed": fixed})
        if abs(float(kin_new) - float(out.get_kinetic_energy())) > 1e-9 * abs(float(kin_new)) + 1e-300:
            c16._report(ctx, "C16:ase:constrained:kin-new-inconsistent",
                        f"constrained frame: kin_new {kin_new!r} ≠ kinetic energy of the written frame {out.get_kinetic_energy()!r}",
                        {"check": "ase-constraints", "tcase": case, "fixed": fixed})
        if len(gen.log) != 1 or gen.log[0]["stream"] != "rgen":
            c16._report(ctx, "C16:ase:global-rng", "constrained frame: the draw did not go to engine.rgen exactly once",
                        {"check": "ase-constraints", "tcase": case, "fixed": fixed})


# ---------------------------------------------------------------------------------------------- entry points
def run_extra(ctx, c16, mods, work):
    for fn in (run_lmass, run_turtle_dim, run_shapes, run_no_rgen, run_ase_constraints):
        try:
            fn(ctx, c16, mods, work)
        except Exception as ex:  # noqa: BLE001  (a harness exception must not hide concrete failures elsewhere)
            import traceback
            ctx.disagree({"fn": f"harness exception in c16_extra.{fn.__name__}"}, type(ex).__name__ + ": " + str(ex)[:300],
                         traceback.format_exc()[-700:])


def replay_extra(ctx, c16, mods, work, r, obj):
    saved = (ctx._driver_ok, ctx._findings)
    ctx._driver_ok = False
    ctx._findings = []
    try:
        if r.get("check") == "lmass":
            c = _copy.deepcopy(r["lammps_data"])
            c.setdefault("kind", "corpus")
            obs = run_lmass_real(mods, c, work / "lmass.data")
            failed = [s for s, _ in judge_lmass(c, obs)]
            print("get_atom_masses →", obs.get("masses", obs["err"]), "| listed for the atoms' types:", lmass_expected(c))
        elif r.get("check") == "turtle-dim":
            case = _copy.deepcopy(r["tcase"])
            obs = run_dim_real(c16, mods, work, case)
            failed, what = judge_dim(case, obs)
            print(what or "kin_new / dek are over the engine's dim components")
        else:
            print("replay: unknown extra check", r.get("check"))
            return 1
        print("signatures failing now:", sorted(set(failed)), "| recorded:", obj.get("signature"))
        return 1 if obj.get("signature") in failed or (failed and obj.get("signature") is None) else 0
    finally:
        ctx._driver_ok, ctx._findings = saved
