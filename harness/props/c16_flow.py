"""C16, the FILE flow of velocity regeneration, engine by engine.

Real `prepare_shooting_point` (→ `System.copy`, `engine.modify_velocities` → `dump_frame` → `dump_config` →
`_extract_frame` / `_copyfile`, the engine's first read, `genvel.<ext>`, `calculate_order`) on a shooting point at
`(source file, index)` for every engine and every kind of reference:

  index in the file (0 and > 0, with `vel_rev` both ways) · index `None` on a single-frame file · the source already IS
  `exe_dir/conf.<ext>` · a multi-frame file with index `None` · an index that is not in the file, with and without
  a `conf.<ext>` left by an earlier call · a missing source file · GROMACS from `.trr` (frames written here in
  the TRR layout), from `.g96`, from another extension

against the Lean model `Infretis.VelFlow.prepareShootingPointE` (`drv_c16 flow`): error kind, which frame the
regeneration read, what `conf.<ext>` holds afterwards, `system.config`, `vel_rev`, source file / source System
untouched.  Property predicates (only where the reference denotes a frame: index in range, or `None` on a
single-frame file): the regenerated point has the positions / identities / box of THAT frame, the source file's
bytes and the path's System object are unchanged, the new configuration is a different file.
"""
from __future__ import annotations

import contextlib
import copy as _copy
import io
import os
import shutil
import struct
import warnings
from pathlib import Path

import numpy as np

from common import err_kind

STALE = 99


def frame_pos(case, k):
    """positions of frame k: the case's positions shifted by k/2 in x (dyadic, exact in every text format)"""
    p = np.array(case["pos"], dtype=float).copy()
    p[:, 0] += 0.5 * k
    return p


def frame_vel(case, k):
    return np.array(case["vel"], dtype=float) * (1.0 if k % 2 == 0 else -0.5)


def write_frames(c16, case, path: Path, ks, kind=None):
    """write the frames with markers `ks` to `path` in the engine's trajectory format (`kind="trr"`: GROMACS TRR)"""
    eng, n, box = case["engine"], case["n"], case["box"]
    frames = [(frame_pos(case, k), frame_vel(case, k)) for k in ks]
    if kind == "trr":
        out = b""
        bm = [box[0], 0.0, 0.0, 0.0, box[1], 0.0, 0.0, 0.0, box[2]]
        for step, (p, v) in enumerate(frames):
            sizes = [0, 0, 9 * 8, 0, 0, 0, 0, 3 * n * 8, 3 * n * 8, 0]
            out += struct.pack(">1i", 1993) + struct.pack(">2i", 13, 12) + struct.pack(">12s", b"GMX_trn_file")
            out += struct.pack(">13i", *sizes, n, step, 0) + struct.pack(">2d", step * 0.5, 0.0)
            out += struct.pack(">9d", *bm) + struct.pack(f">{3 * n}d", *p.flatten()) + struct.pack(f">{3 * n}d", *v.flatten())
        path.write_bytes(out)
        return
    if eng in ("cp2k", "turtlemd"):
        names = case["elements"] if eng == "cp2k" else case["names"]
        out = []
        for p, v in frames:
            out.append(f"{n}")
            out.append("# no box here" if box is None else "# Box: " + " ".join(f"{b:9.4f}" for b in box))
            for i in range(n):
                out.append(f"{names[i]:5s}" + "".join(f" {x:15.9f}" for x in list(p[i]) + list(v[i])))
        path.write_text("\n".join(out) + "\n")
    elif eng == "lammps":
        out = []
        for p, v in frames:
            out += ["ITEM: TIMESTEP", "0", "ITEM: NUMBER OF ATOMS", str(n), "ITEM: BOX BOUNDS pp pp pp"]
            out += [f"{lo!r} {hi!r}" for lo, hi in box]
            out.append("ITEM: ATOMS id type x y z vx vy vz")
            for i in case["file_order"]:
                out.append(f"{i + 1} {case['types'][i]} " + " ".join(repr(float(x)) for x in list(p[i]) + list(v[i])))
        path.write_text("\n".join(out) + "\n")
    elif eng == "gromacs":
        p, v = frames[0]
        pre = [c16.G96_PREFIX.format(i // 2 + 1, "RES", case["names"][i], i + 1) for i in range(n)]
        out = ["TITLE", "c16 flow frame", "END", "POSITION"]
        out += [pre[i] + "".join(f"{x:15.9f}" for x in p[i]) for i in range(n)] + ["END"]
        out += ["VELOCITY"] + [pre[i] + "".join(f"{x:15.9f}" for x in v[i]) for i in range(n)] + ["END"]
        out += ["BOX", "".join(f"{b:15.9f}" for b in box), "END"]
        path.write_text("\n".join(out) + "\n")
    elif eng == "ase":
        from ase import Atoms
        from ase.io.trajectory import Trajectory
        tr = Trajectory(str(path), "w")
        for p, v in frames:
            at = Atoms(numbers=case["numbers"], positions=p, cell=box, pbc=True)
            at.set_masses(case["masses"])
            at.set_velocities(v)
            tr.write(at)
        tr.close()


def read_markers(c16, case, path, known):
    """which frames (by marker) a file holds now; `None` if it does not exist, '?' for an unknown frame"""
    eng, n = case["engine"], case["n"]
    if not os.path.exists(path):
        return None
    poss = []
    try:
        if eng in ("cp2k", "turtlemd"):
            L = Path(path).read_text().split("\n")
            i = 0
            while i + 1 + n < len(L) and L[i].strip():
                rows = [l.split() for l in L[i + 2:i + 2 + n]]
                poss.append(np.array([[float(x) for x in r[1:4]] for r in rows]))
                i += n + 2
        elif eng == "lammps":
            L = Path(path).read_text().split("\n")
            i = 0
            while i + 8 + n < len(L) and L[i].startswith("ITEM: TIMESTEP"):
                rows = sorted(([float(x) for x in l.split()] for l in L[i + 9:i + 9 + n]), key=lambda r: r[0])
                poss.append(np.array([r[2:5] for r in rows]))
                i += n + 9
        elif eng == "ase":
            from ase.io.trajectory import Trajectory
            tr = Trajectory(str(path))
            poss = [a.positions.copy() for a in tr]
            tr.close()
        else:
            poss = [c16.parse_frame("gromacs", path, n)["pos"]]
    except Exception:  # noqa: BLE001
        return ["?"]
    out = []
    for p in poss:
        hit = [k for k in known if p.shape == (n, 3) and np.array_equal(p, frame_pos(case, k))]
        out.append(hit[0] if hit else "?")
    return out


def flow_scenarios(quick, eng):
    """(name, nframes, idx, src_is_conf, stale, missing, gmx kind)"""
    out = []
    if eng == "gromacs":
        out += [("g96-idx0", 1, 0, False, False, False, "g96"), ("g96-none", 1, None, False, False, False, "g96"),
                ("g96-any-idx", 1, 4, False, True, False, "g96"), ("g96-none-src-is-conf", 1, None, True, False, False, "g96"),
                ("g96-idx-src-is-conf", 1, 0, True, False, False, "g96"), ("g96-missing", 1, 0, False, False, True, "g96"),
                ("trr-idx0", 3, 0, False, False, False, "trr"), ("trr-idx2", 3, 2, False, True, False, "trr"),
                ("trr-idx1", 3, 1, False, False, False, "trr"), ("trr-out-of-range", 2, 5, False, True, False, "trr"),
                ("trr-missing", 2, 0, False, False, True, "trr"), ("other-ext", 1, 0, False, False, False, "other"),
                ("other-ext-missing", 1, 0, False, False, True, "other")]
        return out
    out += [("idx0", 2, 0, False, False, False, "other"), ("idx1", 2, 1, False, True, False, "other"),
            ("idx2-of-3", 3, 2, False, False, False, "other"), ("none-single", 1, None, False, False, False, "other"),
            ("none-single-src-is-conf", 1, None, True, False, False, "other"),
            ("none-multi", 2, None, False, False, False, "other"), ("none-multi-src-is-conf", 3, None, True, False, False, "other"),
            ("idx1-src-is-conf", 2, 1, True, False, False, "other"),
            ("out-of-range-no-conf", 2, 5, False, False, False, "other"), ("out-of-range-stale-conf", 2, 5, False, True, False, "other"),
            ("out-of-range-by-one", 2, 2, False, True, False, "other"),
            ("missing", 2, 0, False, False, True, "other"), ("missing-none", 1, None, False, False, True, "other")]
    return out


def run_flow_case(c16, mods, work, fc):
    """one reference on the real code → observations"""
    from infretis.classes.path import Path as InfPath
    case, eng = fc["case"], fc["case"]["engine"]
    n = case["n"]
    e = c16.build_engine(mods, work, case, tag="W")
    exe = Path(e.exe_dir)
    ext = c16.EXT[eng]
    conf = exe / f"conf.{ext}"
    sext = {"trr": "trr", "other": "xyz" if eng == "gromacs" else ext}.get(fc["gmx"], ext)
    src = conf if fc["src_is_conf"] else work / f"flow_src_{eng}.{sext}"
    known = list(range(fc["nframes"])) + [STALE]
    if fc["stale"] and not fc["src_is_conf"]:
        write_frames(c16, case, conf, [STALE])
    if not fc["missing"]:
        write_frames(c16, case, src, list(range(fc["nframes"])), kind="trr" if fc["gmx"] == "trr" else None)
    elif src.exists():
        src.unlink()
    src_bytes = src.read_bytes() if src.exists() else None
    e.rgen = c16.ScriptedGen(np.array(case["z"], dtype=float))

    class _Ord:
        def calculate(self, system):
            return [0.75]

    class _Pick:
        def integers(self, lo, hi=None, **k):
            return 1

    e.order_function = _Ord()
    path = InfPath(maxlen=20)
    sysm = None
    for k in range(3):
        s = mods["System"]()
        s.set_pos((str(src), fc["idx"]))
        s.order = [0.1 * k]
        s.ekin = 2.5
        s.vpot = -1.0
        s.vel_rev = bool(fc["vel_rev"]) if k == 1 else False
        path.phasepoints.append(s)
        if k == 1:
            sysm = s
    before = c16.snap_system(sysm)
    obs = {"err": None}
    ens_set = {"tis_set": {"zero_momentum": fc["zm"], "maxlength": 20}, "interfaces": [0.0, 0.25, 1.0], "ens_name": "c16"}
    try:
        with contextlib.redirect_stdout(io.StringIO()), warnings.catch_warnings():
            warnings.simplefilter("ignore")
            shpt, _idx, _dek = mods["tis"].prepare_shooting_point(path, _Pick(), e, ens_set)
    except Exception as ex:  # noqa: BLE001
        obs["err"] = err_kind(ex) if type(ex).__name__ != "SameFileError" else "err:samefile"
        obs["err_text"] = f"{type(ex).__name__}: {str(ex)[:120]}"
        obs["conf"] = read_markers(c16, case, conf, known)
        obs["sys_same"] = c16.snap_system(sysm) == before
        obs["src_same"] = (src.read_bytes() if src.exists() else None) == src_bytes
        return obs
    obs["conf"] = read_markers(c16, case, conf, known)
    obs["config"] = tuple(shpt.config)
    obs["cfg_is_genvel"] = (shpt.config == (str(exe / f"genvel.{ext}"), 0))
    obs["new_file_distinct"] = os.path.abspath(shpt.config[0]) != os.path.abspath(str(src))
    obs["vel_rev"] = bool(shpt.vel_rev)
    obs["sys_same"] = c16.snap_system(sysm) == before
    obs["src_same"] = (src.read_bytes() if src.exists() else None) == src_bytes
    try:
        g = c16.parse_frame(eng, shpt.config[0], n)
        obs["genvel"] = g
        gm = read_markers(c16, case, shpt.config[0], known)
        obs["genvel_marker"] = gm[0] if gm and len(gm) == 1 else "?"
    except Exception as ex:  # noqa: BLE001
        obs["err"] = "genvel-unreadable"
        obs["err_text"] = f"{type(ex).__name__}: {str(ex)[:120]}"
    if eng == "gromacs":
        obs["top_ids"] = [l[:24] for l in e.top["POSITION"]] if isinstance(getattr(e, "top", None), dict) else None
    return obs


def model_line(fc):
    eng = fc["case"]["engine"]
    idx = "-" if fc["idx"] is None else str(fc["idx"])
    return (f"flow {eng} {fc['gmx']} {fc['nframes']} {idx} {int(fc['src_is_conf'])} {int(fc['stale'])} "
            f"{int(fc['missing'])} {int(fc['vel_rev'])}")


def compare_flow(fc, obs, ans):
    probs = []
    if ans.startswith("err:"):
        if obs["err"] != ans:
            probs.append(f"model {ans}, code {obs['err'] or 'no error'} {obs.get('err_text', '')}")
        return probs
    if obs["err"]:
        return [f"code raised {obs['err']} ({obs.get('err_text')}), model {ans}"]
    f = dict(t.split("=", 1) for t in ans.split()[1:])
    conf_m = [] if f["conf"] == "-" else [int(x) for x in f["conf"].split(",")]
    if obs["conf"] != conf_m:
        probs.append(f"conf holds frames {obs['conf']}, model {conf_m}")
    if str(obs["genvel_marker"]) != f["genvel"] or f["read"] != f["genvel"]:
        probs.append(f"regenerated from frame {obs['genvel_marker']}, model read={f['read']} genvel={f['genvel']}")
    if not obs["cfg_is_genvel"] or f["cfg"] != "101:0":
        probs.append(f"system.config {obs['config']}, model {f['cfg']}")
    if int(obs["vel_rev"]) != int(f["velrev"]):
        probs.append(f"vel_rev of the copy {obs['vel_rev']}, model {f['velrev']}")
    if int(obs["sys_same"]) != int(f["sys_same"]):
        probs.append(f"source System unchanged {obs['sys_same']}, model {f['sys_same']}")
    if not fc["src_is_conf"] and int(obs["src_same"]) != int(f["src_same"]):
        probs.append(f"source file unchanged {obs['src_same']}, model {f['src_same']}")
    if fc["case"]["engine"] == "gromacs" and fc["gmx"] == "trr":
        ids_from_top = obs["genvel"]["ids"] == obs.get("top_ids")
        if ids_from_top != (f["ids"] == "top"):
            probs.append(f"identities from the topology: {ids_from_top}, model ids={f['ids']}")
    return probs


def judge_flow(c16, fc, obs):
    """property predicates; only where the reference denotes a frame of the file"""
    case, eng = fc["case"], fc["case"]["engine"]
    in_domain = (not fc["missing"]) and fc["gmx"] != "other" and (
        (fc["idx"] is not None and fc["idx"] < fc["nframes"]) or (fc["idx"] is None and fc["nframes"] == 1))
    if eng == "gromacs" and fc["gmx"] == "g96":
        in_domain = not fc["missing"] and not (fc["src_is_conf"] and fc["idx"] is not None)
    if not in_domain:
        return []
    out = []
    tag = (f"shooting point at ({'exe_dir/conf' if fc['src_is_conf'] else 'trajectory'}.{fc['gmx'] if eng == 'gromacs' else c16.EXT[eng]}, "
           f"index {fc['idx']}) of a {fc['nframes']}-frame file, vel_rev={fc['vel_rev']}")
    if obs["err"]:
        return [(f"C16:{eng}:raises", f"{tag}: prepare_shooting_point raised {obs.get('err_text')}")]
    k = 0 if (fc["idx"] is None or (eng == "gromacs" and fc["gmx"] == "g96")) else fc["idx"]
    g = obs["genvel"]
    want = frame_pos(case, k)
    if g["pos"].shape != want.shape or not np.array_equal(g["pos"], want):
        out.append((f"C16:{eng}:flow-wrong-frame", f"{tag}: the regenerated point has positions {g['pos'].tolist()}, frame "
                    f"{k} of the file has {want.tolist()} (regenerated from frame {obs['genvel_marker']})"))
    sf = c16.source_frame(dict(case, g96_vel_section=True))
    if eng == "gromacs" and fc["gmx"] == "trr":
        if obs.get("top_ids") is not None and g["ids"] != obs["top_ids"]:
            out.append((f"C16:{eng}:ids-changed", f"{tag}: identities {g['ids']} ≠ the engine's topology {obs['top_ids']}"))
        b = case["box"]
        if [float(x) for x in g["box"][:3]] != [float(x) for x in b] or any(float(x) != 0.0 for x in g["box"][3:]):
            out.append((f"C16:{eng}:box-changed", f"{tag}: box {g['box']} ≠ the frame's {b}"))
    else:
        if g["ids"] != sf["ids"]:
            out.append((f"C16:{eng}:ids-changed", f"{tag}: identities {g['ids']} ≠ source {sf['ids']}"))
        if sf["box"] is not None and g["box"] != sf["box"]:
            out.append((f"C16:{eng}:box-changed", f"{tag}: box {g['box']} ≠ source {sf['box']}"))
    if not fc["src_is_conf"] and not obs["src_same"]:
        out.append((f"C16:{eng}:source-file-altered", f"{tag}: the trajectory file the shooting point lives in was modified"))
    if not obs["sys_same"]:
        out.append((f"C16:{eng}:source-system-altered", f"{tag}: the path's System object was modified"))
    if not obs["new_file_distinct"] or not obs["cfg_is_genvel"]:
        out.append((f"C16:{eng}:config-not-genvel", f"{tag}: the regenerated point's config is {obs['config']}"))
    return out


def make_flow_case(c16, rng, eng, scen):
    name, nframes, idx, sic, stale, missing, gmx = scen
    n = 2 if eng == "gromacs" else (3 if eng == "lammps" else rng.choice((2, 3)))
    case = c16.gen_case(rng, eng, n, rng.choice((300, 77.5)), None, "flow:" + name)
    case["idx"] = 0
    if eng == "gromacs":
        case["g96_vel_section"] = True
        case.pop("mass_dtype", None)
        case["masses"] = [1.008, 1.008]
    if eng in ("cp2k", "turtlemd") and case.get("box") is None:
        case["box"] = [12.0, 12.0, 12.0]
    zm = rng.choice((True, False))
    return {"check": "flow", "scenario": name, "nframes": nframes, "idx": idx, "src_is_conf": sic, "stale": stale,
            "missing": missing, "gmx": gmx, "vel_rev": rng.random() < 0.5, "zm": zm, "case": case}


def do_flow_case(ctx, c16, mods, work, fc):
    obs = run_flow_case(c16, mods, work, fc)
    failed = []
    replay = dict(fc, case={k: v for k, v in fc["case"].items() if not k.startswith("_")})
    for sig, what in judge_flow(c16, fc, obs):
        failed.append(sig)
        c16._report(ctx, sig, what, replay)
    if ctx._driver_ok:
        ans = ctx.driver([model_line(fc)])[0]
        probs = compare_flow(fc, obs, ans)
        if probs:
            ctx.disagree({"fn": f"file flow {fc['case']['engine']} {fc['scenario']}", "case": replay},
                         {k: (v if k != "genvel" else None) for k, v in obs.items()}, probs + [ans])
    return obs, failed


def run_flow(ctx, c16, mods, work):
    sub = work / "flow"
    sub.mkdir(exist_ok=True)
    rng = ctx.rng
    for eng in c16.ENGINES:
        for scen in flow_scenarios(ctx.quick, eng):
            for _rep in range(1 if ctx.quick else 3):
                fc = make_flow_case(c16, rng, eng, scen)
                try:
                    obs, _failed = do_flow_case(ctx, c16, mods, sub, fc)
                except Exception as ex:  # noqa: BLE001
                    import traceback
                    ctx.disagree({"fn": "harness exception in run_flow", "scenario": scen[0], "engine": eng},
                                 type(ex).__name__ + ": " + str(ex)[:300], traceback.format_exc()[-700:])
                    continue
                ctx.count(1, branch=f"flow:{scen[0]}")
                ctx.hit(f"flow_engine={eng}")
                ctx.hit(f"flow_result={obs['err'] or 'ok'}")
                ctx.hit(f"flow_vel_rev={fc['vel_rev']}")
                if not obs["err"]:
                    ctx.distinct(("flow", eng, scen[0], fc["vel_rev"], tuple(map(tuple, fc["case"]["z"]))))
    shutil.rmtree(sub, ignore_errors=True)


def replay_flow(ctx, c16, mods, work, r, obj):
    fc = _copy.deepcopy(r)
    obs = run_flow_case(c16, mods, work, fc)
    failed = [sig for sig, _ in judge_flow(c16, fc, obs)]
    print("signatures failing now:", sorted(set(failed)), "| recorded:", obj.get("signature"))
    return 1 if obj.get("signature") in failed or (failed and obj.get("signature") is None) else 0


ASSUMPTIONS = [
    "file flow: a file is the list of its frames (model `VelFlow`), frames are told apart by their positions (frame k = "
    "base positions shifted by k/2); property predicates are evaluated where the reference denotes a frame (index in "
    "range, or None on a single-frame file); for an index that is not in the file, a missing file or a multi-frame file "
    "referenced with None only model and code are compared (error kind; CP2K/TurtleMD go on with a stale conf.xyz; ASE "
    "reads the last image); empty files and negative indices are outside the model; GROMACS .trr frames are written "
    "by the harness in the layout read_trr_header expects (double precision, big-endian, box+x+v)",
]
