"""C16, settings routing — what the MOVES hand to `engine.modify_velocities`.

`tis_set` doubles as `vel_settings`: `prepare_shooting_point` (the only call site of `modify_velocities`) passes
`ens_set["tis_set"]`.  The rest of the C16 tie calls `modify_velocities` / `prepare_shooting_point` directly and so
never sees which dict `shoot`, the sub-shoots of `wire_fencing`, or the zero swaps hand over.  Here the REAL
`shoot`, `wire_fencing`, `retis_swap_zero` and the `select_shoot` dispatch run

  * on the real TurtleMD engine with a multi-particle Lennard-Jones system (real `propagate`, real order parameter),
  * on the other four engine classes with their real `modify_velocities` / `calculate_order` / `dump_frame`; only
    `propagate` (needs gmx / cp2k / lmp) is replaced by a stub that ends the trajectory at once,

with a recording wrapper around `engine.modify_velocities` (the `vel_settings` argument, deep-copied; the frame the
call wrote, read back with the independent parser) and a recording generator as the engine stream.

Property predicates (on the implementation's own output):
  route-settings           the dict the engine was handed contains every configured key with the configured value
                           (`allowmaxlength` excepted on the wire-fencing route: the move sets it, as the code does)
  route-momentum-not-zero  zero momentum requested in the configured tis_set (entry truthy / absent with CP2K's default)
                           ⇒ Σ m v = 0 in the regenerated shooting point
  route-gaussian-altered   not requested ⇒ the written velocities are the untouched draw √(k_BT/m)·ζ
Model vs code (ctx.disagree): number of regenerations per move, every recorded dict, the flag in effect, the
ensemble's tis_set after the move, error kinds (missing `maxlength`, non-integer `n_jumps`) — Lean
`Infretis.VelRoute.routeSettings` through `drv_c16 route`.
"""
from __future__ import annotations

import copy as _copy
import math
import os
import shutil
from fractions import Fraction

import numpy as np

from common import err_kind, frac_token

ORDERS = [0.34, 0.36, 0.38, 0.40, 0.37, 0.34]          # crosses 0.3625 up and down: one wire-fencing segment
ORDERS_NOSEG = [0.34, 0.35, 0.355, 0.36, 0.35, 0.34]   # never reaches 0.3625: n_frames = 0 → "NSG"
INTERFACES = (0.345, 0.3625, 1.2)
CAP = 0.54


# ------------------------------------------------------------------ settings dict <-> driver tokens
def _hex(s):
    return s.encode("ascii").hex() or "-"


def enc_val(v):
    if isinstance(v, (bool, np.bool_)):
        return "b1" if v else "b0"
    if isinstance(v, (int, np.integer)):
        return f"i{int(v)}"
    if isinstance(v, float):
        return "f" + frac_token(v)
    if isinstance(v, str):
        return "s" + _hex(v)
    if v is None:
        return "n"
    raise TypeError(f"settings value {v!r} has no scalar encoding")


def enc_settings(d):
    out = [str(len(d))]
    for k, v in d.items():
        out += [_hex(k), enc_val(v)]
    return " ".join(out)


def canon(d):
    """canonical, order-preserving form of a dict (bool ≠ int ≠ float, as Python `==` would blur them)"""
    return [(k, enc_val(v)) for k, v in d.items()]


def dec_settings(tokens):
    n = int(tokens[0])
    out = []
    for i in range(n):
        k, v = tokens[1 + 2 * i], tokens[2 + 2 * i]
        out.append(("" if k == "-" else bytes.fromhex(k).decode("ascii"), v))
    return out


def norm_canon(pairs):
    """values are compared as tokens; floats through Fraction so that '1/2' == '0.5'-style spellings agree"""
    out = []
    for k, v in pairs:
        if v.startswith("f"):
            v = "f" + str(Fraction(v[1:]))
        out.append((k, v))
    return out


def truthy(v):
    return bool(v)


def engine_default(eng):
    return eng == "cp2k"


def requested(eng, configured):
    """zero momentum requested by the configuration: the entry's truth value, the engine's documented default when
    the key is absent"""
    if "zero_momentum" in configured:
        return truthy(configured["zero_momentum"])
    return engine_default(eng)


# ------------------------------------------------------------------ recording generator / wrapper
class RecGen:
    """a real seeded numpy Generator behind a proxy that records every Gaussian draw (scale and values)"""

    def __init__(self, seed):
        self._g = np.random.default_rng(seed)
        self.draws = []

    def normal(self, loc=0.0, scale=1.0, size=None):
        r = self._g.normal(loc=loc, scale=scale, size=size)
        self.draws.append({"method": "normal", "loc": float(loc), "scale": np.array(scale, dtype=float).copy(),
                           "values": np.array(r, dtype=float).copy()})
        return r

    def standard_normal(self, size=None, **k):
        r = self._g.standard_normal(size=size, **k)
        self.draws.append({"method": "standard_normal", "loc": 0.0, "scale": None,
                           "values": np.array(r, dtype=float).copy()})
        return r

    def __getattr__(self, name):
        return getattr(self._g, name)


def install_recorder(c16, engine, eng, n, records):
    real = engine.modify_velocities

    def modify_velocities(system, vel_settings):
        gen = getattr(engine, "rgen", None)
        n0 = len(gen.draws) if isinstance(gen, RecGen) else 0
        rec = {"settings": _copy.deepcopy(vel_settings), "settings_id": id(vel_settings), "err": None,
               "from": tuple(system.config)}
        try:
            out = real(system, vel_settings)
        except Exception as ex:  # noqa: BLE001
            rec["err"] = err_kind(ex) + ":" + str(ex)[:160]
            records.append(rec)
            raise
        rec["settings_after"] = _copy.deepcopy(vel_settings)
        rec["dek"], rec["kin_new"] = float(out[0]), float(out[1])
        rec["draws"] = list(gen.draws[n0:]) if isinstance(gen, RecGen) else None
        try:
            rec["genvel"] = c16.parse_frame(eng, system.config[0], n)
        except Exception as ex:  # noqa: BLE001
            rec["err"] = f"genvel-unreadable:{type(ex).__name__}:{str(ex)[:120]}"
        records.append(rec)
        return out

    engine.modify_velocities = modify_velocities
    return real


class _ConstOrder:
    def __init__(self, value):
        self.value = value

    def calculate(self, system):
        return [self.value]


def stub_propagate(path, ens_set, system, reverse=False):
    """stands in for the MD program of GROMACS / CP2K / LAMMPS / ASE: the trajectory ends at its first frame"""
    path.append(system)
    return False, "stub: no MD program offline"


# ------------------------------------------------------------------ one route case on the real code
def make_configured(rng, zm, quick, malformed=None):
    """a `[simulation.tis_set]` as setup.py leaves it, plus keys only engines / other moves may look at"""
    ts = {"maxlength": rng.choice((40, 60, 80)), "allowmaxlength": rng.choice((False, False, True))}
    if zm != "absent":
        ts["zero_momentum"] = zm
    nj = rng.choice(("absent", 1, 2, 3)) if quick else rng.choice(("absent", 1, 2, 3, 4, True, 0))
    if nj != "absent":
        ts["n_jumps"] = nj
    ts["interface_cap"] = CAP
    ts.update({"aimless": True, "temperature": 300.0, "rescale_energy": False, "quantis": False,
               "lambda_minus_one": False, "accept_all": False})
    if rng.random() < 0.5:
        ts[f"user_key_{rng.randint(0, 9)}"] = rng.choice((0, 1.5, "text", "", None, True))
    keys = list(ts)
    if rng.random() < 0.5:          # dict order is not under the user's control: shuffle it
        rng.shuffle(keys)
        ts = {k: ts[k] for k in keys}
    if malformed == "no-maxlength":
        del ts["maxlength"]
    elif malformed == "n_jumps-float":
        ts["n_jumps"] = 3.0
    elif malformed == "n_jumps-str":
        ts["n_jumps"] = "3"
    elif malformed == "n_jumps-none":
        ts["n_jumps"] = None
    return ts


def make_route_case(c16, rng, eng, zm, move, via, quick, malformed=None, seg=True):
    n = {"turtlemd": rng.choice((2, 3)), "lammps": 3}.get(eng, rng.choice((2, 3)))
    case = c16.gen_case(rng, eng, n, rng.choice((300, 77.5)), None, "route")
    if eng == "turtlemd":       # floats: the LJ propagation needs float masses
        case.pop("mass_dtype", None)
        case["masses"] = [rng.choice(c16.MASS_POOL[:6]) for _ in range(n)]
        case["names"] = ["H"] * n
        case["box"] = [3.0, 3.0, 3.0]
    case["vel_rev"] = False
    return {"check": "route", "engine": eng, "move": move, "via": via, "seg": seg, "malformed": malformed,
            "tis_set": make_configured(rng, zm, quick, malformed), "case": case,
            "seed_eng": rng.randrange(1 << 30), "seed_move": rng.randrange(1 << 30)}


def _write_turtle_source(case, path, orders):
    n = case["n"]
    out = []
    for k, d in enumerate(orders):
        out.append(str(n))
        out.append("# Box: " + " ".join(f"{b:9.4f}" for b in case["box"]))
        pos = [[0.0, 0.0, 0.0], [d, 0.0, 0.0]] + [[1.5, 1.5, 1.0 + 0.5 * j] for j in range(n - 2)]
        for i in range(n):
            vel = [0.125 * ((i + k) % 3 - 1), 0.0625 * (i - 1), -0.25 * ((k % 2) - 0.5)]
            out.append(f"{case['names'][i]:5s}" + "".join(f" {x:15.9f}" for x in pos[i] + vel))
    path.write_text("\n".join(out) + "\n")


def _build(c16, mods, work, rc, tag):
    """engine + 6-frame path for one ensemble; returns (engine, path, records)"""
    from infretis.classes.orderparameter import create_orderparameter
    from infretis.classes.path import Path as InfPath
    eng, case = rc["engine"], rc["case"]
    orders = ORDERS if rc["seg"] else ORDERS_NOSEG
    e = c16.build_engine(mods, work, case, tag=tag)
    src = work / f"route_src_{eng}{tag}.{c16.EXT[eng]}"
    if eng == "turtlemd":
        _write_turtle_source(case, src, orders)
        e.order_function = create_orderparameter(
            {"orderparameter": {"class": "Distance", "index": [0, 1], "periodic": True}})
    else:
        c16.write_source(case, src)
        e.order_function = _ConstOrder(0.40)
        e.propagate = stub_propagate
    path = InfPath(maxlen=rc["tis_set"].get("maxlength", 60))
    for k, d in enumerate(orders):
        s = mods["System"]()
        idx = k if eng == "turtlemd" else (0 if eng == "gromacs" else k % 2)
        s.set_pos((str(src), idx))
        s.order = [d]
        s.ekin = 1.0 + k
        path.append(s)
    path.status = "ACC"
    path.path_number = 7
    records = []
    install_recorder(c16, e, eng, case["n"], records)
    return e, path, records, src


def run_route_case(c16, mods, work, rc):
    """runs one move on the real code; returns observations"""
    tis = mods["tis"]
    eng, move, via = rc["engine"], rc["move"], rc["via"]
    configured = _copy.deepcopy(rc["tis_set"])
    tis_set = _copy.deepcopy(rc["tis_set"])
    obs = {"err": None, "records": [], "status": None}
    e, path, records, src = _build(c16, mods, work, rc, "R")
    src_bytes = src.read_bytes()
    gen = RecGen(rc["seed_eng"])
    ens = {"interfaces": INTERFACES, "tis_set": tis_set, "mc_move": "wf" if move == "wf" else "sh",
           "ens_name": "001", "start_cond": "L", "rgen": np.random.default_rng(rc["seed_move"])}
    saved_engines = getattr(tis, "ENGINES", None)
    try:
        if move == "zs":
            e0, path0, records0, _src0 = _build(c16, mods, work, rc, "Z")
            records0_ref = records0
            ens0 = {"interfaces": (-math.inf, INTERFACES[0], INTERFACES[0]), "tis_set": tis_set, "mc_move": "sh",
                    "ens_name": "000", "start_cond": "R", "rgen": np.random.default_rng(rc["seed_move"] + 1)}
            ens1 = dict(ens, interfaces=(INTERFACES[0], INTERFACES[0], INTERFACES[2]), mc_move="sh")
            # [0-] path ends right of λ0 (swap allowed) in the first variant, left of it in the second
            for pth, vals in ((path0, [0.36, 0.33, 0.32, 0.33, 0.34, 0.36] if rc["seg"] else [0.36, 0.33, 0.32, 0.33, 0.34, 0.33]),
                              (path, [0.34, 0.36, 0.38, 0.40, 0.37, 0.34])):
                for pp, v in zip(pth.phasepoints, vals):
                    pp.order = [v]
            e0.rgen = RecGen(rc["seed_eng"] + 1)
            picked = {-1: {"ens": ens0, "traj": path0, "eng_idx": {"e0": 0}, "rgen-eng": e0.rgen, "exe_dir": e0.exe_dir, "wmdrun": "echo"},
                      0: {"ens": ens1, "traj": path, "eng_idx": {"e1": 0}, "rgen-eng": gen, "exe_dir": e.exe_dir, "wmdrun": "echo"}}
            if via == "select_shoot":
                tis.ENGINES = {"e0": [e0], "e1": [e]}
                res = tis.select_shoot(picked)
            else:
                e.rgen = gen
                res = tis.retis_swap_zero(picked, {-1: [e0], 0: [e]})
            records = records + records0_ref
        elif via == "select_shoot":
            tis.ENGINES = {"eng": [e]}
            picked = {1: {"ens": ens, "traj": path, "eng_idx": {"eng": 0}, "rgen-eng": gen, "exe_dir": e.exe_dir, "wmdrun": "echo"}}
            res = tis.select_shoot(picked)
        else:
            e.rgen = gen
            fn = tis.wire_fencing if move == "wf" else tis.shoot
            res = fn(ens, path, e, start_cond=("L",))
        obs["status"] = str(res[2])
    except Exception as ex:  # noqa: BLE001
        obs["err"] = err_kind(ex) + ":" + str(ex)[:160]
        obs["err_kind"] = err_kind(ex)
    finally:
        if saved_engines is not None:
            tis.ENGINES = saved_engines
    obs["records"] = records
    obs["tis_set_after"] = _copy.deepcopy(tis_set)
    obs["tis_set_id"] = id(tis_set)
    obs["configured"] = configured
    obs["src_bytes_same"] = src.read_bytes() == src_bytes
    m = getattr(e, "masses", None) if eng == "gromacs" else getattr(e, "mass", None)
    obs["engine_mass"] = None if m is None else [float(x) for x in np.array(m).flatten()]
    return obs


# ------------------------------------------------------------------ predicates and model comparison
def judge_route(c16, rc, obs):
    """→ list of (signature, what) property failures on the implementation's output"""
    eng, move, case = rc["engine"], rc["move"], rc["case"]
    configured = obs["configured"]
    n, T = case["n"], case["T"]
    out = []
    want_on = requested(eng, configured)
    mu = c16.masses_as_given(case)
    masses = np.array(obs["engine_mass"] if obs["engine_mass"] is not None else case["masses"], dtype=float).reshape(-1, 1)
    tol = c16.written_abs_tol(eng)
    route = {"sh": "shoot", "wf": "wire_fencing sub-shoot", "zs": "zero swap"}[move] + f" (via {rc['via']})"
    for k, rec in enumerate(obs["records"]):
        tag = f"{route}, velocity regeneration #{k}"
        seen = rec["settings"]
        # 1. the dict the engine was handed carries every configured key with the configured value
        for key, val in configured.items():
            if key == "allowmaxlength" and move == "wf":
                continue
            if key not in seen:
                out.append((f"C16:{eng}:route-settings", f"{tag}: engine.modify_velocities was handed {seen}: the configured "
                            f"key {key!r} = {val!r} is missing (configured tis_set: {configured})"))
                break
            if enc_val(seen[key]) != enc_val(val):
                out.append((f"C16:{eng}:route-settings", f"{tag}: engine.modify_velocities was handed {key!r} = "
                            f"{seen[key]!r}, configured {val!r}"))
                break
        if rec.get("err") or "genvel" not in rec:
            out.append((f"C16:{eng}:raises", f"{tag}: {rec.get('err')}"))
            continue
        v = rec["genvel"]["vel"]
        draws = rec.get("draws") or []
        sd = np.array([math.sqrt(float(c16.kT_units(eng, T, m_))) for m_ in mu]).reshape(-1, 1)
        zeta = None
        if len(draws) == 1:
            dr = draws[0]
            if dr["method"] == "normal" and dr["scale"] is not None:
                sc = np.broadcast_to(dr["scale"], (n, 1)) if np.ndim(dr["scale"]) else np.full((n, 1), float(dr["scale"]))
                with np.errstate(divide="ignore", invalid="ignore"):
                    zeta = np.where(sc != 0, dr["values"].reshape(n, -1) / sc, 0.0)
            elif dr["method"] == "standard_normal":
                zeta = dr["values"].reshape(n, -1)
        # 2. zero momentum iff requested
        if want_on:
            mom = (v * masses).sum(axis=0)
            scale = float(np.abs(v * masses).sum()) + (float((masses * sd * np.abs(zeta)).sum()) if zeta is not None else 0.0) + 1e-300
            if np.any(np.abs(mom) > 1e-9 * scale + tol * float(masses.sum())):
                out.append((f"C16:{eng}:route-momentum-not-zero",
                            f"{tag}: zero momentum is requested (tis_set zero_momentum = "
                            f"{configured.get('zero_momentum', 'absent → engine default')!r}) but the regenerated shooting "
                            f"point has total momentum {mom.tolist()} (Σ|p| = {float(np.abs(v * masses).sum())!r}); the engine "
                            f"was handed {seen}"))
        elif zeta is not None:
            bad = None
            for i in range(n):
                for j in range(3):
                    want = float(sd[i, 0]) * float(zeta[i, j])
                    if abs(v[i, j] - want) > (c16.EPS[eng] + 1e-9) * abs(want) + tol:
                        bad = (i, j, float(v[i, j]), want)
                        break
                if bad:
                    break
            if bad:
                out.append((f"C16:{eng}:route-gaussian-altered",
                            f"{tag}: zero momentum is NOT requested (tis_set zero_momentum = "
                            f"{configured.get('zero_momentum', 'absent → engine default')!r}) but v[{bad[0]},{bad[1]}] = {bad[2]!r} "
                            f"is not the drawn √(k_BT/m)·ζ = {bad[3]!r}: the Gaussian was altered; the engine was handed {seen}"))
        if len(draws) != 1:
            out.append((f"C16:{eng}:draw-count", f"{tag}: {len(draws)} Gaussian draws on the engine stream"))
        # 3. positions of the regenerated point = those of the frame it was taken from (turtlemd: known by construction)
    if not obs["src_bytes_same"]:
        out.append((f"C16:{eng}:source-file-altered", f"{route}: the path's trajectory file was modified"))
    return out


def model_line(rc):
    mv = {"sh": "sh", "wf": "wf", "zs": "zs"}[rc["move"]]
    return f"route {rc['engine']} {mv} {1 if rc['seg'] else 0} {enc_settings(rc['tis_set'])}"


def parse_model(ans):
    if ans.startswith("err:"):
        return {"err": ans.split(":")[1], "what": ans}
    f = [x.strip() for x in ans.split("|")]
    head = f[0].split()
    calls = []
    for c in f[1:-1]:
        t = c.split()
        calls.append({"flag": t[0] == "1", "zm": None if t[1] == "-" else t[1] == "1", "dict": dec_settings(t[2:])})
    return {"err": None, "ncalls": int(head[1]), "cfgflag": head[2] == "cfgflag=1", "gmxrefuses": head[3] == "gmxrefuses=1",
            "calls": calls, "after": dec_settings(f[-1].split()[1:])}


_ERR = {"KeyError": "err:key", "TypeError": "err:type"}


def compare_route(rc, obs, mo):
    """→ list of differences between the real move and `routeSettings`"""
    probs = []
    if mo["err"]:
        if obs.get("err_kind") != _ERR.get(mo["err"]):
            probs.append(f"model raises {mo['what']}, code: {obs['err'] or 'no error, status ' + str(obs['status'])}")
        elif obs["records"]:
            probs.append(f"model raises before any regeneration, code made {len(obs['records'])}")
        return probs
    if obs["err"]:
        return [f"code raised {obs['err']}, model: {mo['ncalls']} calls"]
    if len(obs["records"]) != mo["ncalls"]:
        probs.append(f"{len(obs['records'])} regenerations, model {mo['ncalls']}")
    for k, (rec, mc) in enumerate(zip(obs["records"], mo["calls"])):
        if norm_canon(canon(rec["settings"])) != norm_canon(mc["dict"]):
            probs.append(f"call {k}: handed {canon(rec['settings'])}, model {mc['dict']}")
        if rec.get("settings_id") != obs["tis_set_id"]:
            probs.append(f"call {k}: the dict handed over is not the ensemble's tis_set object (the model has one dict)")
    if norm_canon(canon(obs["tis_set_after"])) != norm_canon(mo["after"]):
        probs.append(f"tis_set after the move {canon(obs['tis_set_after'])}, model {mo['after']}")
    if mo["cfgflag"] != requested(rc["engine"], obs["configured"]):
        probs.append(f"configured flag: model {mo['cfgflag']}, harness {requested(rc['engine'], obs['configured'])}")
    for k, mc in enumerate(mo["calls"]):
        if mc["flag"] != mo["cfgflag"]:
            probs.append(f"model: call {k} flag {mc['flag']} ≠ configured {mo['cfgflag']}")
    return probs


def do_route_case(ctx, c16, mods, work, rc):
    import contextlib
    import io
    with contextlib.redirect_stdout(io.StringIO()):      # the engines print (e.g. "… did not contain velocity information")
        obs = run_route_case(c16, mods, work, rc)
    failed = []
    replay = {k: v for k, v in rc.items()}
    replay["case"] = {k: v for k, v in rc["case"].items() if not k.startswith("_")}
    if obs["err"] and not rc["malformed"]:
        failed.append(f"C16:{rc['engine']}:raises")
        c16._report(ctx, failed[-1], f"{rc['move']} via {rc['via']} raised {obs['err']}", replay)
    for sig, what in judge_route(c16, rc, obs):
        failed.append(sig)
        c16._report(ctx, sig, what, replay)
    if ctx._driver_ok:
        mo = parse_model(ctx.driver([model_line(rc)])[0])
        probs = compare_route(rc, obs, mo)
        if probs:
            ctx.disagree({"fn": f"route {rc['move']} via {rc['via']} ({rc['engine']})", "case": replay},
                         {"regenerations": len(obs["records"]), "status": obs["status"], "err": obs["err"]}, probs)
    return obs, failed


def route_cases(ctx, c16):
    rng = ctx.rng
    out = []
    zms = [True, False, "absent"]
    odd = [0, 1, 0.0, "", "yes", None]
    for eng in c16.ENGINES:
        for zm in zms:
            for move, via in (("sh", "direct"), ("wf", "direct"), ("wf", "select_shoot"), ("sh", "select_shoot")):
                if ctx.quick and via == "select_shoot" and move == "sh" and zm == "absent":
                    continue
                out.append(make_route_case(c16, rng, eng, zm, move, via, ctx.quick))
        # falsy-but-valid / truthy non-bool entries on the wire-fencing route
        for val in (rng.sample(odd, 2) if ctx.quick else odd):
            out.append(make_route_case(c16, rng, eng, val, "wf", "direct", ctx.quick))
        # no segment: wire fencing returns "NSG" without regenerating; zero swaps never regenerate
        out.append(make_route_case(c16, rng, eng, rng.choice(zms), "wf", "direct", ctx.quick, seg=False))
        for seg in ((True,) if ctx.quick else (True, False)):
            out.append(make_route_case(c16, rng, eng, rng.choice(zms), "zs",
                                       rng.choice(("direct", "select_shoot")), ctx.quick, seg=seg))
    # malformed settings: missing maxlength (KeyError on every route), non-integer n_jumps (TypeError from range)
    for eng in (("turtlemd", "cp2k") if ctx.quick else c16.ENGINES):
        for mal, move in (("no-maxlength", "sh"), ("no-maxlength", "wf"), ("no-maxlength", "zs"),
                          ("n_jumps-float", "wf"), ("n_jumps-str", "wf"), ("n_jumps-none", "wf")):
            out.append(make_route_case(c16, rng, eng, rng.choice(zms), move, "direct", ctx.quick, malformed=mal))
    if not ctx.quick:
        for _ in range(60):
            eng = rng.choice(c16.ENGINES)
            out.append(make_route_case(c16, rng, eng, rng.choice(zms + odd), rng.choice(("sh", "wf", "wf")),
                                       rng.choice(("direct", "select_shoot")), False))
    return out


def run_routes(ctx, c16, mods, work):
    sub = work / "routes"
    sub.mkdir(exist_ok=True)
    n_regen = 0
    for k, rc in enumerate(route_cases(ctx, c16)):
        try:
            obs, _failed = do_route_case(ctx, c16, mods, sub, rc)
        except Exception as ex:  # noqa: BLE001  (a harness exception must not hide concrete failures elsewhere)
            import traceback
            ctx.disagree({"fn": "harness exception in run_routes", "case": {k2: v for k2, v in rc.items() if k2 != "case"}},
                         type(ex).__name__ + ": " + str(ex)[:300], traceback.format_exc()[-700:])
            continue
        nrec = len(obs["records"])
        n_regen += nrec
        ctx.count(1 + nrec, branch=f"route:{rc['move']}:{rc['via']}")
        ctx.hit(f"route_engine={rc['engine']}")
        ctx.hit(f"route_regenerations={nrec}")
        ctx.hit(f"route_zm={rc['tis_set'].get('zero_momentum', 'absent')!r}")
        ctx.hit(f"route_status={obs['status'] if not obs['err'] else obs.get('err_kind')}")
        if rc["malformed"]:
            ctx.hit(f"route_malformed={rc['malformed']}")
        if nrec:
            ctx.distinct(("route", rc["engine"], rc["move"], rc["via"], repr(rc["tis_set"].get("zero_momentum", "absent")),
                          nrec, rc["seed_eng"]))
        if k % 37 == 0:
            ctx.sample({"route": rc["move"], "via": rc["via"], "engine": rc["engine"], "tis_set": rc["tis_set"],
                        "regenerations": nrec, "status": obs["status"], "err": obs["err"],
                        "handed": [r["settings"] for r in obs["records"][:2]],
                        "momentum": [None if "genvel" not in r else
                                     (r["genvel"]["vel"] * np.array(obs["engine_mass"] or rc["case"].get("masses")).reshape(-1, 1)).sum(axis=0).tolist()
                                     for r in obs["records"][:2]]})
    ctx.extra["route_regenerations_judged"] = ctx.extra.get("route_regenerations_judged", 0) + n_regen
    for fn in (gmx_guard_values, helper_checks):
        try:
            fn(ctx, c16, mods, sub)
        except Exception as ex:  # noqa: BLE001
            import traceback
            ctx.disagree({"fn": f"harness exception in {fn.__name__}"}, type(ex).__name__ + ": " + str(ex)[:300],
                         traceback.format_exc()[-600:])
    shutil.rmtree(sub, ignore_errors=True)


def gmx_guard_values(ctx, c16, mods, work):
    """GROMACS with gmx-generated velocities (infretis_genvel off): the refusal `vel_settings.get("zero_momentum", True)
    is False` is an identity test — model `VelRoute.gmxOwnGenvelRefuses`.  For every value of the entry: ValueError
    before anything is touched iff the model says so; otherwise the engine goes on to gmx (here a sentinel)."""
    import contextlib
    import io
    d = work / "in_gromacsV"
    if d.exists():
        shutil.rmtree(d)
    d.mkdir()
    for fn in ("conf.g96", "grompp.mdp", "topol.top"):
        shutil.copy(c16.EX / "gromacs/H2/gromacs_input" / fn, d / fn)
    with contextlib.redirect_stdout(io.StringIO()):
        e = mods["GromacsEngine"]("echo", d.resolve(), 0, 0, 300)
    c16._finish_engine(e, work, "gromacs", "V")
    case = c16.gen_case(ctx.rng, "gromacs", 2, 300, False, "gmx-genvel")
    src = work / "src_gromacsV.g96"
    c16.write_source(case, src)

    class _Reached(Exception):
        pass

    def sentinel(pos):
        raise _Reached()
    e._prepare_shooting_point = sentinel
    for val in (False, True, 0, 1, 0.0, "", "no", None, "absent"):
        vs = {"maxlength": 10} if val == "absent" and isinstance(val, str) else {"maxlength": 10, "zero_momentum": val}
        s_ = mods["System"]()
        s_.set_pos((str(src), 0))
        s_.ekin = 3.5
        before = c16.snap_system(s_)
        vs0 = _copy.deepcopy(vs)
        try:
            with contextlib.redirect_stdout(io.StringIO()):
                e.modify_velocities(s_, vs)
            out = "no error"
        except _Reached:
            out = "goes on to gmx"
        except ValueError:
            out = "refused"
        except Exception as ex:  # noqa: BLE001
            out = err_kind(ex)
        ctx.count(1, branch="gromacs-own-genvel-guard-values")
        want = None
        if ctx._driver_ok:
            ans = ctx.driver([f"route gromacs sh 0 {enc_settings(vs)}"])[0]
            want = "refused" if "gmxrefuses=1" in ans else "goes on to gmx"
            if out != want:
                ctx.disagree({"fn": "gromacs own-genvel guard", "zero_momentum": repr(val)}, out, want)
        untouched = c16.snap_system(s_) == before and canon(vs) == canon(vs0)
        if val is False and (out != "refused" or not untouched):
            c16._report(ctx, "C16:gromacs:genvel-guard", f"gmx-generated velocities with zero_momentum=False: {out}; "
                        f"System/settings untouched = {untouched}", {"case": case, "check": "gmx-guard"})


# ------------------------------------------------------------------ helpers: kinetic_energy, reset_momentum, draw
def _cols(a):
    from common import lst
    a = np.array(a, dtype=float)
    return " ".join([str(a.shape[1])] + [lst(list(a[:, j]), frac_token) for j in range(a.shape[1])])


def _parse_cols(t):
    k, out, i = int(t[0]), [], 1
    for _ in range(k):
        m = int(t[i])
        out.append([Fraction(x) for x in t[i + 1:i + 1 + m]])
        i += 1 + m
    return out, t[i:]


def helper_case(rng, n, mass_kind):
    q = lambda lo, hi: rng.randint(lo * 16, hi * 16) / 16.0  # noqa: E731  (dyadic: float arithmetic is exact)
    if mass_kind == "int":
        masses = [rng.choice((1, 2, 3, 12, 16)) for _ in range(n)]
    elif mass_kind == "equal":
        masses = [q(1, 8) or 1.0] * n
    else:
        masses = [q(1, 40) or 0.5 for _ in range(n)]
    vel = [[q(-4, 4) for _ in range(3)] for _ in range(n)]
    return {"check": "helper", "n": n, "mass_kind": mass_kind, "masses": masses, "vel": vel}


def run_helper_case(mods, hc):
    """real kinetic_energy / reset_momentum on one (mass, vel); → observations"""
    from infretis.classes.engines.cp2k import kinetic_energy, reset_momentum
    dt = int if hc["mass_kind"] == "int" else float
    mass = np.array(hc["masses"], dtype=dt).reshape(-1, 1)
    vel = np.array(hc["vel"], dtype=float)
    obs = {"err": None}
    try:
        kin, tensor = kinetic_energy(vel.copy(), mass)
        obs["kin"], obs["tensor_shape"] = float(kin), tuple(np.shape(tensor))
        v_in = vel.copy()
        out = reset_momentum(v_in, mass)
        obs["reset"] = np.array(out, dtype=float)
        obs["reset_in_place"] = out is v_in
        obs["mass_same"] = np.array_equal(mass, np.array(hc["masses"], dtype=dt).reshape(-1, 1))
        obs["kin_after"] = float(kinetic_energy(out, mass)[0])
    except Exception as ex:  # noqa: BLE001
        obs["err"] = err_kind(ex) + ":" + str(ex)[:160]
    return obs


def judge_helper(hc, obs):
    out = []
    if obs["err"]:
        return [("C16:helpers:raises", f"kinetic_energy / reset_momentum raised {obs['err']} for masses {hc['masses']}")]
    m = [Fraction(x) for x in hc["masses"]]
    v = [[Fraction(x) for x in row] for row in hc["vel"]]
    kin = sum(mi * x * x for mi, row in zip(m, v) for x in row) / 2
    if abs(obs["kin"] - float(kin)) > 1e-12 * max(1.0, abs(float(kin))):
        out.append(("C16:helpers:kinetic-energy", f"kinetic_energy gives {obs['kin']!r}, ½Σm v² = {float(kin)!r} "
                    f"(masses {hc['masses']}, velocities {hc['vel']})"))
    M = sum(m)
    r = obs["reset"]
    mom = [sum(float(mi) * r[i, j] for i, mi in enumerate(m)) for j in range(3)]
    scale = sum(abs(float(mi) * x) for mi, row in zip(m, v) for x in row) + 1e-300
    if r.shape != (hc["n"], 3) or any(abs(p) > 1e-12 * scale for p in mom):
        out.append(("C16:helpers:reset-momentum", f"reset_momentum leaves total momentum {mom} (masses {hc['masses']}, "
                    f"velocities {hc['vel']})"))
    # the projection subtracts the SAME velocity from every atom: relative velocities are untouched
    for j in range(3):
        com = sum(mi * row[j] for mi, row in zip(m, v)) / M
        for i in range(hc["n"]):
            if abs(r[i, j] - float(v[i][j] - com)) > 1e-12 * max(1.0, abs(float(v[i][j])), abs(float(com))):
                out.append(("C16:helpers:reset-momentum", f"reset_momentum: v[{i},{j}] = {r[i, j]!r}, v − v_com = "
                            f"{float(v[i][j] - com)!r} (masses {hc['masses']}, velocities {hc['vel']})"))
                return out
    if not obs["mass_same"]:
        out.append(("C16:helpers:reset-momentum", "the mass array was modified"))
    return out


def helper_checks(ctx, c16, mods, work):
    rng = ctx.rng
    cases = []
    for n in (1, 2, 3, 5):
        for mk in ("float", "int", "equal"):
            for _ in range(1 if ctx.quick else 6):
                cases.append(helper_case(rng, n, mk))
    for hc in cases:
        obs = run_helper_case(mods, hc)
        ctx.count(2, branch="helpers:kinetic_energy+reset_momentum")
        ctx.hit(f"helper_n={hc['n']}")
        for sig, what in judge_helper(hc, obs):
            c16._report(ctx, sig, what, dict(hc))
        if ctx._driver_ok and not obs["err"]:
            from common import lst
            ml = lst([float(x) for x in hc["masses"]], frac_token)
            a_kin, a_res = ctx.driver([f"kin {ml} {_cols(hc['vel'])}", f"reset {ml} {_cols(hc['vel'])}"])
            kc, ke = [Fraction(x) for x in a_kin.split()]
            if kc != ke or abs(obs["kin"] - float(kc)) > 1e-12 * max(1.0, abs(float(kc))):
                ctx.disagree({"fn": "kinetic_energy", "case": hc}, obs["kin"], a_kin)
            mcols, _rest = _parse_cols(a_res.split("|")[0].split())
            mv = np.array([[float(x) for x in col] for col in mcols]).T
            if mv.shape != obs["reset"].shape or np.any(np.abs(mv - obs["reset"]) > 1e-12 * (1.0 + np.abs(mv))):
                ctx.disagree({"fn": "reset_momentum", "case": hc}, obs["reset"].tolist(), mv.tolist())
            if not obs["reset_in_place"]:
                ctx.disagree({"fn": "reset_momentum", "case": hc}, "returns a new array", "modified in place and returned")
    # draw_maxwellian_velocities: the sigma_v argument and the missing-rgen branch against the model
    case = c16.gen_case(rng, "turtlemd", 3, 300, None, "sigma-arg")
    case.pop("mass_dtype", None)
    case["masses"] = [rng.choice(c16.MASS_POOL) for _ in range(3)]
    e = c16.build_engine(mods, work, case, tag="D")
    mass = np.array(case["masses"], dtype=float).reshape(-1, 1)
    z = np.array(case["z"], dtype=float)
    from common import lst
    sigmas = [None, [0.5, 2.0, 0.125], [0.0, 0.0, 0.0], [0.5, -1.0, 2.0], [0.0, 0.25, 0.0], [-0.0, 1.0, 1.0]]
    for sv in sigmas:
        for has_rgen in (True, False):
            gen = c16.ScriptedGen(z)
            if has_rgen:
                e.rgen = gen
            elif hasattr(e, "rgen"):
                del e.rgen
            arg = None if sv is None else np.array(sv, dtype=float).reshape(-1, 1)
            try:
                _vel, _sig = e.draw_maxwellian_velocities(np.zeros((3, 3)), mass, e.beta, sigma_v=arg)
                got = "ok"
            except ValueError:
                got = "err:value"
            except Exception as ex:  # noqa: BLE001
                got = err_kind(ex)
            ctx.count(1, branch="helpers:draw_maxwellian_velocities")
            if not ctx._driver_ok:
                continue
            ans = ctx.driver([f"draw {1 if has_rgen else 0} {frac_token(float(e.beta))} "
                              f"{lst([float(x) for x in case['masses']], frac_token)} "
                              f"{'-' if sv is None else lst([float(x) for x in sv], frac_token)} 3 3"])[0]
            if ans.startswith("err"):
                if got != ans or gen.log:
                    ctx.disagree({"fn": "draw_maxwellian_velocities", "sigma_v": sv, "has_rgen": has_rgen}, got, ans)
                continue
            t = ans.split()
            want_sq = [Fraction(x) for x in t[6:]]
            ok = (got == "ok" and len(gen.log) == 1 and gen.log[0]["method"] == t[1] and gen.log[0]["loc"] == float(Fraction(t[2]))
                  and gen.log[0]["size"] == (int(t[3]), int(t[4])))
            if ok:
                sc = np.array(gen.log[0]["scale"], dtype=float).flatten()
                ok = len(sc) == len(want_sq) and all(c16.close(Fraction(float(a)) ** 2, b, 1e-12) for a, b in zip(sc, want_sq))
            if not ok:
                ctx.disagree({"fn": "draw_maxwellian_velocities", "sigma_v": sv, "has_rgen": has_rgen},
                             {"result": got, "log": [(l["method"], l["loc"], l["size"], np.array(l["scale"]).tolist()) for l in gen.log]}, ans)

    # guess_particle_mass: every table element and names that are not in the table, against the model
    from infretis.classes.engines.cp2k import guess_particle_mass
    from infretis.classes.engines.engineparts import PERIODIC_TABLE
    names = list(c16.CP2K_ELEMENTS) + ["Xx", "", "h", "HYDROGEN"] + (sorted(PERIODIC_TABLE)[:30] if not ctx.quick else [])
    for k, el in enumerate(names):
        try:
            got = float(guess_particle_mass(k, el))
        except ValueError:
            got = "err:value"
        except Exception as ex:  # noqa: BLE001
            got = err_kind(ex)
        ctx.count(1, branch="helpers:guess_particle_mass")
        entry = PERIODIC_TABLE.get(el)
        # independent of the code's constant: electron masses per u from CODATA m_e/u
        if entry is not None and (got == "err:value" or abs(got / (float(entry) / float(c16.ME_IN_U)) - 1.0) > 2.3e-10):
            c16._report(ctx, "C16:cp2k:mass", f"guess_particle_mass({el!r}) = {got!r}, table mass {entry} u is "
                        f"{float(entry) / float(c16.ME_IN_U)!r} electron masses", {"check": "gmass", "element": el})
        if ctx._driver_ok:
            ans = ctx.driver([f"gmass {'-' if entry is None else frac_token(float(entry))}"])[0]
            ok = (got == ans) if ans.startswith("err") else (got != "err:value" and c16.close(got, Fraction(ans), 1e-14))
            if not ok:
                ctx.disagree({"fn": "guess_particle_mass", "element": el}, got, ans)
    # CP2K constructor: the temperature of cp2k.inp must equal the engine's (velocities are drawn at the .toml one)
    import contextlib
    import io
    for T_inp, T_eng, want in ((300, 300, "ok"), (300, 310, "err:value"), (77.5, 77.5, "ok"), (300, 299.999, "err:value")):
        case_c = c16.gen_case(rng, "cp2k", 2, T_inp, None, "cp2k-temperature")
        d = work / "in_cp2kT"
        if d.exists():
            shutil.rmtree(d)
        d.mkdir()
        inp = (c16.EX / "cp2k/H2/cp2k_input/cp2k.inp").read_text().replace("TEMPERATURE 300", f"TEMPERATURE {T_inp!r}")
        (d / "cp2k.inp").write_text(inp)
        (d / "initial.xyz").write_text("2\n# initial\nH 0.0 0.0 0.0\nH 1.0 0.0 0.0\n")
        try:
            with contextlib.redirect_stdout(io.StringIO()):
                mods["CP2KEngine"]("cp2k", str(d.resolve()), 1, 1, T_eng)
            got = "ok"
        except ValueError:
            got = "err:value"
        except Exception as ex:  # noqa: BLE001
            got = err_kind(ex)
        ctx.count(1, branch="helpers:cp2k-temperature-check")
        if got != want:
            c16._report(ctx, "C16:cp2k:temperature-check", f"CP2KEngine with TEMPERATURE {T_inp} in cp2k.inp and temperature "
                        f"{T_eng} in the settings: {got} (the velocities would be drawn at {T_eng} K for a {T_inp} K run)",
                        {"check": "cp2k-temperature", "T_inp": T_inp, "T_eng": T_eng, "case": case_c})


def replay_helper(ctx, c16, mods, r, obj):
    if r.get("check") == "gmass":
        from infretis.classes.engines.cp2k import guess_particle_mass
        from infretis.classes.engines.engineparts import PERIODIC_TABLE
        entry = PERIODIC_TABLE.get(r["element"])
        try:
            got = float(guess_particle_mass(0, r["element"]))
            bad = entry is None or abs(got / (float(entry) / float(c16.ME_IN_U)) - 1.0) > 2.3e-10
        except ValueError:
            got, bad = "ValueError", entry is not None
        print("guess_particle_mass(", r["element"], ") =", got, "| still failing:", bad)
        return 1 if bad else 0
    if r.get("check") == "cp2k-temperature":
        import contextlib
        import io
        import tempfile
        d = tempfile.mkdtemp(prefix="c16-replay-", dir="/var/tmp")
        try:
            inp = (c16.EX / "cp2k/H2/cp2k_input/cp2k.inp").read_text().replace("TEMPERATURE 300", f"TEMPERATURE {r['T_inp']!r}")
            with open(os.path.join(d, "cp2k.inp"), "w") as fh:
                fh.write(inp)
            with open(os.path.join(d, "initial.xyz"), "w") as fh:
                fh.write("2\n# initial\nH 0.0 0.0 0.0\nH 1.0 0.0 0.0\n")
            try:
                with contextlib.redirect_stdout(io.StringIO()):
                    mods["CP2KEngine"]("cp2k", d, 1, 1, r["T_eng"])
                got = "ok"
            except ValueError:
                got = "err:value"
            want = "ok" if r["T_inp"] == r["T_eng"] else "err:value"
            print("CP2KEngine temperature check:", got, "| wanted:", want)
            return 0 if got == want else 1
        finally:
            shutil.rmtree(d, ignore_errors=True)
    obs = run_helper_case(mods, r)
    failed = [sig for sig, _ in judge_helper(r, obs)]
    print("signatures failing now:", sorted(set(failed)), "| recorded:", obj.get("signature"))
    return 1 if obj.get("signature") in failed or (failed and obj.get("signature") is None) else 0


def projected_moment_check(ctx, c16, mods, work):
    """supporting evidence only (thorough tier): with zero momentum ON, real numpy draws per engine; per atom
    ⟨m v²⟩/(k_BT) against the proved (1 − mᵢ/M) (Props §9 `projected_component_variance`) in a 6σ band, and the sum over
    atoms against N − 1 (`projected_mv2_per_direction`)"""
    import math
    res = {}
    for eng in c16.ENGINES:
        case = c16.gen_case(ctx.rng, eng, 4, 300, True, "plain")
        case.pop("mass_dtype", None)
        if eng != "cp2k":
            case["masses"] = [1.008, 12.011, 15.999, 1.008]
            if eng == "lammps":
                types = sorted(set(case["masses"]))
                case["types"] = [types.index(m) + 1 for m in case["masses"]]
        e = c16.build_engine(mods, work, case)
        src = work / f"src_{eng}.{c16.EXT[eng]}"
        c16.write_source(case, src)
        e.rgen = np.random.default_rng(ctx.seed + 17)
        mu = np.array([float(x) for x in c16.masses_as_given(case)])
        M = float(mu.sum())
        sd = np.array([math.sqrt(float(c16.kT_units(eng, 300, m))) for m in mu]).reshape(-1, 1)
        acc = np.zeros(4)
        reps = 5000
        for _ in range(reps):
            s_ = mods["System"]()
            s_.set_pos((str(src), 0 if eng == "gromacs" else case["idx"]))
            s_.ekin = 1.0
            e.modify_velocities(s_, {"zero_momentum": True})
            x = c16.parse_frame(eng, s_.config[0], 4)["vel"] / sd
            acc += (x * x).sum(axis=1)
        N = reps * 3
        meas = acc / N
        pred = 1.0 - mu / M
        band = 6 * math.sqrt(2.0 / N)
        res[eng] = {"draws_per_atom": N, "measured_mv2_over_kT": [float(v) for v in meas],
                    "proved_1_minus_m_over_M": [float(v) for v in pred],
                    "within_6sigma": [bool(abs(a - b) <= band * max(b, 1e-9) + 1e-5) for a, b in zip(meas, pred)],
                    "sum_over_atoms": float(meas.sum()), "proved_sum": 3.0}
    ctx.extra["projected_moment_check_supporting_evidence"] = res


def replay_route(ctx, c16, mods, work, r, obj):
    rc = _copy.deepcopy(r)
    obs = run_route_case(c16, mods, work, rc)
    failed = [sig for sig, _ in judge_route(c16, rc, obs)]
    if obs["err"] and not rc.get("malformed"):
        failed.append(f"C16:{rc['engine']}:raises")
    print("signatures failing now:", sorted(set(failed)), "| recorded:", obj.get("signature"))
    for rec in obs["records"][:3]:
        print("  handed to modify_velocities:", rec["settings"])
    return 1 if obj.get("signature") in failed or (failed and obj.get("signature") is None) else 0


ASSUMPTIONS = [
    "settings routing: `tis_set` is the only velocity-settings object of the library and `prepare_shooting_point` the only "
    "call site of modify_velocities (grep); model `VelRoute.routeSettings` mirrors shoot / wire_fencing / zero swaps as "
    "they are — wire fencing writes `allowmaxlength = True` into the ensemble's own tis_set (alias), so that key is "
    "exempt from `route-settings` on the wf route; settings values are toml scalars (bool/int/float/str) or None",
    "routes on GROMACS/CP2K/LAMMPS/ASE run the real shoot / wire_fencing / retis_swap_zero / select_shoot with the real "
    "modify_velocities, dump_frame, calculate_order of the engine; only `propagate` (external MD program) is a stub that "
    "ends the trajectory at once (status BTL / NSG); TurtleMD runs everything for real (Lennard-Jones, 2–3 particles)",
]
