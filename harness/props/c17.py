"""C17 — exactly the requested number of moves runs; each result is consumed once.

Scheduler half: the REAL `infretis.scheduler.scheduler()` function runs with `setup_internal` /
`setup_runner` replaced by a harness-built REPEX_state (repex_tie.Sim: scripted random outcomes) and a
synchronous runner whose completion order is chosen by the check's PRNG.  Every initiate / loop /
prep_md_items / treat_output call is mirrored to the Lean state machine (drv_c17) and compared; the
property predicates (moves completed = steps − cstep₀, restart cstep = completed moves, no job left in
flight, every submitted unit consumed exactly once, continue with a larger step count) are evaluated
directly on what the real code did and wrote (restart.toml).
Runner half: trace validation of the real aiorunner (props/c17_runner.py).
"""
from __future__ import annotations

import copy
import os
import random

import repex_tie as T
from common import err_kind, frac_token, lst


class Crash(Exception):
    pass


class Fut:
    def __init__(self, md):
        self.md = md

    def result(self):
        return self.md


def run_real_scheduler(ctx, n_ens, workers, steps, seed, rng, image=None, weights=None, crash_after=None, wf=False,
                       screen=0):
    """one run of the real scheduler(); returns dict with the Sim, counts and what is on disk"""
    import infretis.scheduler as S
    cstep0 = 0 if image is None else image["cstep"]
    sim = T.Sim(ctx, n_ens, workers, steps, seed=seed, wf=wf, rng=rng, cstep=cstep0, image=image, screen=screen)
    st = sim.st
    rec = {"submitted": 0, "treated": 0, "consumed_ids": [], "submitted_ids": [], "stop_calls": 0,
           "inflight_after": [], "error": None, "restart_lag": []}
    try:
        if image is None:
            sim.load_initial()
        else:
            sim.load_initial([T.FakePath(pn, weights[pn]) for pn in image["active"]],
                             {int(k): [float(x) for x in v] for k, v in image["frac"].items()})
        sim.op_dump()
        futures = []

        class Runner:
            def submit_work(self, md):
                rec["submitted"] += 1
                md["_uid"] = rec["submitted"]
                rec["submitted_ids"].append(md["_uid"])
                status = "ACC" if rng.random() < 0.7 else "REJ"
                ws = sim.random_new_weights(md, rng)
                md["_verif"] = (status, ws)
                return Fut(md)

            def stop(self):
                rec["stop_calls"] += 1

        class Futures:
            def add(self, f):
                futures.append(f)

            def as_completed(self):
                if not futures:
                    return None
                return futures.pop(rng.randrange(len(futures)))

        o_init, o_loop, o_prep, o_treat = st.initiate, st.loop, st.prep_md_items, st.treat_output

        def w_init():
            b = o_init()
            sim.emit("initiate", f"{str(bool(b)).lower()} cworker={st.cworker if st.cworker is not None else 0} toinit={st.toinitiate}", "initiate")
            return b

        def w_loop():
            b = o_loop()
            sim.emit("loop", f"{str(bool(b)).lower()} cstep={st.cstep}", "loop")
            return b

        def w_prep(md):
            # Sim.op_prep calls st.prep_md_items: give it the original for the duration of the call
            st.prep_md_items = o_prep
            try:
                out = sim.op_prep(md)
            finally:
                st.prep_md_items = w_prep
            sim.op_dump()
            return out

        def w_treat(md):
            status, ws = md.pop("_verif")
            rec["consumed_ids"].append(md.get("_uid"))
            st.treat_output = o_treat
            try:
                out = sim.op_treat(md, status, ws)
            finally:
                st.treat_output = w_treat
            rec["treated"] += 1
            sim.op_dump()
            # "the step counter in the restart file equals the number of completed moves": after EVERY completed
            # move, whatever the screen-output frequency — this is the file a killed run restarts from
            try:
                on_disk = T.read_image(sim.tmp)["cstep"]
            except FileNotFoundError:
                on_disk = None
            if on_disk != st.cstep:
                rec["restart_lag"].append((st.cstep, on_disk))
            rec["inflight_after"].append((st.cstep, len(futures)))
            if crash_after is not None and st.cstep >= crash_after:
                raise Crash()
            return out

        st.initiate, st.loop, st.prep_md_items, st.treat_output = w_init, w_loop, w_prep, w_treat
        base = {"mc_moves": st.mc_moves, "interfaces": st.interfaces, "cap": None}
        s_int, s_run = S.setup_internal, S.setup_runner
        S.setup_internal = lambda config: (copy.deepcopy(base), st)
        runner = Runner()
        S.setup_runner = lambda state: (runner, Futures())
        try:
            S.scheduler(sim.cfg)
            rec["finished"] = True
        except Crash:
            rec["finished"] = False
        finally:
            S.setup_internal, S.setup_runner = s_int, s_run
        rec["unconsumed"] = len(futures)
        rec["cstep"] = st.cstep
        rec["locked_mem"] = [(list(t[0]), list(t[1])) for t in st.locked]
        rec["image"] = T.read_image(sim.tmp) if os.path.exists(os.path.join(sim.tmp, "restart.toml")) else None
        rec["weights"] = {pn: v["weights"] for pn, v in st.traj_data.items()}
    except Exception as e:  # noqa: BLE001
        rec["error"] = e
    finally:
        sim.close()
    rec["sim"] = sim
    rec["cstep0"] = cstep0
    return rec


def judge(ctx, rec, label, workers, steps, final=True):
    rep = {"scenario": label, "ctxseed": ctx.seed}
    if rec["error"] is not None:
        ctx.fail("C17:scheduler-raised", f"{type(rec['error']).__name__}: {rec['error']}", rep)
        return
    c0 = rec["cstep0"]
    if rec.get("restart_lag"):
        c, d = rec["restart_lag"][0]
        ctx.fail("C17:restart-cstep-lags-completed-moves",
                 f"after the move that made cstep {c} the restart file says {d} ({len(rec['restart_lag'])} such moves)", rep)
    if not rec.get("finished"):
        return
    want = max(0, steps - c0)
    if rec["treated"] != want:
        ctx.fail("C17:wrong-number-of-moves", f"{rec['treated']} moves completed, steps={steps}, start cstep={c0}", rep)
    if rec["cstep"] != max(steps, c0):
        ctx.fail("C17:final-cstep", f"cstep {rec['cstep']} after a finished run to {steps} from {c0}", rep)
    im = rec["image"]
    if im is None:
        if want > 0:
            ctx.fail("C17:no-restart-file", "finished run wrote no restart.toml", rep)
    else:
        if im["cstep"] != rec["cstep"]:
            ctx.fail("C17:restart-cstep", f"restart.toml cstep {im['cstep']} vs completed {rec['cstep']}", rep)
        if im.get("locked"):
            ctx.fail("C17:short-restart:job-left-in-flight",
                     f"finished run lists jobs in flight: {im['locked']}", rep)
    if rec["locked_mem"]:
        ctx.fail("C17:short-restart:job-left-in-flight", f"finished run holds jobs in flight: {rec['locked_mem']}", rep)
    if rec["unconsumed"] or sorted(rec["consumed_ids"]) != sorted(rec["submitted_ids"]):
        ctx.fail("C17:submitted-unit-not-consumed-once",
                 f"submitted {rec['submitted_ids']}, consumed {rec['consumed_ids']}, left {rec['unconsumed']}", rep)
    if len(set(rec["consumed_ids"])) != len(rec["consumed_ids"]):
        ctx.fail("C17:result-consumed-twice", f"{rec['consumed_ids']}", rep)
    if rec["stop_calls"] != 1:
        ctx.fail("C17:runner-stop-calls", f"runner.stop() called {rec['stop_calls']} times", rep)
    for (c, nfut) in rec["inflight_after"]:
        # after treat_output at cstep c (before the resubmission): one job consumed
        if nfut > workers:
            ctx.fail("C17:more-jobs-than-workers", f"{nfut} futures at cstep {c}", rep)


def scenario(ctx, n_ens, workers, chain, seed, with_model, outs):
    """chain = [(steps, crash_after or None), …]: successive process lives on the same directory state"""
    label = f"n_ens={n_ens} workers={workers} chain={chain} seed={seed} ctxseed={ctx.seed}"
    rng = random.Random(label)
    image = weights = None
    screen = rng.choice((0, 1, 1, 3, 4))      # output frequency of the run: must not matter for the restart file
    for life, (steps, crash_after) in enumerate(chain):
        rec = run_real_scheduler(ctx, n_ens, workers, steps, seed, rng, image=image, weights=weights,
                                 crash_after=crash_after, screen=screen)
        ctx.hit(f"screen={screen}")
        ctx.count(1, life=life, workers=workers, kind=("crash" if crash_after else "finish"))
        ctx.distinct((n_ens, workers, tuple(chain[: life + 1]), seed))
        judge(ctx, rec, f"{label} life={life}", workers, steps)
        if with_model and rec["error"] is None:
            outs.append((rec["sim"], f"{label} life={life}"))
        if rec["error"] is not None or rec.get("image") is None:
            if rec.get("image") is None and life + 1 < len(chain) and rec["error"] is None and rec["treated"] == 0:
                continue
            break
        image, weights = rec["image"], rec["weights"]
    return label


def setup_config_rule(ctx):
    """restart stop rule on the real setup_config: continue iff steps are left"""
    import tempfile
    import shutil
    import tomli_w
    from infretis.setup import setup_config
    tmp = tempfile.mkdtemp(prefix="vp-c17-", dir="/var/tmp")
    cwd = os.getcwd()
    os.chdir(tmp)
    try:
        for i in range(3):
            os.makedirs(f"load/{i}", exist_ok=True)
            open(f"load/{i}/traj.txt", "w").write("x")
        for (cstep, rfrom, steps) in [(5, 5, 9), (5, 5, 5), (5, 3, 9), (5, None, 9), (5, 3, 5), (0, 0, 4)]:
            cfg = {"runner": {"workers": 1},
                   "simulation": {"interfaces": [0.0, 1.0, 2.0], "steps": steps, "seed": 0,
                                  "shooting_moves": ["sh", "sh", "sh"], "load_dir": "load", "tis_set": {"maxlength": 100}},
                   "engine": {"class": "turtlemd", "engine": "turtlemd"}, "output": {"data_dir": "./", "screen": 1},
                   "current": {"cstep": cstep, "active": [0, 1, 2], "locked": [], "size": 3, "traj_num": 7, "frac": {}}}
            if rfrom is not None:
                cfg["current"]["restarted_from"] = rfrom
            with open("restart.toml", "wb") as fh:
                tomli_w.dump(cfg, fh)
            try:
                out = setup_config("restart.toml")
                got = "refuses" if out is None else "continues"
            except Exception as e:  # noqa: BLE001
                got = err_kind(e)
            ctx.count(1, kind="setup_config_rule")
            if steps > cstep and got != "continues":
                ctx.fail("C17:larger-step-count-refused",
                         f"restart.toml with cstep={cstep}, restarted_from={rfrom}, steps={steps}: setup_config {got}",
                         {"cstep": cstep, "restarted_from": rfrom, "steps": steps})
    finally:
        os.chdir(cwd)
        shutil.rmtree(tmp, ignore_errors=True)


def run(ctx):
    rng = ctx.rng
    ctx.rule = ("scenarios = chains of process lives of the REAL scheduler() on one state directory: (workers 1..4, "
                "steps up to 10, finish or crash after a given step, then restart with the same / a larger / a barely "
                "larger step count incl. fewer remaining steps than workers); random completion order, accept/reject and "
                "pick outcomes; plus the runner's trace validation; distinct = distinct (ensembles, workers, chain, seed)")
    outs = []
    plans = []
    for n_ens in (3, 4, 5):
        for w in range(1, min(4, n_ens - 1) + 1):
            s1 = rng.randint(w, 7)
            plans.append((n_ens, w, [(s1, None)]))
            plans.append((n_ens, w, [(s1, None), (s1 + rng.randint(1, 4), None)]))                  # continue with larger count
            plans.append((n_ens, w, [(s1, None), (s1 + 1, None)]))                                   # fewer steps left than workers
            plans.append((n_ens, w, [(s1, None), (s1, None), (s1 + 2, None)]))                       # no-op restart, then larger
            k = rng.randint(1, max(1, s1 - 1))
            plans.append((n_ens, w, [(s1 + 3, k), (s1 + 3, None)]))                                  # crash with jobs in flight
            plans.append((n_ens, w, [(s1 + 3, k), (k + 1, None)]))                                   # crash, restart with 1 step left
            if not ctx.quick:
                for _ in range(4):
                    a = rng.randint(w, 8)
                    plans.append((n_ens, w, [(a + 4, rng.randint(1, a)), (a + 4, rng.randint(a, a + 2)), (a + 6, None)]))
    for (n_ens, w, chain) in plans:
        scenario(ctx, n_ens, w, chain, rng.randint(0, 3), ctx._driver_ok, outs)
    for sim, label in outs:
        T.compare(ctx, sim, ctx.driver(sim.lines), label)
    setup_config_rule(ctx)
    if plans:
        ctx.sample({"scenario": {"n_ens": plans[2][0], "workers": plans[2][1], "chain": plans[2][2]}})
    if outs:
        ctx.sample({"mirrored_ops_of_one_life": outs[-1][0].lines[:14]})
    # runner half
    try:
        from props import c17_runner
        c17_runner.run_runner(ctx)
    except ImportError as e:  # pragma: no cover
        ctx.extra["runner_half"] = f"not available: {e}"
    for a in [
        "scheduler half: setup_internal/setup_runner are replaced from outside; the MD move is its outcome",
        "asyncio / ProcessPoolExecutor internals are not modelled (runner half is trace validation: partial)",
    ]:
        if a not in ctx.assumptions:
            ctx.assumptions.append(a)


def replay(ctx, obj):
    sig = obj.get("signature", "")
    if sig.startswith("C17:runner:"):
        from props import c17_runner
        return c17_runner.replay_runner(ctx, obj)
    r = obj.get("replay", {})
    if "steps" in r and "cstep" in r:
        setup_config_rule(ctx)
        return 1 if ctx.fails else 0
    print("replay by re-running the scenario:", r.get("scenario"))
    import re
    m = re.match(r"n_ens=(\d+) workers=(\d+) chain=(\[.*\]) seed=(\d+) ctxseed=(\d+)", r.get("scenario", ""))
    if not m:
        return 1
    ctx.seed = int(m.group(5))
    scenario(ctx, int(m.group(1)), int(m.group(2)), eval(m.group(3)), int(m.group(4)), False, [])  # noqa: S307
    for f in ctx.fails:
        print("still fails:", f["signature"], f["what"])
    return 1 if ctx.fails else 0
