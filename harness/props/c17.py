"""C17 — exactly the requested number of moves runs; each result is consumed once.

Scheduler half: the REAL `infretis.scheduler.scheduler()` function runs with `setup_internal` /
`setup_runner` replaced by a harness-built REPEX_state (repex_tie.Sim: scripted random outcomes) and a
synchronous runner whose completion order is chosen by the check's PRNG.  Every initiate / loop /
prep_md_items / treat_output call is mirrored to the Lean state machine (drv_c17) and compared; the
property predicates (moves completed = steps − cstep₀, restart cstep = completed moves, no job left in
flight, every submitted unit consumed exactly once, continue with a larger step count) are evaluated
directly on what the real code did and wrote (restart.toml).
Runner half: trace validation of the real aiorunner (props/c17_runner.py).
"""
from __future__ import annotations

import copy
import os
import random

import repex_tie as T
from common import err_kind, frac_token, lst


class Crash(Exception):
    """the process life ends here (kill / wall-time limit)"""


class UnitFailed(Crash):
    """a work unit raised: the exception travels through the future, `future.result()` re-raises it and
    `scheduler()` (which catches nothing) dies with it"""


def crash_kind(crash):
    if crash is None:
        return "finish"
    if isinstance(crash, int):
        return "crash-after-step"
    return f"crash-{crash[0]}"


def run_real_scheduler(ctx, n_ens, workers, steps, seed, rng, image=None, weights=None, crash_after=None, wf=False,
                       screen=0):
    """one run of the real scheduler(); returns dict with the Sim, counts and what is on disk"""
    import infretis.scheduler as S
    cstep0 = 0 if image is None else image["cstep"]
    sim = T.Sim(ctx, n_ens, workers, steps, seed=seed, wf=wf, rng=rng, cstep=cstep0, image=image, screen=screen)
    st = sim.st
    rec = {"submitted": 0, "treated": 0, "consumed_ids": [], "submitted_ids": [], "stop_calls": 0,
           "inflight_after": [], "error": None, "restart_lag": [], "disk_bad": [], "disk_probes": 0, "writes": 0,
           "waits": 0, "died_in": None, "events": []}
    in_treat = [False]
    # crash_after: None | k (die right after the move that made cstep k) | ("wait", j) (killed while blocked in the
    # j-th as_completed() of this life) | ("unit", j) (the j-th unit submitted in this life raises: future.result())
    crash_step = crash_after if isinstance(crash_after, int) else None
    crash_wait = crash_after[1] if isinstance(crash_after, tuple) and crash_after[0] == "wait" else None
    crash_unit = crash_after[1] if isinstance(crash_after, tuple) and crash_after[0] == "unit" else None

    def disk_cstep():
        """cstep of the restart file a restart would read now (a restarted life that has not written yet: its image)"""
        fn = os.path.join(sim.tmp, "restart.toml")
        if os.path.exists(fn):
            try:
                return T.read_image(sim.tmp)["cstep"]
            except Exception as e:  # noqa: BLE001  unreadable file: not a number
                return f"unreadable:{type(e).__name__}"
        return cstep0 if image is not None else None

    sd = {"pend": None, "last_k": None, "last_prep": None, "main": False, "on": False}

    def disk_state():
        """`<cstep>:<number of locked entries>` of the restart file a restart would read now, `-` = none"""
        fn = os.path.join(sim.tmp, "restart.toml")
        if os.path.exists(fn):
            try:
                cur = T.read_image(sim.tmp)
                return f"{cur['cstep']}:{len(cur.get('locked', []))}"
            except Exception as e:  # noqa: BLE001
                return f"unreadable:{type(e).__name__}"
        if image is not None:
            return f"{cstep0}:{len(image.get('locked', []))}"
        return "-"

    def sd_real(phase):
        """what the REAL scheduler life looks like now, in the format of the driver's `sd-` answers"""
        mid = st.cstep - (cstep0 + rec["treated"])
        return (f"ok phase={phase} cstep={st.cstep} jobs={len(futures)} locked={len(st.locked)} disk={disk_state()} "
                f"writes={rec['writes']} stops={rec['stop_calls']} mid={mid}")

    def sd_emit(ev, phase="running"):
        """one whole scheduler-level event for `SchedDisk.dstep` (the composed function of the theorems), with the
        real state after it"""
        if sd["on"]:
            sim.emit("sd-ev " + ev, sd_real(phase), "sd")
            rec["sd_events"] = rec.get("sd_events", 0) + 1

    def sd_flush(prep=None):
        """the iteration of the main loop that consumed a result is over (re-submitted or not)"""
        pd = sd["pend"]
        if pd is None:
            return
        sd["pend"] = None
        t, e_, coin, partner = (prep[2:6] if prep else ("0", "0", "0", "0"))
        sd_emit(f"step {pd['k']} {pd['status']} {t} {e_} {coin} {partner} {pd['ws']}")

    def ws_tokens(status, ws, n_picked):
        w2 = ws if status == "ACC" else [[] for _ in range(n_picked)]
        return (f"{len(w2)} " + " ".join(lst(w, frac_token) for w in w2)).rstrip()

    def probe(where):
        """"the step counter in the restart file equals the number of completed moves" — evaluated wherever the code
        hands control to the outside (submit, wait for a result, result(), stop) and at every write of the file"""
        rec["disk_probes"] += 1
        d = disk_cstep()
        done = cstep0 + rec["treated"] + (1 if in_treat[0] else 0)
        rec["events"].append((where, d))
        if d is None:
            ok = rec["treated"] == 0 and not in_treat[0]
        else:
            ok = d == done
        if not ok and len(rec["disk_bad"]) < 5:
            rec["disk_bad"].append((where, d, done))
    try:
        if image is None:
            sim.load_initial()
        else:
            sim.load_initial([T.FakePath(pn, weights[pn]) for pn in image["active"]],
                             {int(k): [float(x) for x in v] for k, v in image["frac"].items()})
        sim.op_dump()
        futures = []
        sd["on"] = True
        sim.emit("sd-begin " + ("-" if image is None else str(cstep0)), sd_real("running"), "sd")

        class Fut:
            def __init__(self, md):
                self.md = md

            def result(self):
                probe("result")
                if crash_unit is not None and self.md.get("_uid") == crash_unit:
                    rec["died_in"] = "unit"
                    raise UnitFailed(f"work unit {crash_unit} failed")
                return self.md

        class Runner:
            def submit_work(self, md):
                probe("submit")
                rec["submitted"] += 1
                md["_uid"] = rec["submitted"]
                rec["submitted_ids"].append(md["_uid"])
                status = "ACC" if rng.random() < 0.7 else "REJ"
                ws = sim.random_new_weights(md, rng)
                md["_verif"] = (status, ws)
                return Fut(md)

            def stop(self):
                probe("stop")
                rec["stop_calls"] += 1

        class Futures:
            def add(self, f):
                futures.append(f)
                pr = sd["last_prep"]
                sd["last_prep"] = None
                if not sd["main"]:
                    sd_emit("start " + " ".join(pr[2:7]) if pr else "start ? ? ? ? ?")
                else:
                    sd_flush(pr)

            def as_completed(self):
                # the scheduler blocks here until a result is in: a kill / a failing unit ends the life in this window
                rec["waits"] += 1
                probe("wait")
                if crash_wait is not None and rec["waits"] >= crash_wait:
                    rec["died_in"] = "wait"
                    raise Crash()
                if not futures:
                    return None
                k = rng.randrange(len(futures))
                sd["last_k"] = k
                return futures.pop(k)

        o_init, o_loop, o_prep, o_treat = st.initiate, st.loop, st.prep_md_items, st.treat_output
        o_write = st.write_toml

        def w_write():
            out = o_write()
            rec["writes"] += 1
            probe("write_toml")
            return out

        def w_init():
            b = o_init()
            sim.emit("initiate", f"{str(bool(b)).lower()} cworker={st.cworker if st.cworker is not None else 0} toinit={st.toinitiate}", "initiate")
            if not b:
                sd_emit("initdone")
                sd["main"] = True
            return b

        def w_loop():
            sd_flush()
            b = o_loop()
            sim.emit("loop", f"{str(bool(b)).lower()} cstep={st.cstep}", "loop")
            return b

        def w_prep(md):
            # Sim.op_prep calls st.prep_md_items: give it the original for the duration of the call
            st.prep_md_items = o_prep
            try:
                out = sim.op_prep(md)
                sd["last_prep"] = sim.lines[-1].split()      # prep <pin|-> t e coin partner saved
            finally:
                st.prep_md_items = w_prep
            sim.op_dump()
            return out

        def w_treat(md):
            status, ws = md.pop("_verif")
            rec["consumed_ids"].append(md.get("_uid"))
            wtok = ws_tokens(status, ws, len(md["picked"]))
            st.treat_output = o_treat
            in_treat[0] = True
            try:
                out = sim.op_treat(md, status, ws)
            finally:
                st.treat_output = w_treat
                in_treat[0] = False
            rec["treated"] += 1
            sd["pend"] = {"k": sd["last_k"], "status": status, "ws": wtok}
            probe("treated")
            sim.op_dump()
            # "the step counter in the restart file equals the number of completed moves": after EVERY completed
            # move, whatever the screen-output frequency — this is the file a killed run restarts from
            try:
                on_disk = T.read_image(sim.tmp)["cstep"]
            except FileNotFoundError:
                on_disk = None
            if on_disk != st.cstep:
                rec["restart_lag"].append((st.cstep, on_disk))
            rec["inflight_after"].append((st.cstep, len(futures)))
            if crash_step is not None and st.cstep >= crash_step:
                rec["died_in"] = "step"
                raise Crash()
            return out

        st.initiate, st.loop, st.prep_md_items, st.treat_output = w_init, w_loop, w_prep, w_treat
        st.write_toml = w_write
        base = {"mc_moves": st.mc_moves, "interfaces": st.interfaces, "cap": None}
        s_int, s_run = S.setup_internal, S.setup_runner
        S.setup_internal = lambda config: (copy.deepcopy(base), st)
        runner = Runner()
        S.setup_runner = lambda state: (runner, Futures())
        try:
            S.scheduler(sim.cfg)
            rec["finished"] = True
            sd_flush()
            sd_emit("finish", "stopped" if rec["stop_calls"] else "running")
        except Crash:
            rec["finished"] = False
            pd = sd["pend"]
            sd["pend"] = None
            if rec["died_in"] == "unit":
                sd_emit(f"unitfails {sd['last_k']}", "dead")
            elif rec["died_in"] == "wait":
                sd_emit("killedwaiting", "dead")
            elif rec["died_in"] == "step" and pd is not None:
                sd_emit(f"stepkilled {pd['k']} {pd['status']} {pd['ws']}", "dead")
        finally:
            S.setup_internal, S.setup_runner = s_int, s_run
        rec["unconsumed"] = len(futures)
        rec["cstep"] = st.cstep
        rec["locked_mem"] = [(list(t[0]), list(t[1])) for t in st.locked]
        probe("end-of-life")
        # what a restart of this directory reads: the file this life wrote, else the file it was started from
        if os.path.exists(os.path.join(sim.tmp, "restart.toml")):
            rec["image"] = T.read_image(sim.tmp)
            import tomli
            with open(os.path.join(sim.tmp, "restart.toml"), "rb") as fh:
                rec["restart_file"] = tomli.load(fh)          # the file as it is (restarted_from as the life wrote it)
        else:
            rec["image"] = copy.deepcopy(image) if image is not None else None
        rec["weights"] = {pn: v["weights"] for pn, v in st.traj_data.items()}
    except Exception as e:  # noqa: BLE001
        rec["error"] = e
    finally:
        sim.close()
    rec["sim"] = sim
    rec["cstep0"] = cstep0
    return rec


def judge(ctx, rec, label, workers, steps, final=True):
    rep = {"scenario": label, "ctxseed": ctx.seed}
    if rec["error"] is not None:
        ctx.fail("C17:scheduler-raised", f"{type(rec['error']).__name__}: {rec['error']}", rep)
        return
    c0 = rec["cstep0"]
    if rec.get("restart_lag"):
        c, d = rec["restart_lag"][0]
        ctx.fail("C17:restart-cstep-lags-completed-moves",
                 f"after the move that made cstep {c} the restart file says {d} ({len(rec['restart_lag'])} such moves)", rep)
    if rec.get("disk_bad"):
        where, d, done = rec["disk_bad"][0]
        ctx.fail("C17:restart-cstep-not-completed-moves",
                 f"at '{where}' the restart file says cstep {d} while {done} moves are completed "
                 f"(start cstep {c0} + {done - c0} results consumed in this life); first of {len(rec['disk_bad'])} such points: "
                 f"{rec['disk_bad']}", rep)
    if rec.get("died_in") == "unit" and rec.get("finished"):
        ctx.fail("C17:unit-exception-swallowed",
                 f"a unit's exception came out of future.result() and scheduler() went on and returned normally: "
                 f"{rec['treated']} moves completed, cstep {rec['cstep']} (a move was counted that never completed)", rep)
    if not rec.get("finished"):
        return
    want = max(0, steps - c0)
    if rec["treated"] != want:
        ctx.fail("C17:wrong-number-of-moves", f"{rec['treated']} moves completed, steps={steps}, start cstep={c0}", rep)
    if rec["cstep"] != max(steps, c0):
        ctx.fail("C17:final-cstep", f"cstep {rec['cstep']} after a finished run to {steps} from {c0}", rep)
    im = rec["image"]
    if im is None:
        if want > 0:
            ctx.fail("C17:no-restart-file", "finished run wrote no restart.toml", rep)
    else:
        if im["cstep"] != rec["cstep"]:
            ctx.fail("C17:restart-cstep", f"restart.toml cstep {im['cstep']} vs completed {rec['cstep']}", rep)
        if im.get("locked"):
            ctx.fail("C17:short-restart:job-left-in-flight",
                     f"finished run lists jobs in flight: {im['locked']}", rep)
    if rec["locked_mem"]:
        ctx.fail("C17:short-restart:job-left-in-flight", f"finished run holds jobs in flight: {rec['locked_mem']}", rep)
    if rec["unconsumed"] or sorted(rec["consumed_ids"]) != sorted(rec["submitted_ids"]):
        ctx.fail("C17:submitted-unit-not-consumed-once",
                 f"submitted {rec['submitted_ids']}, consumed {rec['consumed_ids']}, left {rec['unconsumed']}", rep)
    if len(set(rec["consumed_ids"])) != len(rec["consumed_ids"]):
        ctx.fail("C17:result-consumed-twice", f"{rec['consumed_ids']}", rep)
    if rec["stop_calls"] != 1:
        ctx.fail("C17:runner-stop-calls", f"runner.stop() called {rec['stop_calls']} times", rep)
    for (c, nfut) in rec["inflight_after"]:
        # after treat_output at cstep c (before the resubmission): one job consumed
        if nfut > workers:
            ctx.fail("C17:more-jobs-than-workers", f"{nfut} futures at cstep {c}", rep)


def setup_gate(restart_file, steps):
    """what the REAL setup_config decides for a restart of this directory with `steps` (the user edits
    simulation.steps in restart.toml and runs with -i restart.toml).  Returns ('refuses' | 'continues' |
    'continues-then-<error>', restarted_from it set)."""
    import shutil
    import tempfile
    import tomli_w
    from infretis.setup import setup_config
    cfg = copy.deepcopy(restart_file)
    cfg["simulation"]["steps"] = steps
    for ee in cfg["simulation"].get("ensemble_engines", []):
        for name in ee:
            cfg.setdefault(name, {"class": "turtlemd", "engine": "turtlemd"})
    tmp = tempfile.mkdtemp(prefix="vp-c17g-", dir="/var/tmp")
    cwd = os.getcwd()
    os.chdir(tmp)
    try:
        for act in cfg["current"]["active"]:
            os.makedirs(os.path.join(cfg["simulation"].get("load_dir", "trajs"), str(act)), exist_ok=True)
            with open(os.path.join(cfg["simulation"].get("load_dir", "trajs"), str(act), "traj.txt"), "w") as fh:
                fh.write("x")
        with open("restart.toml", "wb") as fh:
            tomli_w.dump(cfg, fh)
        try:
            out = setup_config("restart.toml")
        except Exception as e:  # noqa: BLE001  raised after the stop rule (check_config …): the rule let it pass
            return f"continues-then-{err_kind(e)}", None
        if out is None:
            return "refuses", None
        return "continues", out["current"].get("restarted_from")
    finally:
        os.chdir(cwd)
        shutil.rmtree(tmp, ignore_errors=True)


def scenario(ctx, n_ens, workers, chain, seed, with_model, outs):
    """chain = [(steps, crash_after or None), …]: successive process lives on the same directory state"""
    label = f"n_ens={n_ens} workers={workers} chain={chain} seed={seed} ctxseed={ctx.seed}"
    rng = random.Random(label)
    image = weights = None
    screen = rng.choice((0, 1, 1, 3, 4))      # output frequency of the run: must not matter for the restart file
    total = 0                                  # moves completed (results consumed) over all lives on this directory
    rfile = None                               # restart.toml as the last life that wrote it left it
    for life, (steps, crash_after) in enumerate(chain):
        if rfile is not None and image is not None:
            # a restarted life starts only if the REAL setup_config lets it: "restarting with a larger step count
            # continues from there", whatever restarted_from the previous lives left and however small the raise is
            gate, rf = setup_gate(rfile, steps)
            c_disk = rfile["current"]["cstep"]
            ctx.hit(f"setup-gate:{gate.split('-then-')[0]}:"
                    + ("raise<workers" if c_disk < steps < c_disk + workers else "raise>=workers" if steps > c_disk else "no-raise"))
            rep = {"scenario": label, "ctxseed": ctx.seed}
            if gate == "refuses":
                if steps > c_disk:
                    ctx.fail("C17:larger-step-count-refused",
                             f"life {life}: restart.toml has cstep={c_disk}, restarted_from={rfile['current'].get('restarted_from')}, "
                             f"workers={workers}; restarted with steps={steps}: setup_config returns None — no move runs, "
                             f"{steps - c_disk} moves are missing", rep)
                    break
                ctx.hit("setup-gate:refused-no-step-left")
                continue                         # legitimately refused: nothing runs, nothing is written
            if gate == "continues" and rf != c_disk:
                ctx.fail("C17:restarted-from-not-cstep", f"setup_config set restarted_from={rf}, file cstep={c_disk}", rep)
        rec = run_real_scheduler(ctx, n_ens, workers, steps, seed, rng, image=image, weights=weights,
                                 crash_after=crash_after, screen=screen)
        ctx.hit(f"screen={screen}")
        ctx.count(1, life=life, workers=workers, kind=("crash" if crash_after else "finish"))
        ctx.hit(f"life-end:{crash_kind(crash_after)}:{'died' if not rec.get('finished') else 'finished'}"
                + (f":in-{rec['died_in']}" if rec.get("died_in") else ""))
        ctx.distinct((n_ens, workers, tuple(chain[: life + 1]), seed))
        judge(ctx, rec, f"{label} life={life}", workers, steps)
        if rec["error"] is None:
            total += rec["treated"]
            rep = {"scenario": label, "ctxseed": ctx.seed}
            im = rec.get("image")
            # whatever way the life ended (finished, killed after a step, killed while waiting, a unit raised): the file a
            # restart reads counts exactly the moves completed so far on this directory
            if im is not None and im["cstep"] != total:
                ctx.fail("C17:restart-cstep-not-completed-moves",
                         f"after life {life} ({crash_kind(crash_after)}, died in {rec.get('died_in')}) the restart file says "
                         f"cstep {im['cstep']}; {total} moves were completed over lives 0..{life}", rep)
            if rec.get("finished") and total != max(steps, rec["cstep0"]):
                ctx.fail("C17:total-moves-over-lives",
                         f"run finished with steps={steps}: {total} moves completed over lives 0..{life} "
                         f"(this life started at cstep {rec['cstep0']} and completed {rec['treated']})", rep)
        if with_model and rec["error"] is None:
            outs.append((rec["sim"], f"{label} life={life}"))
        if rec["error"] is not None or rec.get("image") is None:
            if rec.get("image") is None and life + 1 < len(chain) and rec["error"] is None and rec["treated"] == 0:
                continue
            break
        image, weights = rec["image"], rec["weights"]
        rfile = rec.get("restart_file") or rfile
    return label


def setup_config_rule(ctx):
    """restart stop rule on the real setup_config: continue iff steps are left"""
    import tempfile
    import shutil
    import tomli_w
    from infretis.setup import setup_config
    tmp = tempfile.mkdtemp(prefix="vp-c17-", dir="/var/tmp")
    cwd = os.getcwd()
    os.chdir(tmp)
    try:
        for i in range(3):
            os.makedirs(f"load/{i}", exist_ok=True)
            open(f"load/{i}/traj.txt", "w").write("x")
        for (cstep, rfrom, steps) in [(5, 5, 9), (5, 5, 5), (5, 3, 9), (5, None, 9), (5, 3, 5), (0, 0, 4)]:
            cfg = {"runner": {"workers": 1},
                   "simulation": {"interfaces": [0.0, 1.0, 2.0], "steps": steps, "seed": 0,
                                  "shooting_moves": ["sh", "sh", "sh"], "load_dir": "load", "tis_set": {"maxlength": 100}},
                   "engine": {"class": "turtlemd", "engine": "turtlemd"}, "output": {"data_dir": "./", "screen": 1},
                   "current": {"cstep": cstep, "active": [0, 1, 2], "locked": [], "size": 3, "traj_num": 7, "frac": {}}}
            if rfrom is not None:
                cfg["current"]["restarted_from"] = rfrom
            with open("restart.toml", "wb") as fh:
                tomli_w.dump(cfg, fh)
            try:
                out = setup_config("restart.toml")
                got = "refuses" if out is None else "continues"
            except Exception as e:  # noqa: BLE001
                got = err_kind(e)
            ctx.count(1, kind="setup_config_rule")
            if steps > cstep and got != "continues":
                ctx.fail("C17:larger-step-count-refused",
                         f"restart.toml with cstep={cstep}, restarted_from={rfrom}, steps={steps}: setup_config {got}",
                         {"cstep": cstep, "restarted_from": rfrom, "steps": steps})
    finally:
        os.chdir(cwd)
        shutil.rmtree(tmp, ignore_errors=True)


def run(ctx):
    rng = ctx.rng
    ctx.rule = ("scenarios = chains of process lives of the REAL scheduler() on one state directory: (workers 1..4, "
                "steps up to 10, finish or crash after a given step, then restart with the same / a larger / a barely "
                "larger step count incl. fewer remaining steps than workers; lives also end WHILE WAITING for a result: killed "
                "in the j-th as_completed() or the u-th unit raises through future.result(), exhaustively in j,u for "
                "workers 1..2 and short runs; the restart file is read at every hand-back of control and after every "
                "write_toml and compared with the number of results consumed); random completion order, accept/reject and "
                "pick outcomes; plus the runner's trace validation; distinct = distinct (ensembles, workers, chain, seed)")
    outs = []
    plans = []
    for n_ens in (3, 4, 5):
        for w in range(1, min(4, n_ens - 1) + 1):
            s1 = rng.randint(w, 7)
            plans.append((n_ens, w, [(s1, None)]))
            plans.append((n_ens, w, [(s1, None), (s1 + rng.randint(1, 4), None)]))                  # continue with larger count
            plans.append((n_ens, w, [(s1, None), (s1 + 1, None)]))                                   # fewer steps left than workers
            plans.append((n_ens, w, [(s1, None), (s1, None), (s1 + 2, None)]))                       # no-op restart, then larger
            k = rng.randint(1, max(1, s1 - 1))
            plans.append((n_ens, w, [(s1 + 3, k), (s1 + 3, None)]))                                  # crash with jobs in flight
            plans.append((n_ens, w, [(s1 + 3, k), (k + 1, None)]))                                   # crash, restart with 1 step left
            # the life ends WHILE THE SCHEDULER WAITS for a result (not at a step boundary): killed in the j-th wait /
            # the u-th submitted unit raises (delivered by future.result(), scheduler() dies); then restart
            j = rng.randint(1, s1 + 2)
            plans.append((n_ens, w, [(s1 + 3, ("wait", j)), (s1 + 3, None)]))
            u = rng.randint(1, s1 + 2)
            plans.append((n_ens, w, [(s1 + 3, ("unit", u)), (s1 + 3 + rng.randint(0, 2), None)]))
            plans.append((n_ens, w, [(s1 + 3, ("unit", rng.randint(1, w))), (s1 + 3, ("wait", rng.randint(1, 3))),
                                     (s1 + 4, None)]))                                         # dies twice, the first time early
            if not ctx.quick:
                for _ in range(4):
                    a = rng.randint(w, 8)
                    plans.append((n_ens, w, [(a + 4, rng.randint(1, a)), (a + 4, rng.randint(a, a + 2)), (a + 6, None)]))
                for _ in range(4):
                    a = rng.randint(w, 8)
                    kinds = [rng.choice(("wait", "unit", "step")) for _ in range(3)]
                    ch = []
                    for kd in kinds:
                        pt = rng.randint(1, a + 3)
                        ch.append((a + 4, pt if kd == "step" else (kd, pt)))
                    plans.append((n_ens, w, ch + [(a + 4 + rng.randint(0, 3), None)]))
    # finish a run, start it again unchanged (the no-op restart writes restarted_from == cstep), then raise the step
    # count by d = 1 .. W+1: fewer than / exactly / more than the number of workers; every life passes the real setup_config
    for w in (2, 3):
        for n_ens in (w + 1, w + 2):
            for s0 in ((w, w + 2) if ctx.quick else (w, w + 1, w + 2, w + 4)):
                for d in range(1, w + 2):
                    plans.append((n_ens, w, [(s0, None), (s0, None), (s0 + d, None)]))
                plans.append((n_ens, w, [(s0, None), (s0, None), (s0, None), (s0 + 1, None)]))   # refused once, then raised
    # small scope, exhaustive in the death point: every wait and every unit of a short run
    for w in (1, 2):
        for steps in ((3, 4) if ctx.quick else (2, 3, 4, 5, 6)):
            for j in range(1, steps + 1):
                plans.append((3, w, [(steps, ("wait", j)), (steps, None)]))
            for u in range(1, steps + 1):
                plans.append((3, w, [(steps, ("unit", u)), (steps, None)]))
    for (n_ens, w, chain) in plans:
        scenario(ctx, n_ens, w, chain, rng.randint(0, 3), ctx._driver_ok, outs)
    for sim, label in outs:
        T.compare(ctx, sim, ctx.driver(sim.lines), label)
    setup_config_rule(ctx)
    from props import c17_sched
    c17_sched.setup_rule_grid(ctx)
    if plans:
        ctx.sample({"scenario": {"n_ens": plans[2][0], "workers": plans[2][1], "chain": plans[2][2]}})
    if outs:
        ctx.sample({"mirrored_ops_of_one_life": outs[-1][0].lines[:14]})
    # runner half, the runner's own code as a transition system (deterministic, in-process)
    from props import c17_sys
    c17_sys.run_sys(ctx)
    # runner half, failure classes `_task_wrapper` does not handle (SystemExit, CancelledError, … StopIteration)
    from props import c17_exc
    c17_exc.run_exc(ctx)
    # runner half, the real runtime: trace validation
    try:
        from props import c17_runner
        c17_runner.run_runner(ctx)
    except ImportError as e:  # pragma: no cover
        ctx.extra["runner_half"] = f"not available: {e}"
    for a in [
        "scheduler half: setup_internal/setup_runner are replaced from outside; the MD move is its outcome",
        "asyncio / ProcessPoolExecutor internals are not modelled (runner half is trace validation: partial)",
    ]:
        if a not in ctx.assumptions:
            ctx.assumptions.append(a)


def replay(ctx, obj):
    sig = obj.get("signature", "")
    if sig.startswith("C17:runner:unhandled"):
        from props import c17_exc
        return c17_exc.replay_exc(ctx, obj)
    if sig.startswith("C17:runner:"):
        from props import c17_runner
        return c17_runner.replay_runner(ctx, obj)
    if sig.startswith("C17:rsys:") or sig.startswith("C17:future_list:"):
        from props import c17_sys
        return c17_sys.replay_sys(ctx, obj)
    r = obj.get("replay", {})
    if "steps" in r and "cstep" in r:
        from props import c17_sched
        if c17_sched.replay_setup(ctx, r):
            return 1
        setup_config_rule(ctx)
        return 1 if ctx.fails else 0
    print("replay by re-running the scenario:", r.get("scenario"))
    import re
    m = re.match(r"n_ens=(\d+) workers=(\d+) chain=(\[.*\]) seed=(\d+) ctxseed=(\d+)", r.get("scenario", ""))
    if not m:
        return 1
    ctx.seed = int(m.group(5))
    scenario(ctx, int(m.group(1)), int(m.group(2)), eval(m.group(3)), int(m.group(4)), False, [])  # noqa: S307
    for f in ctx.fails:
        print("still fails:", f["signature"], f["what"])
    return 1 if ctx.fails else 0
