"""C17 (runner half) — the failure classes of a unit: every failure must reach the unit's future.

`_task_wrapper` catches `Exception` only; `_run_unit` (pool process) converts what asyncio cannot carry back —
`StopIteration`, `SystemExit` / `KeyboardInterrupt`, `asyncio.CancelledError`, any other non-`Exception` — into a
`RuntimeError`.  `Model/RunnerSysX.lean`: `xstep` = the code as it is (event `rf:<w>:<class>:<e>` = worker `w` is resumed
after the unit function raised class ord|stop|base|exit; theorems `xrun_refines`, `every_failure_delivered`), `AsIs.xstep`
= the RECORD of the code before that repair (theorem `base_exception_unit_lost`: such a unit is never delivered).

Here (a) the REAL `_task_wrapper` coroutines (and the real `_run_unit`, if the code has one) run under the simulated
runtime of c17_sys.py with units of every class and are compared after every event with BOTH models; the real code must
behave as ONE of them in every scenario (as the current model: silent; as the record: no model disagreement, the
predicate below fails; anything else or a mixture: disagreement); (b) the real aiorunner with the real asyncio / process
pool runs one such unit per class in a child interpreter (quick tier: two classes, thorough: all); (c) the property
predicate — every submitted unit's future becomes done with the unit's own result or an exception for its failure — is
evaluated on both: `C17:runner:unhandled-exception-class-never-delivered` (classes outside `Exception`, StopIteration;
known_findings.json decides KNOWN-FINDING vs VIOLATION), `C17:runner:exception-not-delivered` (ordinary exceptions).
"""
from __future__ import annotations

import asyncio
import importlib.util  # noqa: F401
import json
import os
import random
import re
import shutil
import signal
import subprocess
import sys
import tempfile

from props import c17_sys as S

SIG = "C17:runner:unhandled-exception-class-never-delivered"

KINDS = ("base", "cancel", "sysexit", "kbd", "stopiter")


class UnitBase(BaseException):
    """a failure that is not an `Exception`"""


class UnitError(Exception):
    """a failure of a class of its own (an `Exception`: must be delivered)"""


# failures `except Exception` catches: they must be delivered (signature SIG_IN is never pending)
IN_GUARD = ("value", "runtime", "oserror", "custom", "lookup")
SIG_IN = "C17:runner:exception-not-delivered"


def judge(ctx, sig, what, rep):
    ctx.fail(sig, what, rep)


def classify(exc):
    """failure class of what the unit function raised (tokens of RunnerSysXProto)"""
    if isinstance(exc, StopIteration):
        return "stop"
    if isinstance(exc, Exception):
        return "ord"
    if isinstance(exc, (SystemExit, KeyboardInterrupt)):
        return "exit"
    return "base"


CONVERTED = {"stop": 999001, "base": 999002, "exit": 999003}


def _raise(kind, u):
    if kind == "base":
        raise UnitBase(f"base {u}")
    if kind == "cancel":
        raise asyncio.CancelledError(f"cancel {u}")
    if kind == "sysexit":
        raise SystemExit(3)
    if kind == "kbd":
        raise KeyboardInterrupt()
    if kind == "stopiter":
        raise StopIteration(f"stop {u}")
    if kind == "runtime":
        raise RuntimeError(f"rt {u}")
    if kind == "oserror":
        raise FileNotFoundError(2, f"no such file {u}")
    if kind == "custom":
        raise UnitError(f"unit {u}")
    if kind == "lookup":
        raise KeyError(u)
    raise ValueError(f"boom {u}")


class XEnv(S.Env):
    """c17_sys.Env whose resume hands EVERY failure of the unit function to the real coroutine the way asyncio would"""

    loop_dead = False

    def live(self):
        if self.loop_dead:
            return []
        return [w for w in super().live() if not getattr(self.runner._tasks[w], "hung", False)]

    def resume(self, w):
        t = self.runner._tasks[w]
        tok = f"r:{w}"
        kills_loop = False
        try:
            if t.susp is not None and t.susp.kind == "exec":
                fn = t.susp.payload
                u = self.unit_of_partial(fn)
                try:
                    res, exc = fn(), None
                except BaseException as e:  # noqa: BLE001
                    res, exc = None, e
                if exc is None:
                    tok = f"r:{w}:ok:{S.ok_payload(res)}"
                    y = t.coro.send(res)
                else:
                    orig = self.raised.get(u, exc)           # what the unit FUNCTION raised (exc: what came out of the partial)
                    tok = f"rf:{w}:{classify(orig)}:{S.exc_payload(orig)}"
                    if isinstance(exc, StopIteration):
                        # asyncio cannot copy it into the awaited future (TypeError in the done-callback): never resumed
                        t.hung, t.hung_unit = True, u
                        return
                    kills_loop = isinstance(exc, (SystemExit, KeyboardInterrupt))
                    y = t.coro.throw(exc)
            else:
                y = t.coro.send(None)
            t.susp = y
            if isinstance(y, S.Susp) and y.kind == "exec":
                t.state = f"a{self.unit_of_partial(y.payload)}"
            else:
                t.state = "i"
        except StopIteration:
            t.state, t.susp = "e", None
        except BaseException as e:  # noqa: BLE001
            t.state, t.susp, t.exc = "c", None, e
            if kills_loop:
                # asyncio's Task.__step re-raises SystemExit / KeyboardInterrupt out of run_forever: the loop thread ends
                self.loop_dead = True
        self.log(tok)

    @staticmethod
    def fut_state(f):
        if not f.done():
            return "p"
        e = f.exception()
        if e is None:
            return f"ok:{S.ok_payload(f.result())}"
        c = e.__cause__
        if isinstance(e, RuntimeError) and c is not None and classify(c) != "ord" \
                and str(e) == f"unit raised {type(c).__name__}: {c}":
            return f"exc:{CONVERTED[classify(c)]}"           # the RuntimeError of `_run_unit`, with its own text
        return f"exc:{S.exc_payload(e)}"

    def digest(self):
        d = super().digest()
        d["loop"] = 1 if self.loop_dead else 0
        return d


def simulate(scen):
    import types
    import infretis.asyncrunner as AR
    import infretis.setup as SU
    rng = random.Random(scen["seed"])
    env = XEnv(rng, scen["nw"], 0.5)
    env.futs, env.delivered, env.none_returns, env.checks, env.stop_polls = {}, [], 0, 0, 0
    env.pending_ret = None
    env.raised = {}
    obs = {"status": "ok", "errors": []}
    saved = {k: getattr(AR, k) for k in ("asyncio", "concurrent", "threading", "time")}
    bad = dict(scen["bad"])            # unit -> kind

    def task_f(md):
        u = md["id"]
        env.ran[u] = env.ran.get(u, 0) + 1
        if u in bad:
            try:
                _raise(bad[u], u)
            except BaseException as e:  # noqa: BLE001
                env.raised[u] = e
                raise
        out = dict(md)
        out["out"] = 3 * u + 1
        return out
    try:
        for k, v in env.proxies().items():
            setattr(AR, k, v)
        st = types.SimpleNamespace(config={"runner": {"workers": scen["nw"]}})
        runner, env.flist = SU.setup_runner(st)
        env.runner = runner
        runner._task_f = task_f
        for u in range(scen["n"]):
            for _ in range(rng.randrange(3)):
                lv = env.live()
                if lv:
                    env.resume(rng.choice(lv))
            fut = runner.submit_work({"id": u})
            env.futs[u] = fut
            env.flist.add(S.DoneHook(env, u, fut))
            env.log(f"s:{u}")
        for _ in range(6 * scen["n"] + 4 * scen["nw"] + 6):
            lv = env.live()
            if not lv:
                break
            env.resume(rng.choice(lv))
    except BaseException as e:  # noqa: BLE001
        import traceback
        obs["status"] = "raised"
        obs["errors"].append(f"{type(e).__name__}: {e} @ {traceback.format_exc()[-500:]}")
    finally:
        for k, v in saved.items():
            setattr(AR, k, v)
    tasks_end = [t.state for t in (env.runner._tasks or [])] if env.runner is not None else []
    for t in ((env.runner._tasks or []) if env.runner is not None else []):
        try:
            t.coro.close()                 # coroutines the simulation leaves suspended / never started
        except BaseException:  # noqa: BLE001
            pass
    obs.update({"events": env.events, "snap": env.snap, "ran": dict(env.ran), "loop_dead": env.loop_dead,
                "futs": {u: XEnv.fut_state_x(f) for u, f in env.futs.items()},
                "tasks": tasks_end,
                "hung_units": [getattr(t, "hung_unit", None) for t in ((env.runner._tasks or []) if env.runner is not None else [])
                               if getattr(t, "hung", False)]})
    return obs


def _fut_state_x(f):
    if not f.done():
        return "pending"
    e = f.exception()
    return f"exc:{type(e).__name__}" if e is not None else "ok"


XEnv.fut_state_x = staticmethod(_fut_state_x)

EXC_NAME = {"base": "UnitBase", "cancel": "CancelledError", "sysexit": "SystemExit", "kbd": "KeyboardInterrupt",
            "stopiter": ("StopIteration", "RuntimeError"), "value": "ValueError", "runtime": "RuntimeError",
            "oserror": "FileNotFoundError", "custom": "UnitError", "lookup": "KeyError"}


def undelivered(scen, futs):
    """the property on the futures: every submitted unit's future is done with the unit's own outcome"""
    out = []
    bad = dict(scen["bad"])
    for u in range(scen["n"]):
        stt = futs.get(u, futs.get(str(u), "missing"))
        if u in bad:
            names = EXC_NAME[bad[u]]
            names = names if isinstance(names, tuple) else ((names,) if bad[u] in IN_GUARD else (names, "RuntimeError"))
            if not (stt.startswith("exc:") and stt[4:] in names):
                out.append((u, bad[u], stt))
        elif stt != "ok":
            out.append((u, "ok", stt))
    return out


def judged(scen, obs):
    """the undelivered units that count: the unit's function has run and no worker still awaits it (its outcome was
    handed back), or the worker that awaits it is never resumed again"""
    return [(u, kind, stt) for (u, kind, stt) in undelivered(scen, obs["futs"])
            if obs["ran"].get(u) and not (f"a{u}" in obs["tasks"] and u not in obs["hung_units"])]


def _match(evs, snaps, out):
    """None if the model trace `out` equals the real states after every event, else a description of the first difference"""
    states = out.split(" ; ") if out else []
    if (states and states[-1] == "REJ") or len(states) != len(evs):
        i = len(states) - 1 if states and states[-1] == "REJ" else len(states)
        return {"event_index": i, "event": evs[i] if i < len(evs) else None, "context": evs[max(0, i - 8): i + 2],
                "what": "the model cannot do this step"}
    for i, (tok, stt, real) in enumerate(zip(evs, states, snaps)):
        m = S.parse_state(stt)
        lm = re.search(r" loop=(\d)", stt)
        mine = {"pcs": m["pcs"], "queue": [int(x) for x in m["queue"]], "created": [int(x) for x in m["created"]],
                "fl": [int(x) for x in m["fl"]], "done": sorted(m["done"]), "stop": m["stop"], "main": m["main"],
                "deliv": m["deliv"], "none": m["none"], "td": m["td"], "loop": int(lm.group(1)) if lm else -1}
        if mine != real:
            diff = {k: (real.get(k), mine[k]) for k in mine if mine[k] != real.get(k)}
            return {"event_index": i, "event": tok, "context": evs[max(0, i - 8): i + 1],
                    "what": f"state after the event differs in {sorted(diff)}: (real, model) {diff}"}
    return None


def compare_with_models(ctx, scen, obs):
    """'cur' | 'asis' | 'both' | 'neither': which model the real code behaved as in this scenario"""
    evs = obs["events"]
    tail = f"{scen['nw']} {len(evs)} {' '.join(evs)}".rstrip()
    out = ctx.driver([f"rx-trace {tail}", f"rx-trace-asis {tail}"])
    d_cur, d_old = _match(evs, obs["snap"], out[0]), _match(evs, obs["snap"], out[1])
    if d_cur is None and d_old is None:
        return "both"
    if d_cur is None:
        return "cur"
    if d_old is None:
        return "asis"
    ctx.disagree({"rx_scenario": scen, **d_cur}, "real runner code", "RunnerSysX.xstep (the code as modelled): " + d_cur["what"],
                 note="the record of the old behaviour (AsIs.xstep) does not fit either: " + d_old["what"])
    return "neither"


# ------------------------------------------------------------------ the real runtime, one unit class per child
CHILD = r"""
import importlib.util, sys, time, os, json, asyncio
sys.path.insert(0, {harness!r})
from props import c17_exc as X
from infretis.asyncrunner import aiorunner
scen = json.loads({scen!r})
bad = {{int(k): v for k, v in scen["bad"]}}
def task(md):
    if md["id"] in bad:
        X._raise(bad[md["id"]], md["id"])
    return md
r = aiorunner({{}}, scen["nw"]); r.set_task(task); r.start()
futs = [r.submit_work({{"id": u}}) for u in range(scen["n"])]
t0 = time.time()
while time.time() - t0 < {wait} and not all(f.done() for f in futs):
    time.sleep(0.05)
res = {{"futs": {{u: X._fut_state_x(f) for u, f in enumerate(futs)}}, "tasks_done": [t.done() for t in r._tasks],
       "loop_thread_alive": r._thread.is_alive()}}
with open({out!r}, "w") as fh:
    json.dump(res, fh)
os._exit(0)
"""


def real_runtime(scen, wait=3.0):
    tmp = tempfile.mkdtemp(prefix="vp-c17x-", dir="/var/tmp")
    outp = os.path.join(tmp, "out.json")
    harness = os.path.dirname(os.path.dirname(os.path.abspath(__file__)))
    code = CHILD.format(harness=harness, scen=json.dumps({**scen, "bad": [[u, k] for u, k in scen["bad"]]}), wait=wait, out=outp)
    try:
        with open(os.path.join(tmp, "log.txt"), "wb") as log:
            p = subprocess.Popen([sys.executable, "-c", code], cwd=tmp, stdin=subprocess.DEVNULL, stdout=log, stderr=log,
                                 start_new_session=True)
            try:
                p.wait(timeout=wait + 40)
            except subprocess.TimeoutExpired:
                pass
            try:
                os.killpg(p.pid, signal.SIGKILL)      # the child and the pool processes it left behind
            except (ProcessLookupError, PermissionError):
                pass
            p.wait()
        if not os.path.exists(outp):
            return None
        with open(outp) as fh:
            return json.load(fh)
    finally:
        shutil.rmtree(tmp, ignore_errors=True)


def run_exc(ctx):
    rng = ctx.rng
    n_scen = 60 if ctx.quick else 1500
    seen = {}
    verdicts, first = {}, {}
    for i in range(n_scen):
        nw = rng.choice([1, 1, 2, 2, 3])
        n = rng.randint(1, 5)
        nbad = 1 if rng.random() < 0.75 else min(2, n)
        units = rng.sample(range(n), nbad)
        scen = {"nw": nw, "n": n, "bad": [[u, rng.choice(KINDS + IN_GUARD)] for u in sorted(units)],
                "seed": rng.randrange(1 << 30)}
        obs = simulate(scen)
        kinds = sorted({k for _, k in scen["bad"]})
        ctx.count(1, branch="rx:" + "+".join(kinds))
        ctx.distinct(("rx", tuple(obs["events"])))
        if obs["status"] != "ok":
            ctx.fail("C17:rsys:runner-raised", f"{obs['errors']}", {"rx_scenario": scen})
            continue
        if ctx._driver_ok:
            v = compare_with_models(ctx, scen, obs)
            verdicts[v] = verdicts.get(v, 0) + 1
            if v in ("cur", "asis") and v not in first:
                first[v] = scen
        for (u, kind, stt) in judged(scen, obs):
            seen[kind] = seen.get(kind, 0) + 1
            hard = kind in IN_GUARD + ("ok",) and not obs["loop_dead"]
            judge(ctx, SIG_IN if hard else SIG, f"simulated runtime: unit {u} fails with {kind!r}; its future ends {stt}, futures {obs['futs']}, "
                            f"worker tasks {obs['tasks']}, event loop dead: {obs['loop_dead']} — the exception is never delivered "
                            f"(as_completed() would wait for ever)", {"rx_scenario": scen})
            break
    if verdicts.get("cur") and verdicts.get("asis"):
        ctx.disagree({"what": "the runner behaves as the current model in some scenarios and as the record of the old code in others",
                      "as_current": first.get("cur"), "as_record": first.get("asis")}, verdicts, "one behaviour everywhere")
    ctx.extra["runner_failure_classes_behaves_as"] = verdicts
    # the real asyncio / ProcessPoolExecutor
    kinds = ("sysexit", "stopiter", "cancel", "base", "kbd")
    todo = ([kinds[ctx.seed % len(kinds)], IN_GUARD[1 + ctx.seed % (len(IN_GUARD) - 1)]] if ctx.quick
            else list(kinds) + list(IN_GUARD))
    real = {}
    for kind in todo:
        scen = {"nw": 2, "n": 3, "bad": [[0, kind]], "seed": 0}
        res = real_runtime(scen)
        ctx.count(1, branch=f"rx-real:{kind}")
        if res is None:
            real[kind] = "child gave no answer"
            continue
        real[kind] = res
        und = undelivered(scen, res["futs"])
        if und:
            judge(ctx, SIG_IN if kind in IN_GUARD else SIG, f"real aiorunner (asyncio + process pool), 2 workers, 3 units, unit 0 raises {kind!r}: futures after 3 s "
                            f"{res['futs']}, worker tasks done {res['tasks_done']}, loop thread alive {res['loop_thread_alive']}",
                  {"rx_real": scen})
    ctx.extra["unhandled_exception_classes"] = {"simulated_hits": seen, "real_runtime": real}
    ctx.assumptions.append(
        "failure classes of a unit: `_run_unit` converts StopIteration and non-`Exception`s into RuntimeError in the pool "
        "process (theorems xrun_refines, every_failure_delivered); the simulated runtime emulates what asyncio does with an "
        "exception it cannot carry (never resumes the worker / ends the loop thread), confirmed on the real runtime per class")


def replay_exc(ctx, obj):
    r = obj.get("replay") or {}
    if "rx_scenario" in r:
        scen = r["rx_scenario"]
        obs = simulate(scen)
        und = judged(scen, obs)
        print("futures:", obs["futs"], "tasks:", obs["tasks"], "loop dead:", obs["loop_dead"], "undelivered:", und)
        return 1 if und else 0
    if "rx_real" in r:
        scen = r["rx_real"]
        res = real_runtime(scen)
        print(res)
        return 1 if (res is None or undelivered(scen, res["futs"])) else 0
    return 1
