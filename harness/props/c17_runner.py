"""C17 (runner half) — the task runner executes every submitted unit exactly once, delivers its
result or its exception exactly once whatever the completion order, and shuts down cleanly.

Tie = trace validation against the REAL `infretis.asyncrunner.aiorunner` / `future_list`:

* each scenario (W workers, N units, scripted durations 0–30 ms, failing units, a submission /
  consumption script shaped like `scheduler.py`) runs in a fresh child interpreter (isolation of
  cwd, worker*.log files, pool processes and a possible hang);
* the child taps the runner from outside (no source hooks): `runner._queue` is replaced before
  `start()` by an `asyncio.Queue` subclass that logs `submit`/`take` atomically with the queue
  operation, the queued future is wrapped in a proxy that logs `finish` before it sets the real
  future, `runner._stop_event` logs `stop`; the consumer logs `collect` after `as_completed()`
  returned the future.  Futures are only polled (by the real `future_list.as_completed`), never
  given callbacks.  All log entries go through one lock: the list order is a total order that is
  consistent with the logical order (see `Tap`), no assumption on timing;
* the task function appends `start u pid` / `end u pid` / `raise u pid` lines to an O_APPEND file;
* the parent sends the observed trace to the Lean model (`accepts`, `exactlyOnceB`, `completeB`,
  `fifoB`, final futures map) and evaluates the property directly on the observations: every
  unit's function ran exactly once, every future delivered exactly its own result / its own
  exception exactly once through `as_completed`, nothing is in flight after `stop()`, the
  runner's thread, asyncio tasks, pool processes are gone.

Entry points: `run_runner(ctx)`, `replay_runner(ctx, obj)`.
"""
from __future__ import annotations

import hashlib
import json
import os
import re
import shutil
import signal
import subprocess
import sys
import tempfile
import threading
import time
from concurrent.futures import ThreadPoolExecutor
from pathlib import Path

# The pool of `aiorunner` (a ProcessPoolExecutor) is never shut down by `stop()`; its idle worker
# processes and its two helper threads live until the runner object is garbage collected.
# True: report it as a property failure with its own signature (to be listed in known_findings.json);
# False: only record it in the evidence.
POOL_ALIVE_AFTER_STOP_IS_FAILURE = False
POOL_SIG = "C17:runner:pool-alive-after-stop"

# no event, no log line, no consumer progress for this long = stuck (env override: self-tests only)
STUCK_S = float(os.environ.get("C17R_STUCK_S", "150"))
RELEASE_S = 90.0         # pool processes must be gone this long after the runner was dropped
CHILD_TIMEOUT_S = 1500   # backstop; the child's own watchdog fires long before
BAD = 999_999            # payload that matches no unit

HARNESS_DIR = str(Path(__file__).resolve().parent.parent)


# --------------------------------------------------------------------------- task function (pool side)
def _append(path, line):
    fd = os.open(path, os.O_WRONLY | os.O_APPEND | os.O_CREAT, 0o644)
    try:
        os.write(fd, line.encode())
    finally:
        os.close(fd)


def _task(md):
    """the unit of work; module level, hence picklable by reference"""
    u = md["id"]
    pid = os.getpid()
    _append(md["log"], f"start {u} {pid}\n")
    if md["dur_ms"]:
        time.sleep(md["dur_ms"] / 1000.0)
    if md["fail"]:
        _append(md["log"], f"raise {u} {pid}\n")
        raise ValueError(f"boom {u}")
    _append(md["log"], f"end {u} {pid}\n")
    out = dict(md)
    out["out"] = 3 * u + 1
    out["pid"] = pid
    return out


def _ok_payload(r):
    try:
        v = r["out"]
        return v if isinstance(v, int) and 0 <= v < BAD else BAD
    except Exception:  # noqa: BLE001
        return BAD


def _exc_payload(e):
    m = re.fullmatch(r"boom (\d+)", str(e))
    return int(m.group(1)) if (m and isinstance(e, ValueError)) else BAD


# --------------------------------------------------------------------------- the tap (child side)
class Tap:
    """Event log with a total order.

    Why the order is consistent with the logical order without timing assumptions:
    submit is logged and the item queued under one lock; take = dequeue + log under the same lock;
    `qsize()` (what `stop()` polls) takes the lock too, so "queue empty" seen by `stop()` implies
    every take that emptied it is already logged; finish is logged *before* the real future is set
    and collect *after* the consumer saw it done; stop is logged when the stop event is set (or, if
    the code signals differently, after `stop()` returned).
    """

    def __init__(self):
        self.lock = threading.RLock()
        self.events = []
        self.workers = {}
        self.keep = []
        self.notes = []
        self.progress = time.monotonic()
        self.stop_logged = False
        self.queued_same_future = {}

    def _worker(self):
        import asyncio
        try:
            t = asyncio.current_task()
        except RuntimeError:
            t = None
        key = ("task", id(t)) if t is not None else ("thread", threading.get_ident())
        if key not in self.workers:
            self.workers[key] = len(self.workers)
            self.keep.append(t)
        return self.workers[key]

    def log(self, ev):
        with self.lock:
            self.events.append(ev)
            self.progress = time.monotonic()

    def note(self, s):
        with self.lock:
            if len(self.notes) < 20:
                self.notes.append(s)


class TapFuture:
    """stands in for the queued future on the worker side only; the caller keeps the real one"""

    def __init__(self, tap, u, fut):
        object.__setattr__(self, "_tap", tap)
        object.__setattr__(self, "_u", u)
        object.__setattr__(self, "_fut", fut)

    def set_result(self, r):
        with self._tap.lock:
            self._tap.log(("f", self._tap._worker(), self._u, "ok", _ok_payload(r)))
            return self._fut.set_result(r)

    def set_exception(self, e):
        with self._tap.lock:
            self._tap.log(("f", self._tap._worker(), self._u, "exc", _exc_payload(e)))
            return self._fut.set_exception(e)

    def __getattr__(self, name):
        return getattr(self._fut, name)


def _make_taps(tap, queue_cls=None, event_cls=None):
    """subclasses of whatever queue / event class the runner uses (keeps e.g. its ordering discipline)"""
    import asyncio
    queue_cls = queue_cls if (isinstance(queue_cls, type) and issubclass(queue_cls, asyncio.Queue)) else asyncio.Queue
    event_cls = event_cls if (isinstance(event_cls, type) and issubclass(event_cls, asyncio.Event)) else asyncio.Event

    class TapQueue(queue_cls):
        def put_nowait(self, item):
            with tap.lock:
                try:
                    wu, fut = item
                    u = int(wu["id"])
                    tap.queued_same_future[u] = fut
                    item = (wu, TapFuture(tap, u, fut))
                    tap.log(("s", u))
                except Exception as e:  # noqa: BLE001  unknown item shape: pass through
                    tap.note(f"put: unexpected queue item ({type(e).__name__})")
                return super().put_nowait(item)

        def get_nowait(self):
            with tap.lock:
                item = super().get_nowait()
                try:
                    tap.log(("t", tap._worker(), int(item[0]["id"])))
                except Exception as e:  # noqa: BLE001
                    tap.note(f"get: unexpected queue item ({type(e).__name__})")
                return item

        def qsize(self):
            with tap.lock:
                return super().qsize()

    class TapEvent(event_cls):
        def set(self):
            with tap.lock:
                if not tap.stop_logged:
                    tap.stop_logged = True
                    tap.log(("x",))
                return super().set()

    return TapQueue, TapEvent


def _tok(ev):
    return ":".join(str(x) for x in ev)


# --------------------------------------------------------------------------- one scenario (child side)
def _liveness(runner, threads_before, kids_before, skip_threads):
    import psutil
    me = psutil.Process()
    procs = []
    for p in me.children(recursive=True):
        if p.pid in kids_before:
            continue
        try:
            st = p.status()
        except psutil.Error:
            continue
        if st != psutil.STATUS_ZOMBIE:
            procs.append([p.pid, st])
    th = [t.name for t in threading.enumerate()
          if t not in threads_before and t not in skip_threads and t.is_alive()]
    d = {"procs": procs, "threads": th}
    if runner is not None:
        lt = getattr(runner, "_thread", None)
        lp = getattr(runner, "_loop", None)
        tasks = getattr(runner, "_tasks", None) or []
        d["loop_thread_alive"] = bool(lt.is_alive()) if lt is not None else None
        d["loop_running"] = bool(lp.is_running()) if lp is not None else None
        try:
            d["tasks_not_done"] = sum(0 if t.done() else 1 for t in tasks)
        except Exception:  # noqa: BLE001
            d["tasks_not_done"] = None
        try:
            d["queue_len"] = runner._queue.qsize()
        except Exception:  # noqa: BLE001
            d["queue_len"] = None
    return d


def run_scenario(scen, work, out_path):
    """runs in the child interpreter; writes the observations to out_path"""
    import gc
    import importlib.util  # noqa: F401
    import psutil
    from infretis.asyncrunner import aiorunner, future_list

    W, N = scen["W"], scen["N"]
    logf = os.path.join(work, "units.log")
    open(logf, "w").close()
    tap = Tap()
    obs = {"status": "running", "phase": "setup", "deliveries": [], "none_returns": 0, "errors": []}
    state = {"written": False}
    wlock = threading.Lock()

    def write_out(status):
        with wlock:
            if state["written"]:
                return
            state["written"] = True
            obs["status"] = status
            with tap.lock:
                obs["events"] = [_tok(e) for e in tap.events]
                obs["notes"] = list(tap.notes)
                obs["n_worker_ids"] = len(tap.workers)
            try:
                obs["log"] = open(logf).read().splitlines()
            except OSError:
                obs["log"] = []
            tmp = out_path + ".tmp"
            with open(tmp, "w") as f:
                json.dump(obs, f)
            os.replace(tmp, out_path)

    def watchdog():
        last_size = -1
        while True:
            time.sleep(0.5)
            try:
                sz = os.stat(logf).st_size
            except OSError:
                sz = -1
            if sz != last_size:
                last_size = sz
                tap.progress = time.monotonic()
            if time.monotonic() - tap.progress > STUCK_S:
                obs["stuck_liveness"] = "n/a"
                write_out("stuck")
                os._exit(3)

    wd = threading.Thread(target=watchdog, daemon=True, name="c17r-watchdog")
    threads_before = set(threading.enumerate())
    kids_before = {p.pid for p in psutil.Process().children(recursive=True)}
    wd.start()
    skip = {wd}

    def _drive():
        # ---- set-up, the way setup_runner does it: aiorunner(config, workers); set_task; start
        runner = aiorunner({}, W)
        TapQueue, TapEvent = _make_taps(tap, type(getattr(runner, "_queue", None)), type(getattr(runner, "_stop_event", None)))
        obs["tap"] = []
        if hasattr(runner, "_queue"):
            runner._queue = TapQueue()
            obs["tap"].append("queue")
        if hasattr(runner, "_stop_event"):
            runner._stop_event = TapEvent()
            obs["tap"].append("stop_event")
        runner.set_task(_task)
        try:
            runner.start()
        except Exception as e:  # noqa: BLE001
            obs["errors"].append(f"start: {type(e).__name__}: {e}")
            write_out("start-failed")
            return False
        obs["n_workers_reported"] = runner.n_workers()
        futures = future_list()
        fut_unit = {}
        fut_keep = {}

        def md(u):
            return {"id": u, "dur_ms": scen["dur_ms"][u], "fail": u in scen["fails"], "log": logf}

        nxt = [0]

        def submit_some(k):
            while k > 0 and nxt[0] < N:
                u = nxt[0]
                nxt[0] += 1
                fut = runner.submit_work(md(u))
                fut_unit[id(fut)] = u
                fut_keep[u] = fut
                if tap.queued_same_future.get(u, fut) is not fut:
                    tap.note(f"unit {u}: queued future is not the returned future")
                futures.add(fut)
                tap.progress = time.monotonic()
                k -= 1

        def consume_one():
            if len(obs["deliveries"]) > 2 * N + 5:   # a consumer that is fed the same future for ever
                if not obs.get("consumer_capped"):
                    obs["consumer_capped"] = True
                    obs["errors"].append("consumer stopped: more than 2N+5 futures came out of as_completed")
                return False
            fut = futures.as_completed()          # the scheduler's call; busy-polls done()
            tap.progress = time.monotonic()
            if fut is None:
                obs["none_returns"] += 1
                return False
            u = fut_unit.get(id(fut), -1)
            try:
                r = fut.result()                  # the scheduler's call
                kind, pay = "ok", _ok_payload(r)
                detail = {"id": r.get("id") if isinstance(r, dict) else None,
                          "out": r.get("out") if isinstance(r, dict) else None,
                          "pid": r.get("pid") if isinstance(r, dict) else None}
            except Exception as e:  # noqa: BLE001
                kind, pay = "exc", _exc_payload(e)
                detail = {"type": type(e).__name__, "msg": str(e)[:200]}
            tap.log(("c", u, kind, pay))
            obs["deliveries"].append([u, kind, pay, detail])
            return True

        # ---- the scheduler-shaped loop: initial burst, then one as_completed per iteration + refill
        obs["phase"] = "consume"
        target = N - scen["leave"]               # how many results the consumer takes before stop()
        submit_some(scen["burst"])
        taken = 0
        while taken < target:
            if not consume_one():                  # None: the list is empty
                if nxt[0] >= N:
                    break                          # nothing left to submit either (a result was lost)
                submit_some(scen["burst"])
                continue
            k = scen["refill"][taken % len(scen["refill"])]
            taken += 1
            submit_some(k)
        while nxt[0] < N:                          # target reached early: the rest is submitted and abandoned
            submit_some(scen["burst"])
        if scen["leave"] == 0:
            # drained: one more call must return None (empty list)
            while consume_one():
                pass

        # ---- stop
        obs["phase"] = "stop"
        t0 = time.monotonic()
        try:
            runner.stop()
        except Exception as e:  # noqa: BLE001
            obs["errors"].append(f"stop: {type(e).__name__}: {e}")
        obs["stop_s"] = round(time.monotonic() - t0, 3)
        tap.progress = time.monotonic()
        with tap.lock:
            if not tap.stop_logged:
                tap.stop_logged = True
                tap.log(("x",))
                obs["stop_event_fallback"] = True
        obs["after_stop"] = _liveness(runner, threads_before, kids_before, skip)
        # state of every future right after stop() (polled)
        obs["futs_after_stop"] = {str(u): bool(f.done()) for u, f in fut_keep.items()}
        # ---- results the scheduler would abandon: still delivered correctly if asked for?
        obs["phase"] = "late-consume"
        if scen["leave"]:
            if all(obs["futs_after_stop"].values()):
                while consume_one():
                    pass
            else:
                obs["errors"].append("late-consume skipped: pending futures after stop()")
        finals = {}
        for u, f in fut_keep.items():
            if not f.done():
                finals[str(u)] = "p"
            elif f.exception() is not None:
                finals[str(u)] = f"exc:{_exc_payload(f.exception())}"
            else:
                finals[str(u)] = f"ok:{_ok_payload(f.result())}"
        obs["finals"] = finals
        return True

    # ---- drop the runner (scheduler() returns: every local of _drive is gone) and see the pool go away
    if not _drive():
        return
    obs["phase"] = "release"
    tap.keep.clear()
    tap.queued_same_future.clear()
    gc.collect()
    t0 = time.monotonic()
    while True:
        lv = _liveness(None, threads_before, kids_before, skip)
        if not lv["procs"] and not lv["threads"]:
            break
        if time.monotonic() - t0 > RELEASE_S:
            break
        tap.progress = time.monotonic()
        time.sleep(0.05)
        gc.collect()
    lv["waited_s"] = round(time.monotonic() - t0, 3)
    obs["after_release"] = lv
    obs["phase"] = "done"
    write_out("ok")


def child_main(scen_path, out_path):
    scen = json.loads(Path(scen_path).read_text())
    # inside the parent's temporary directory: removed by the parent even if this process is killed
    work = tempfile.mkdtemp(prefix="c17r_", dir=os.path.dirname(os.path.abspath(out_path)))
    os.chdir(work)
    rc = 0
    try:
        run_scenario(scen, work, out_path)
    except BaseException as e:  # noqa: BLE001
        import traceback
        Path(out_path).write_text(json.dumps({"status": "crashed", "errors": [f"{type(e).__name__}: {e}",
                                                                             traceback.format_exc()[-1500:]]}))
        rc = 4
    finally:
        os.chdir("/")
        shutil.rmtree(work, ignore_errors=True)
    sys.stdout.flush()
    os._exit(rc)


# --------------------------------------------------------------------------- parent side
def _spawn(scen, tmpdir, idx):
    sp = os.path.join(tmpdir, f"scen{idx}.json")
    op = os.path.join(tmpdir, f"obs{idx}.json")
    Path(sp).write_text(json.dumps(scen))
    code = ("import sys; sys.path.insert(0, %r); import importlib.util; "
            "from props import c17_runner as m; m.child_main(sys.argv[1], sys.argv[2])" % HARNESS_DIR)
    env = dict(os.environ)
    env["PYTHONDONTWRITEBYTECODE"] = "1"
    # output goes to a file, not a pipe: pool processes that outlive the child must not keep us waiting
    lp = os.path.join(tmpdir, f"out{idx}.txt")
    with open(lp, "w") as lf:
        p = subprocess.Popen([sys.executable, "-c", code, sp, op], stdout=lf, stderr=subprocess.STDOUT,
                             stdin=subprocess.DEVNULL, start_new_session=True, env=env, cwd=tmpdir)
    try:
        p.wait(timeout=CHILD_TIMEOUT_S)
    except subprocess.TimeoutExpired:
        try:
            os.killpg(p.pid, signal.SIGKILL)
        except OSError:
            pass
        p.wait()
        return {"status": "child-timeout", "errors": []}
    finally:
        try:
            os.killpg(p.pid, signal.SIGKILL)     # whatever the scenario left behind
        except OSError:
            pass
    if os.path.exists(op):
        try:
            obs = json.loads(Path(op).read_text())
        except ValueError:
            obs = {"status": "no-output", "errors": ["unreadable observation file"]}
    else:
        obs = {"status": "no-output", "errors": []}
    obs["child_rc"] = p.returncode
    try:
        obs["child_out"] = Path(lp).read_text()[-1500:]
    except OSError:
        obs["child_out"] = ""
    return obs


def _timeout_exc():
    """the framework's Timeout (exit 2); common.py runs as __main__"""
    import __main__
    t = getattr(__main__, "Timeout", None)
    if t is None:
        from common import Timeout as t
    return t


def gen_scenario(rng, W, quick, variant=None):
    N = rng.randint(50, 90) if quick else rng.randint(50, 200)
    shape = rng.choice(["uniform", "zero", "long-first", "bimodal", "uniform"])
    if shape == "uniform":
        dur = [rng.randint(0, 30) for _ in range(N)]
    elif shape == "zero":
        dur = [0] * N
    elif shape == "long-first":
        dur = [30 if (u % max(W, 2)) == 0 else rng.randint(0, 3) for u in range(N)]
    else:
        dur = [rng.choice((0, 1, 28, 30)) for _ in range(N)]
    fmode = rng.choice(["none", "some", "some", "many", "edges"])
    if fmode == "none":
        fails = []
    elif fmode == "some":
        fails = sorted(rng.sample(range(N), max(1, N // 15)))
    elif fmode == "many":
        fails = sorted(rng.sample(range(N), N // 3))
    else:
        fails = sorted({0, N - 1, rng.randrange(N)})
    variant = variant or rng.choice(["scheduler", "scheduler", "queued", "flood", "ragged", "backlog", "backlog"])
    if variant == "backlog":
        # the code sleeps 50 ms after every submit, so units of ≤ 30 ms never wait in the queue; to exercise the
        # queue discipline and stop()'s drain loop these units take longer than W submits (≈ N·70 ms in total)
        N = rng.randint(20, 36) if quick else rng.randint(20, 60)
        dur = [0 if rng.random() < 0.2 else rng.randint(50, 90) * W for _ in range(N)]
        fails = [u for u in fails if u < N]
        shape = "backlog"
        burst, refill = rng.choice([N, N, 3 * W + 1]), [1]
        leave = rng.choice([0, rng.randint(1, W), N])
        return {"W": W, "N": N, "dur_ms": dur, "fails": fails, "burst": burst, "refill": refill, "leave": leave,
                "variant": variant, "shape": shape, "fmode": fmode}
    if variant == "scheduler":       # exactly like scheduler.py: W at first, then one for one
        burst, refill = W, [1]
    elif variant == "queued":        # more units than workers outstanding: the queue is used
        burst, refill = rng.randint(W + 1, 3 * W + 2), [1]
    elif variant == "flood":         # everything submitted up front
        burst, refill = N, [1]
    else:                            # ragged refill
        burst, refill = rng.randint(1, 2 * W), [rng.randint(0, 2) for _ in range(7)]
    leave = rng.choice([0, 0, rng.randint(1, W)])   # results not consumed before stop()
    return {"W": W, "N": N, "dur_ms": dur, "fails": fails, "burst": burst, "refill": refill, "leave": leave,
            "variant": variant, "shape": shape, "fmode": fmode}


# ---- an independent transcription of the protocol (to cross-check the Lean model on mutants)
def py_accepts(W, evs):
    sub, queue, running, done, col, stopped = [], [], {}, {}, set(), False
    for i, e in enumerate(evs):
        k = e[0]
        if k == "s":
            if stopped or e[1] in sub:
                return i
            sub.append(e[1])
            queue.append(e[1])
        elif k == "t":
            w, u = e[1], e[2]
            if stopped or not w < W or w in running or not queue or queue[0] != u:
                return i
            queue.pop(0)
            running[w] = u
        elif k == "f":
            w, u = e[1], e[2]
            if running.get(w) != u or u in done:
                return i
            del running[w]
            done[u] = (e[3], e[4])
        elif k == "c":
            u = e[1]
            if done.get(u) != (e[2], e[3]) or u in col:
                return i
            col.add(u)
        elif k == "x":
            if stopped or queue:
                return i
            stopped = True
        else:
            return i
    return None


def py_once(evs):
    """each of submit/take/finish/collect at most once per unit and only after its cause"""
    seen = set()
    cnt = {}
    for e in evs:
        k = e[0]
        if k == "x":
            continue
        u = e[1] if k in "sc" else e[2]
        cnt[(k, u)] = cnt.get((k, u), 0) + 1
        if cnt[(k, u)] > 1:
            return False
        if k == "t" and ("s", u) not in seen:
            return False
        if k == "f" and ("t", e[1], u) not in seen:
            return False
        if k == "c" and ("fo", u, e[2], e[3]) not in seen:
            return False
        if k == "s":
            seen.add(("s", u))
        elif k == "t":
            seen.add(("t", e[1], u))
        elif k == "f":
            seen.add(("fo", u, e[3], e[4]))
    return True


def py_fifo(evs):
    s = [e[1] for e in evs if e[0] == "s"]
    t = [e[2] for e in evs if e[0] == "t"]
    return s[: len(t)] == t


def py_complete(evs):
    t = {e[2] for e in evs if e[0] == "t"}
    f = {e[2] for e in evs if e[0] == "f"}
    return all((e[1] in t and e[1] in f) for e in evs if e[0] == "s")


def _parse_ev(tok):
    p = tok.split(":")
    return tuple(int(x) if re.fullmatch(r"-?\d+", x) else x for x in p)


def mutate_trace(rng, evs):
    """small edits of an observed trace; most break the protocol"""
    evs = list(evs)
    kinds = ["dup-take", "swap-adjacent", "drop", "wrong-worker", "early-collect", "dup-finish", "wrong-outcome",
             "swap-takes", "stop-early"]
    k = rng.choice(kinds)
    idx = lambda c: [i for i, e in enumerate(evs) if e[0] == c]  # noqa: E731
    try:
        if k == "dup-take":
            i = rng.choice(idx("t"))
            evs.insert(rng.randint(i + 1, len(evs)), evs[i])
        elif k == "swap-adjacent":
            i = rng.randrange(len(evs) - 1)
            evs[i], evs[i + 1] = evs[i + 1], evs[i]
        elif k == "drop":
            del evs[rng.randrange(len(evs))]
        elif k == "wrong-worker":
            i = rng.choice(idx("f"))
            e = evs[i]
            evs[i] = ("f", e[1] + 1, e[2], e[3], e[4])
        elif k == "early-collect":
            i = rng.choice(idx("c"))
            e = evs.pop(i)
            evs.insert(rng.randint(0, i), e)
        elif k == "dup-finish":
            i = rng.choice(idx("f"))
            evs.insert(rng.randint(i + 1, len(evs)), evs[i])
        elif k == "wrong-outcome":
            i = rng.choice(idx("c"))
            e = evs[i]
            evs[i] = ("c", e[1], e[2], e[3] + 1)
        elif k == "swap-takes":
            ti = idx("t")
            a = rng.randrange(len(ti) - 1)
            i, j = ti[a], ti[a + 1]
            evs[i], evs[j] = ("t", evs[i][1], evs[j][2]), ("t", evs[j][1], evs[i][2])
        elif k == "stop-early":
            i = idx("x")[0]
            e = evs.pop(i)
            evs.insert(rng.randint(0, i), e)
    except (IndexError, ValueError):
        pass
    return k, evs


def parse_check(line):
    d = {}
    for t in line.split():
        if "=" in t:
            a, b = t.split("=", 1)
            d[a] = b
    return d


def evaluate(scen, obs):
    """the property, stated directly on what was observed.  Returns [(signature, what)], info."""
    fails = []
    W, N = scen["W"], scen["N"]
    F = set(scen["fails"])
    st = obs.get("status")
    info = {"status": st}
    if st == "stuck":
        fails.append((f"C17:runner:stuck-in-{obs.get('phase')}",
                      f"no progress for {STUCK_S:.0f} s in phase {obs.get('phase')}: "
                      f"{len(obs.get('deliveries', []))} of {N} results delivered, "
                      f"{sum(1 for l in obs.get('log', []) if l.startswith('start'))} units started"))
    elif st != "ok":
        info["infrastructure"] = f"{st}: {obs.get('errors')} {obs.get('child_out', '')[-300:]}"
        return fails, info
    # ---- (1) every unit's function ran exactly once
    starts, ends = {}, {}
    for l in obs.get("log", []):
        p = l.split()
        if len(p) != 3 or p[0] not in ("start", "end", "raise"):
            fails.append(("C17:runner:garbled-log-line", f"log line {l!r}"))
            continue
        u, pid = int(p[1]), int(p[2])
        (starts if p[0] == "start" else ends).setdefault(u, []).append((p[0], pid))
    if st == "ok":
        for u in range(N):
            s, e = starts.get(u, []), ends.get(u, [])
            if len(s) == 0:
                fails.append(("C17:runner:unit-never-ran", f"unit {u} was submitted but its function never started"))
            elif len(s) > 1:
                fails.append(("C17:runner:unit-ran-twice", f"unit {u} started {len(s)} times (pids {[x[1] for x in s]})"))
            elif len(e) != 1 or e[0][1] != s[0][1] or (e[0][0] == "raise") != (u in F):
                fails.append(("C17:runner:unit-not-finished-once", f"unit {u}: start {s}, end {e}"))
    for u in list(starts) + list(ends):
        if not 0 <= u < N:
            fails.append(("C17:runner:unknown-unit-ran", f"unit {u} was never submitted"))
    # ---- (2) every future delivered exactly its own outcome exactly once
    seen = {}
    for (u, kind, pay, detail) in obs.get("deliveries", []):
        seen[u] = seen.get(u, 0) + 1
        if u == -1:
            fails.append(("C17:runner:foreign-future-delivered", f"as_completed returned a future that was never added: {detail}"))
            continue
        if u in F:
            good = kind == "exc" and detail.get("type") == "ValueError" and detail.get("msg") == f"boom {u}"
        else:
            good = (kind == "ok" and detail.get("id") == u and detail.get("out") == 3 * u + 1
                    and [("start", detail.get("pid"))] == starts.get(u))
        if not good:
            fails.append(("C17:runner:wrong-outcome-delivered",
                          f"future of unit {u} ({'failing' if u in F else 'succeeding'}) delivered {kind} {detail}"))
    for u, c in seen.items():
        if c > 1:
            fails.append(("C17:runner:result-delivered-twice", f"future of unit {u} returned {c} times by as_completed"))
    if st == "ok":
        for u in range(N):
            if u not in seen:
                fails.append(("C17:runner:result-never-delivered", f"future of unit {u} never came out of as_completed"))
        if scen["leave"] == 0 and obs.get("none_returns", 0) < 1:
            fails.append(("C17:runner:as-completed-not-none-when-empty", "as_completed() on the drained list did not return None"))
        # ---- (3) shutdown
        pend = [u for u, d in obs.get("futs_after_stop", {}).items() if not d]
        if pend:
            fails.append(("C17:runner:unit-unfinished-after-stop", f"futures of units {pend[:8]} still pending when stop() returned"))
        a = obs.get("after_stop", {})
        if a.get("loop_thread_alive") or a.get("loop_running") or a.get("tasks_not_done") or a.get("queue_len"):
            fails.append(("C17:runner:loop-or-tasks-alive-after-stop",
                          f"after stop(): loop thread alive={a.get('loop_thread_alive')}, loop running={a.get('loop_running')}, "
                          f"worker tasks not done={a.get('tasks_not_done')}, units still queued={a.get('queue_len')}"))
        r = obs.get("after_release", {})
        if r.get("procs") or r.get("threads"):
            fails.append(("C17:runner:pool-not-released",
                          f"{RELEASE_S:.0f} s after stop() and dropping the runner: processes {r.get('procs')}, threads {r.get('threads')} still alive"))
        info["pool_alive_after_stop"] = bool(a.get("procs") or a.get("threads"))
        if info["pool_alive_after_stop"] and POOL_ALIVE_AFTER_STOP_IS_FAILURE:
            fails.append((POOL_SIG, f"when stop() returns the pool is still up: {len(a.get('procs', []))} worker processes "
                                    f"{[p[1] for p in a.get('procs', [])][:3]}…, threads {a.get('threads')} "
                                    "(asyncrunner.stop() never shuts the ProcessPoolExecutor down; it dies only with the runner object)"))
        for e in obs.get("errors", []):
            fails.append(("C17:runner:exception-from-runner", e))
    return fails, info


def _brief(scen, obs):
    return {"scenario": scen, "status": obs.get("status"), "phase": obs.get("phase"),
            "events_head": obs.get("events", [])[:40], "n_events": len(obs.get("events", [])),
            "deliveries_head": obs.get("deliveries", [])[:10], "after_stop": obs.get("after_stop"),
            "after_release": obs.get("after_release"), "notes": obs.get("notes"), "errors": obs.get("errors")}


def check_against_model(ctx, scen, obs, rng, n_mut):
    """trace → Lean `accepts`/predicates; returns [(signature, what)] for predicate failures"""
    fails = []
    if obs.get("status") not in ("ok", "stuck") or "queue" not in obs.get("tap", []):
        if obs.get("status") == "ok":
            ctx.disagree({"scenario": scen}, "no tap: runner has no _queue attribute", "-", note="tap could not be attached")
        return fails
    W, N = scen["W"], scen["N"]
    toks = obs["events"]
    evs = [_parse_ev(t) for t in toks]
    p_acc, p_once, p_fifo, p_comp = py_accepts(W, evs), py_once(evs), py_fifo(evs), py_complete(evs)
    full = obs["status"] == "ok"
    # the exactly-once predicate, Python transcription (the Lean one is compared below)
    if not p_once:
        fails.append(("C17:runner:trace-not-exactly-once", "observed trace has a unit submitted/taken/finished/collected twice or before its cause"))
    if not p_fifo:
        # the queue discipline is a fact of the model, not part of the property: a correspondence break
        ctx.disagree({"scenario": scen, "what": "units were not taken in submission order"}, "observed take order ≠ submit order", "fifo_order")
    if full and not p_comp:
        fails.append(("C17:runner:trace-incomplete", "after stop() a submitted unit has no take or no finish event"))
    if not ctx._driver_ok:
        if p_acc is not None:
            ctx.disagree({"scenario": scen, "event_index": p_acc, "event": toks[p_acc], "context": toks[max(0, p_acc - 12): p_acc + 3]},
                         "observed", "rejected by the protocol (python transcription; no Lean driver)")
        return fails
    lines = [f"runner-check {W} {len(toks)} {' '.join(toks)}".rstrip(), f"runner-futs {W} {len(toks)} {' '.join(toks)}".rstrip()]
    muts = []
    for _ in range(n_mut):
        kind, m = mutate_trace(rng, evs)
        muts.append((kind, m))
        mt = [_tok(e) for e in m]
        lines.append(f"runner-check {W} {len(mt)} {' '.join(mt)}".rstrip())
    out = ctx.driver(lines)
    d = parse_check(out[0])
    case = {"scenario": {k: scen[k] for k in ("W", "N", "burst", "refill", "leave", "variant")}, "n_events": len(toks)}
    if d.get("acc") != "1":
        i = int(d["rej"]) if d.get("rej", "-").isdigit() else None
        ctx.disagree({**case, "event_index": i, "event": toks[i] if i is not None else None,
                      "context": toks[max(0, (i or 0) - 12): (i or 0) + 3]}, "observed on the real runner", f"model rejects: {out[0]}")
    want = {"once": p_once, "fifo": p_fifo, "complete": p_comp}
    for k, v in want.items():
        if d.get(k) != ("1" if v else "0"):
            ctx.disagree({**case, "predicate": k}, f"python transcription: {v}", f"lean: {d.get(k)}")
    if (d.get("acc") == "1") != (p_acc is None):
        ctx.disagree({**case, "predicate": "accepts"}, f"python transcription rejects at {p_acc}", out[0])
    if d.get("once") == "0" and p_once:
        fails.append(("C17:runner:trace-not-exactly-once", f"Lean exactlyOnceB false on the observed trace: {out[0]}"))
    if full and d.get("acc") == "1":
        exp = {"quiescent": "1", "stopped": "1", "sub": str(N), "queue": "0", "running": "0", "done": str(N), "collected": str(N)}
        for k, v in exp.items():
            if d.get(k) != v:
                ctx.disagree({**case, "final_state_field": k}, f"expected {v} at the end of a drained, stopped run", out[0])
        # final futures map: model vs the real futures
        mod = out[1].split()[1:] if out[1] != "rejected" else []
        code = [f"{u}:{obs['finals'].get(str(u), 'none')}" for u in [e[1] for e in evs if e[0] == "s"]]
        if mod != code:
            diff = [(a, b) for a, b in zip(mod, code) if a != b][:5]
            ctx.disagree({**case, "what": "futures map at the end"}, str(diff) + f" len {len(code)}", f"len {len(mod)}")
    for (kind, m), o in zip(muts, out[2:]):
        dm = parse_check(o)
        ctx.count(1, branch=f"mutant-trace:{kind}:{'acc' if dm.get('acc') == '1' else 'rej'}")
        pa = py_accepts(W, m)
        if (dm.get("acc") == "1") != (pa is None) or (dm.get("rej", "-") != ("-" if pa is None else str(pa))):
            ctx.disagree({**case, "mutant": kind, "trace": [_tok(e) for e in m][:400]}, f"python transcription: reject at {pa}", o)
        if dm.get("once") != ("1" if py_once(m) else "0") or dm.get("fifo") != ("1" if py_fifo(m) else "0"):
            ctx.disagree({**case, "mutant": kind, "predicate": "once/fifo", "trace": [_tok(e) for e in m][:400]},
                         f"python: once={py_once(m)} fifo={py_fifo(m)}", o)
        # accepted ⇒ predicates (theorem accepted_satisfies_predicates), seen on data
        if dm.get("acc") == "1" and (dm.get("once") != "1" or dm.get("fifo") != "1"):
            ctx.disagree({**case, "mutant": kind}, "theorem accepted_satisfies_predicates", o)
    return fails


def _trace_features(obs, scen):
    evs = [_parse_ev(t) for t in obs.get("events", [])]
    fin_order = [e[2] for e in evs if e[0] == "f"]
    sub_order = [e[1] for e in evs if e[0] == "s"]
    qmax, q = 0, 0
    for e in evs:
        if e[0] == "s":
            q += 1
        elif e[0] == "t":
            q -= 1
        qmax = max(qmax, q)
    stop_i = next((i for i, e in enumerate(evs) if e[0] == "x"), len(evs))
    fin_after_stop = sum(1 for e in evs[stop_i:] if e[0] == "f")
    return {"out_of_order": fin_order != sub_order[: len(fin_order)], "queue_max": qmax, "fin_after_stop": fin_after_stop,
            "n_fail": len(scen["fails"]), "n_workers_seen": obs.get("n_worker_ids")}


def run_runner(ctx):
    rng = ctx.rng
    quick = ctx.quick
    rule = ("runner: one scenario = (W∈1..8 workers, N units (quick 50–90, thorough 50–200), scripted durations 0–30 ms in 4 "
            "shapes, failing units none/some/a third/first+last, submission script scheduler-like / more than W outstanding / "
            "all up front / ragged, 0..W results left unconsumed at stop(); plus 'backlog' scenarios: 20–60 units of "
            "50–90 ms × W so that units really wait in the queue, 0 / ≤W / all results unconsumed at stop()) run on the real "
            "aiorunner in a fresh interpreter; "
            "non-trivial = completion order differs from submission order, or a unit failed, or ≥ 2 units waited in the queue; "
            "distinct by hash of the observed event trace.  Every W occurs.")
    ctx.rule = (ctx.rule + " | " if ctx.rule else "") + rule
    n_per_w = 2 if quick else 20
    par = 4 if quick else 6
    n_mut = 6 if quick else 12
    scens = []
    for rep in range(n_per_w):
        for W in range(1, 9):
            v = ["scheduler", "queued"][rep] if (quick and rep < 2) else None
            scens.append(gen_scenario(rng, W, quick, v))
    for W in ((1, 2, 3, 5, 8) if quick else (1, 2, 3, 4, 5, 6, 7, 8)):
        scens.append(gen_scenario(rng, W, quick, "backlog"))
    # boundary scenarios: one unit, fewer units than workers, everything fails
    scens.append({"W": 3, "N": 1, "dur_ms": [5], "fails": [], "burst": 3, "refill": [1], "leave": 0,
                  "variant": "scheduler", "shape": "uniform", "fmode": "none"})
    scens.append({"W": 8, "N": 5, "dur_ms": [30, 0, 10, 0, 20], "fails": [1, 4], "burst": 8, "refill": [1], "leave": 2,
                  "variant": "scheduler", "shape": "uniform", "fmode": "some"})
    scens.append({"W": 2, "N": 12, "dur_ms": [1] * 12, "fails": list(range(12)), "burst": 5, "refill": [1], "leave": 0,
                  "variant": "queued", "shape": "uniform", "fmode": "all"})
    # stop() called with a long queue and busy workers, results abandoned (the scheduler's short-restart case, enlarged)
    scens.append({"W": 3, "N": 40, "dur_ms": [30, 25, 20, 30] * 10, "fails": [7, 38, 39], "burst": 40, "refill": [1], "leave": 3,
                  "variant": "flood", "shape": "long", "fmode": "some"})
    # stop() called while the queue is long and nothing was consumed
    scens.append({"W": 1, "N": 6, "dur_ms": [250] * 6, "fails": [2], "burst": 6, "refill": [1], "leave": 6,
                  "variant": "backlog", "shape": "backlog", "fmode": "some"})
    scens.append({"W": 3, "N": 15, "dur_ms": [300, 0, 280] * 5, "fails": [0, 14], "burst": 15, "refill": [1], "leave": 15,
                  "variant": "backlog", "shape": "backlog", "fmode": "edges"})
    mut_rngs = [__import__("random").Random(rng.random()) for _ in scens]
    tmpdir = tempfile.mkdtemp(prefix="c17r_parent_")
    t0 = time.time()
    pool_alive = 0
    infra = []
    try:
        with ThreadPoolExecutor(max_workers=par) as ex:
            results = list(ex.map(lambda a: _spawn(a[1], tmpdir, a[0]), list(enumerate(scens))))
        retry = [i for i, o in enumerate(results) if o.get("status") in ("start-failed", "no-output", "crashed")]
        for i in retry[:4]:                       # e.g. RunnerError "took too long" on a loaded machine
            ctx.hit(f"runner:retry:{results[i].get('status')}")
            results[i] = _spawn(scens[i], tmpdir, 1000 + i)
        for i, (scen, obs) in enumerate(zip(scens, results)):
            if obs.get("status") == "child-timeout":
                raise _timeout_exc()()
            fails, info = evaluate(scen, obs)
            fails += check_against_model(ctx, scen, obs, mut_rngs[i], n_mut)
            if "infrastructure" in info:
                infra.append(info["infrastructure"])
                ctx.hit("runner:infrastructure-problem")
                continue
            if info.get("pool_alive_after_stop"):
                pool_alive += 1
                ctx.hit("runner:pool-alive-after-stop(observation)")
            feat = _trace_features(obs, scen)
            ctx.count(1, branch=f"runner:W={scen['W']}")
            ctx.hit(f"runner:variant={scen['variant']}")
            ctx.hit(f"runner:leave={'0' if not scen['leave'] else '>0'}")
            for k in ("out_of_order", "fin_after_stop"):
                if feat[k]:
                    ctx.hit(f"runner:{k}")
            if feat["queue_max"] >= 2:
                ctx.hit("runner:queue-held-2-or-more-units")
            if feat["out_of_order"] or feat["n_fail"] or feat["queue_max"] >= 2:
                ctx.distinct(("runner", hashlib.sha256(" ".join(obs.get("events", [])).encode()).hexdigest()))
            if i % 7 == 0:
                ctx.sample({"runner_scenario": {k: scen[k] for k in ("W", "N", "burst", "refill", "leave", "variant", "shape", "fmode")},
                            "n_events": len(obs.get("events", [])), "features": feat, "stop_s": obs.get("stop_s"),
                            "events_head": obs.get("events", [])[:16]})
            done = set()
            for sig, what in fails:
                if sig in done:
                    continue
                done.add(sig)
                ctx.fail(sig, what, _brief(scen, obs))
    finally:
        shutil.rmtree(tmpdir, ignore_errors=True)
    if infra:
        ctx.extra["runner_infrastructure_problems"] = infra[:5]
        if len(infra) > max(2, len(scens) // 4):
            ctx.disagree({"what": "runner scenarios could not be run"}, infra[:3], "-")
    ctx.extra["runner_scenarios"] = len(scens)
    ctx.extra["runner_wall_s"] = round(time.time() - t0, 1)
    ctx.extra["runner_pool_alive_after_stop_in"] = f"{pool_alive} of {len(scens)} scenarios"
    ctx.assumptions += [
        "runner: asyncio and ProcessPoolExecutor internals are not modelled; the model is tied to the real runner by "
        "validating observed event traces (submit/take at the queue, finish at the future, collect at as_completed, stop at the stop event)",
        "runner: the tap serialises queue operations with a lock (it can hide, not create, races between put and get_nowait); "
        "the code itself sleeps 50 ms after every submit for that reason",
        "runner: task functions are short sleeps (0–30 ms); a scenario is declared stuck after "
        f"{STUCK_S:.0f} s without any event, log line or consumer progress",
    ]
    if pool_alive and not POOL_ALIVE_AFTER_STOP_IS_FAILURE:
        ctx.assumptions.append(
            f"runner: OBSERVED in {pool_alive} of {len(scens)} scenarios — when stop() returns the ProcessPoolExecutor is still up "
            "(its W idle worker processes, its manager thread and its QueueFeederThread; asyncrunner.stop() never calls "
            "executor.shutdown()); they exit only once the runner object is dropped and collected, which scheduler() does by "
            "returning.  Tolerated: 'shuts down cleanly' is checked as: at return of stop() the queue is empty, no unit is in "
            "flight, all worker asyncio tasks are done and the loop thread is joined; after dropping the runner + gc no pool "
            "process or thread is left")


def replay_runner(ctx, obj):
    """re-run one recorded scenario on the current code; 1 if it still fails"""
    scen = (obj.get("replay") or {}).get("scenario")
    if not scen:
        print(json.dumps(obj, indent=1, default=str)[:3000])
        return 1
    sig0 = obj.get("signature")
    tmpdir = tempfile.mkdtemp(prefix="c17r_replay_")
    try:
        bad = 0
        for k in range(3):                 # the completion order is not under our control: three runs
            obs = _spawn(scen, tmpdir, k)
            fails, info = evaluate(scen, obs)
            evs = [_parse_ev(t) for t in obs.get("events", [])]
            if obs.get("status") in ("ok", "stuck") and evs:
                if not py_once(evs):
                    fails.append(("C17:runner:trace-not-exactly-once", "observed trace"))
                if not py_fifo(evs):
                    fails.append(("C17:runner:trace-not-fifo", "observed trace"))
            known = {f["signature"] for f in ctx._findings if f["property"] == ctx.prop and f["state"] == "open"}
            fails = [f for f in fails if f[0] not in known or f[0] == sig0]
            print(f"run {k}: status={obs.get('status')} fails={sorted({s for s, _ in fails})} {info}")
            for s, w in fails[:5]:
                print("   ", s, "-", w)
            bad += 1 if fails else 0
        return 1 if bad else 0
    finally:
        shutil.rmtree(tmpdir, ignore_errors=True)
