"""C17 (scheduler half, restart arithmetic) — the restart stop rule of the REAL `setup_config` on a full grid,
compared with the Lean `SchedCtr.setupRule`, and chains of restarts through the real `setup_config` compared with
`SchedCtr.chain` (the effect of a finished `scheduler()` life on the counter — cstep := max(cstep, steps), the file
rewritten with the `restarted_from` that `setup_config` put into the config — is taken from theorem
`C17.life_counters`; the real scheduler lives themselves are run and compared in c17.py's scenarios).
"""
from __future__ import annotations

import importlib.util  # noqa: F401
import os
import shutil
import tempfile

from common import err_kind


N_INTF = 5      # workers ≤ interfaces − 1: up to 4 workers


def _cfg(cstep, rfrom, steps, workers=1):
    cfg = {"runner": {"workers": workers},
           "simulation": {"interfaces": [float(i) for i in range(N_INTF)], "steps": steps, "seed": 0,
                          "shooting_moves": ["sh"] * N_INTF, "load_dir": "load", "tis_set": {"maxlength": 100}},
           "engine": {"class": "turtlemd", "engine": "turtlemd"}, "output": {"data_dir": "./", "screen": 1},
           "current": {"cstep": cstep, "active": list(range(N_INTF)), "locked": [], "size": N_INTF, "traj_num": 7,
                       "frac": {}}}
    if rfrom is not None:
        cfg["current"]["restarted_from"] = rfrom
    return cfg


def _real_setup(cstep, rfrom, steps, workers=1):
    import tomli_w
    from infretis.setup import setup_config
    with open("restart.toml", "wb") as fh:
        tomli_w.dump(_cfg(cstep, rfrom, steps, workers), fh)
    try:
        out = setup_config("restart.toml")
    except Exception as e:  # noqa: BLE001
        return err_kind(e), None
    if out is None:
        return "refuses", None
    return f"continues rfrom={out['current'].get('restarted_from')}", out


def replay_setup(ctx, r):
    """one recorded (cstep, restarted_from, steps, workers) on the current setup_config: 1 if a larger step count is refused"""
    tmp = tempfile.mkdtemp(prefix="vp-c17s-", dir="/var/tmp")
    cwd = os.getcwd()
    os.chdir(tmp)
    try:
        for i in range(N_INTF):
            os.makedirs(f"load/{i}", exist_ok=True)
            with open(f"load/{i}/traj.txt", "w") as fh:
                fh.write("x")
        got, _ = _real_setup(r["cstep"], r.get("restarted_from"), r["steps"], r.get("workers", 1))
        print(f"setup_config on cstep={r['cstep']} restarted_from={r.get('restarted_from')} steps={r['steps']} "
              f"workers={r.get('workers', 1)}: {got}")
        return 1 if (r["steps"] > r["cstep"] and not got.startswith("continues")) else 0
    finally:
        os.chdir(cwd)
        shutil.rmtree(tmp, ignore_errors=True)


def setup_rule_grid(ctx):
    tmp = tempfile.mkdtemp(prefix="vp-c17s-", dir="/var/tmp")
    cwd = os.getcwd()
    os.chdir(tmp)
    try:
        for i in range(N_INTF):
            os.makedirs(f"load/{i}", exist_ok=True)
            with open(f"load/{i}/traj.txt", "w") as fh:
                fh.write("x")
        # the whole grid incl. the worker count (the rule reads it nowhere: theorem setup_rule_ignores_workers), so
        # that steps − cstep < workers occurs for every cstep / restarted_from
        cases = [(c, r, t, w) for w in (1, 2, 3, 4) for c in range(0, 5) for r in [None, 0, 1, 2, 3, 4, 5]
                 for t in range(0, 8)]
        outs = ctx.driver([f"sched-setup {c} {'-' if r is None else r} {t} {w}" for (c, r, t, w) in cases]) \
            if ctx._driver_ok else [None] * len(cases)
        for (c, r, t, w), mo in zip(cases, outs):
            got, cfg = _real_setup(c, r, t, w)
            ctx.count(1, branch=f"setup-rule:{got.split()[0]}")
            if c < t < c + w:
                ctx.hit("setup-rule:raise-smaller-than-workers")
            ctx.distinct(("setup-rule", c, r, t, w))
            if mo is not None and mo != got:
                ctx.disagree({"cstep": c, "restarted_from": r, "steps": t, "workers": w}, got, mo)
            if t > c and not got.startswith("continues"):
                ctx.fail("C17:larger-step-count-refused",
                         f"restart.toml with cstep={c}, restarted_from={r}, steps={t}, workers={w}: setup_config {got}",
                         {"cstep": c, "restarted_from": r, "steps": t, "workers": w})
            if cfg is not None and (cfg["current"]["cstep"] != c or cfg["simulation"]["steps"] != t):
                ctx.fail("C17:setup-config-changes-counters",
                         f"setup_config returned cstep={cfg['current']['cstep']} steps={cfg['simulation']['steps']} "
                         f"for a file with cstep={c} steps={t}", {"cstep": c, "restarted_from": r, "steps": t, "workers": w})
        # chains of restarts: the real setup_config decides each life; a life that runs ends with cstep = max(cstep,
        # steps) and rewrites the file with the restarted_from setup_config set
        rng = ctx.rng
        chains, lines = [], []
        for _ in range(40 if ctx.quick else 400):
            c0 = rng.randint(0, 4)
            r0 = rng.choice([None, c0, rng.randint(0, 4)])
            ts = [rng.randint(0, 8) for _ in range(rng.randint(1, 6))]
            if rng.random() < 0.5:
                ts = sorted(ts)
                ts = [x for t in ts for x in ([t, t] if rng.random() < 0.4 else [t])]
            w = rng.randint(1, 4)
            chains.append((c0, r0, ts, w))
            lines.append(f"sched-chain {c0} {'-' if r0 is None else r0} {len(ts)} {' '.join(map(str, ts))}".rstrip())
        outs = ctx.driver(lines) if ctx._driver_ok else [None] * len(lines)
        for (c0, r0, ts, w), mo in zip(chains, outs):
            c, r, moves, ran = c0, r0, 0, []
            for t in ts:
                got, cfg = _real_setup(c, r, t, w)
                if cfg is None:
                    ran.append(0)
                    continue
                ran.append(1)
                r = cfg["current"].get("restarted_from")
                moves += max(c, t) - c
                c = max(c, t)
            code = f"cstep={c} rfrom={'-' if r is None else r} moves={moves} ran={len(ran)}{''.join(' ' + str(x) for x in ran)}"
            ctx.count(1, branch="restart-chain")
            ctx.distinct(("restart-chain", c0, r0, tuple(ts)))
            if mo is not None and mo != code:
                ctx.disagree({"cstep0": c0, "restarted_from0": r0, "steps": ts, "workers": w}, code, mo)
            if c != max([c0] + ts) and all(ran):
                ctx.fail("C17:chain-final-cstep", f"{code}", {"cstep": c0, "restarted_from": r0, "steps": ts[0], "workers": w})
    finally:
        os.chdir(cwd)
        shutil.rmtree(tmp, ignore_errors=True)
