"""C17 (runner half, fine-grained) — the runner's OWN code as a transition system, tied step for step.

The Lean model `Model/RunnerSys.lean` is a transition system of `asyncrunner.py`'s code itself
(`future_list.add/as_completed`, `aiorunner.__init__/set_task/start/_start_tasks/_task_wrapper/submit_work/
_add_work_to_queue/stop/wait_for_tasks_to_end`).  Here the REAL methods run, all of them, with the *runtime*
(asyncio's scheduler, the executor, threads, time) replaced from outside by the check's PRNG:

* the names `asyncio`, `concurrent`, `threading`, `time` in the namespace of `infretis.asyncrunner` are
  replaced (for the duration of one simulation) by proxies that forward everything except: event loop / thread /
  pool creation (fakes that record calls), `create_task` (keeps the real `_task_wrapper` coroutine object, not
  started), `asyncio.sleep` / `loop.run_in_executor` (awaitables that hand control back to the simulation),
  `time.sleep` (a scheduling point), `asyncio.run` (real for `_add_work_to_queue`, manual for
  `wait_for_tasks_to_end`), `all_tasks`;
* the simulation resumes the real worker coroutines with `coro.send / coro.throw` — exactly asyncio's atomicity:
  a coroutine runs from one `await` to the next — in an order drawn from the PRNG, runs the unit's task function
  when a worker that awaits `run_in_executor` is resumed, and interleaves these resumes between any two
  `fut.done()` calls of the real `as_completed()` (futures are added to the real `future_list` behind a thin
  object whose `done()` is a scheduling point) and between any two polls of the real `stop()`;
* every step is logged as an event of the Lean system; afterwards the model runs on the same event list and the
  state after EVERY event is compared (worker program counters, queue, future list, done futures with their
  values, stop event, delivered results, `task_done` count, `None` returns), the future asked by each `done()`
  call is compared with the model's scan position, and the protocol events the model emits are checked by the
  abstract protocol (`Runner.accepts`, refinement seen on data);
* the property is evaluated directly on what the real code did: every unit's task function ran exactly once, every
  future was delivered exactly once with its own result / exception, `as_completed()` returned `None` only on an
  empty list, `stop()` returned with queue empty, all worker tasks ended (none crashed), every future done, loop
  stop scheduled and thread joined.

`future_list` alone is also tied as a data structure against scripted `done()` answers (duplicates, non-monotone
answers included).
"""
from __future__ import annotations

import importlib.util  # noqa: F401
import random
import re

BAD = 999_999
MAX_STEPS = 20000


class Stuck(Exception):
    pass


class ScriptExhausted(Exception):
    pass


class Susp:
    """awaitable that hands control to whoever drives the coroutine"""

    def __init__(self, kind, payload=None):
        self.kind, self.payload = kind, payload

    def __await__(self):
        r = yield self
        return r


class FakeTask:
    def __init__(self, coro):
        self.coro = coro
        self.susp = None       # None = not started; Susp when suspended
        self.state = "i"       # i | a<u> | e | c
        self.exc = None

    def done(self):
        return self.state in ("e", "c")


class FakeLoop:
    def __init__(self, env):
        self.env = env
        self.calls = []

    def run_forever(self):
        self.calls.append("run_forever")

    def stop(self):
        self.calls.append("stop")

    def call_soon_threadsafe(self, fn, *a):
        self.calls.append(("call_soon_threadsafe", getattr(fn, "__name__", "?")))
        self.env.shutdown.append("loop.stop-scheduled" if getattr(fn, "__name__", "") == "stop" else "call_soon")

    def run_in_executor(self, executor, fn):
        if executor is not self.env.executor:
            self.env.notes.append("run_in_executor with a foreign executor")
        return Susp("exec", fn)


class FakeThread:
    def __init__(self, env, target=None, daemon=None, **kw):
        self.env, self.target, self.daemon = env, target, daemon
        self.started = False

    def start(self):
        self.started = True

    def join(self, timeout=None):
        self.env.shutdown.append("thread.join")

    def is_alive(self):
        return False


class FakeExecutor:
    def __init__(self, *a, **kw):
        self.kw = kw


class Env:
    """one simulated process: proxies + logs"""

    def __init__(self, rng, nw, intensity):
        self.rng, self.nw, self.intensity = rng, nw, intensity
        self.events = []          # fine events (tokens)
        self.asked = []           # (index of the `ac` event, unit asked)
        self.notes = []
        self.shutdown = []
        self.loop = None
        self.executor = None
        self.main = "i"
        self.ran = {}             # unit -> number of times the task function ran
        self.steps = 0
        self.submit_sleeps = 0
        self.runner = None
        self.snap = []            # real state digest after every event

    # ---- proxies
    def proxies(self):
        import asyncio as real_asyncio
        import concurrent.futures as real_cf
        import threading as real_threading
        import time as real_time
        env = self

        class CfProxy:
            def __getattr__(self, n):
                return getattr(real_cf, n)

            def ProcessPoolExecutor(self, *a, **kw):  # noqa: N802
                env.executor = FakeExecutor(*a, **kw)
                return env.executor

        class ConcurrentProxy:
            futures = CfProxy()

        class ThreadingProxy:
            def __getattr__(self, n):
                return getattr(real_threading, n)

            def Thread(self, *a, **kw):  # noqa: N802
                env.thread = FakeThread(env, *a, **kw)
                return env.thread

        class TimeProxy:
            def __getattr__(self, n):
                return getattr(real_time, n)

            def sleep(self, dt):
                env.time_sleep(dt)

        class AsyncioProxy:
            def __getattr__(self, n):
                return getattr(real_asyncio, n)

            def new_event_loop(self):
                env.loop = FakeLoop(env)
                return env.loop

            def set_event_loop(self, loop):
                pass

            def get_running_loop(self):
                return env.loop

            def sleep(self, dt):
                return Susp("sleep", dt)

            def create_task(self, coro):
                return FakeTask(coro)

            def run_coroutine_threadsafe(self, coro, loop):
                # `_start_tasks` has no suspension point: run it to its end
                class R:
                    def __init__(self):
                        self.exc = None
                        try:
                            coro.send(None)
                            env.notes.append("coroutine given to run_coroutine_threadsafe suspended")
                        except StopIteration:
                            pass
                        except Exception as e:  # noqa: BLE001
                            self.exc = e

                    def result(self, timeout=None):
                        if self.exc is not None:
                            raise self.exc
                        return None
                return R()

            def all_tasks(self, loop=None):
                return {t for t in (env.runner._tasks or []) if not t.done()}

            def run(self, coro):
                name = getattr(getattr(coro, "cr_code", None), "co_name", "")
                if name == "wait_for_tasks_to_end":
                    return env.drive_wait_for_tasks(coro)
                return real_asyncio.run(coro)

        return {"asyncio": AsyncioProxy(), "concurrent": ConcurrentProxy(), "threading": ThreadingProxy(),
                "time": TimeProxy()}

    # ---- logging
    def log(self, tok):
        self.steps += 1
        if self.steps > MAX_STEPS:
            raise Stuck(f"more than {MAX_STEPS} steps")
        self.events.append(tok)
        self.snap.append(self.digest())

    def digest(self):
        r = self.runner
        tasks = r._tasks or []
        q = [int(it[0]["id"]) for it in list(r._queue._queue)]
        done = sorted(f"{u}:{self.fut_state(f)}" for u, f in self.futs.items() if f.done())
        return {"pcs": [t.state for t in tasks], "queue": q, "created": list(self.futs),
                "fl": [h.u for h in self.flist._futures], "done": done,
                "stop": 1 if r._stop_event.is_set() else 0, "main": self.main,
                "deliv": [f"{u}:{k}:{p}" for (u, k, p) in self.delivered], "none": self.none_returns,
                "td": len(self.futs) - r._queue._unfinished_tasks}

    @staticmethod
    def fut_state(f):
        if not f.done():
            return "p"
        e = f.exception()
        return f"exc:{exc_payload(e)}" if e is not None else f"ok:{ok_payload(f.result())}"

    # ---- scheduling points
    def live(self):
        return [w for w, t in enumerate(self.runner._tasks or []) if not t.done()]

    def interleave(self, force=False):
        """a PRNG-chosen number of worker resumes (the other thread acts)"""
        k = 0
        r = self.rng.random()
        if r < self.intensity:
            k = 1 + (self.rng.random() < 0.4) + (self.rng.random() < 0.2)
        if force:
            k = max(k, 1)
        for _ in range(k):
            lv = self.live()
            if not lv:
                return
            self.resume(self.rng.choice(lv))

    def resume(self, w):
        t = self.runner._tasks[w]
        tok = f"r:{w}"
        try:
            if t.susp is not None and t.susp.kind == "exec":
                fn = t.susp.payload
                try:
                    res = fn()
                    exc = None
                except Exception as e:  # noqa: BLE001
                    res, exc = None, e
                if exc is None:
                    tok = f"r:{w}:ok:{ok_payload(res)}"
                    y = t.coro.send(res)
                else:
                    tok = f"r:{w}:exc:{exc_payload(exc)}"
                    y = t.coro.throw(exc)
            else:
                y = t.coro.send(None)
            t.susp = y
            if not isinstance(y, Susp):
                self.notes.append(f"worker {w} awaited something unknown: {type(y).__name__}")
                t.state = "i"
            elif y.kind == "exec":
                u = self.unit_of_partial(y.payload)
                t.state = f"a{u}"
            else:
                t.state = "i"
        except StopIteration:
            t.state, t.susp = "e", None
        except Exception as e:  # noqa: BLE001
            t.state, t.susp, t.exc = "c", None, e
        self.log(tok)

    @staticmethod
    def unit_of_partial(fn):
        # the work unit among the arguments of the partial (`partial(task_f, md)` or `partial(_run_unit, task_f, md)`)
        try:
            return int(next(a for a in fn.args if isinstance(a, dict))["id"])
        except Exception:  # noqa: BLE001
            return BAD

    def time_sleep(self, dt):
        if self.main == "q":
            # a failed poll of `while self._queue.qsize() > 0`
            self.log("xq")
            self.stop_polls += 1
            self.interleave(force=self.stop_polls % 3 == 0)
        else:
            self.submit_sleeps += 1

    def drive_wait_for_tasks(self, coro):
        self.stop_polls = 0
        while True:
            try:
                y = coro.send(None)
            except StopIteration:
                self.main = "f"
                self.log("xt")
                return None
            if not (isinstance(y, Susp) and y.kind == "sleep"):
                self.notes.append("wait_for_tasks_to_end awaited something unknown")
            self.log("xt")
            self.stop_polls += 1
            self.interleave(force=self.stop_polls % 3 == 0)


def ok_payload(r):
    try:
        v = r["out"]
        return v if isinstance(v, int) and 0 <= v < BAD else BAD
    except Exception:  # noqa: BLE001
        return BAD


def exc_payload(e):
    m = re.fullmatch(r"boom (\d+)", str(e))
    return int(m.group(1)) if (m and isinstance(e, ValueError)) else BAD


class DoneHook:
    """what is added to the real future_list: `done()` is a scheduling point"""

    def __init__(self, env, u, fut):
        self.env, self.u, self.fut = env, u, fut

    def done(self):
        env = self.env
        env.checks += 1
        env.interleave(force=env.checks % 4 == 0)
        env.asked.append((len(env.events), self.u))
        ans = self.fut.done()
        if ans:
            env.pending_ret = self
        else:
            env.log("ac")
        return ans

    def result(self):
        return self.fut.result()


def gen_scenario(rng, quick):
    nw = rng.choice([1, 1, 2, 2, 3, 4])
    n = rng.choice([0, 1, 2, 3, 5, 8, 12] if quick else [0, 1, 3, 8, 12, 20, 30])
    variant = rng.choice(["scheduler", "scheduler", "flood", "ragged", "queued"])
    if variant == "scheduler":
        burst, refill = nw, [1]
    elif variant == "flood":
        burst, refill = max(n, 1), [1]
    elif variant == "queued":
        burst, refill = rng.randint(nw + 1, 3 * nw + 2), [1]
    else:
        burst, refill = rng.randint(1, 2 * nw), [rng.randint(0, 2) for _ in range(5)]
    fails = sorted(u for u in range(n) if rng.random() < rng.choice([0.0, 0.15, 0.5]))
    leave = rng.choice([0, 0, 0, rng.randint(0, nw), n])
    return {"nw": nw, "n": n, "burst": burst, "refill": refill, "fails": fails, "leave": min(leave, n),
            "intensity": rng.choice([0.15, 0.4, 0.8]), "variant": variant, "seed": rng.randrange(1 << 30),
            "extra_none_call": rng.random() < 0.3}


def simulate(scen):
    """run the real code under the simulated runtime; returns the observations"""
    import infretis.asyncrunner as AR
    rng = random.Random(scen["seed"])
    env = Env(rng, scen["nw"], scen["intensity"])
    env.futs, env.delivered, env.none_returns, env.checks, env.stop_polls = {}, [], 0, 0, 0
    env.pending_ret = None
    obs = {"status": "ok", "errors": []}
    saved = {k: getattr(AR, k) for k in ("asyncio", "concurrent", "threading", "time")}
    fails = set(scen["fails"])

    def task_f(md):
        u = md["id"]
        env.ran[u] = env.ran.get(u, 0) + 1
        if u in fails:
            raise ValueError(f"boom {u}")
        out = dict(md)
        out["out"] = 3 * u + 1
        return out

    try:
        for k, v in env.proxies().items():
            setattr(AR, k, v)
        # ---- set-up: the real setup_runner (aiorunner(config, workers); set_task(run_md); start(); future_list())
        import types
        import infretis.setup as SU
        from infretis.core.tis import run_md
        st = types.SimpleNamespace(config={"runner": {"workers": scen["nw"]}})
        runner, env.flist = SU.setup_runner(st)
        env.runner = runner
        if runner._task_f is not run_md:
            obs["errors"].append("setup_runner did not attach run_md")
        if not isinstance(env.flist, AR.future_list):
            obs["errors"].append("setup_runner did not return a future_list")
        runner._task_f = task_f          # the unit of work of this simulation (read by the coroutine at every unit)
        obs["n_tasks"] = len(runner._tasks or [])
        obs["n_workers"] = runner.n_workers()
        nxt = [0]
        n = scen["n"]

        def submit_some(k):
            while k > 0 and nxt[0] < n:
                u = nxt[0]
                nxt[0] += 1
                env.interleave()
                fut = runner.submit_work({"id": u})
                env.futs[u] = fut
                env.flist.add(DoneHook(env, u, fut))
                env.log(f"s:{u}")
                k -= 1

        def consume_one():
            env.interleave()
            was_empty = len(env.flist._futures) == 0
            env.log("ae")
            env.pending_ret = None
            h = env.flist.as_completed()
            if h is None:
                env.none_returns += 1
                if not was_empty:
                    obs["errors"].append("as_completed returned None on a non-empty list")
                # the `ae` event already logged covers the None return: refresh its digest
                env.snap[-1] = env.digest()
                return False
            if h is not env.pending_ret:
                obs["errors"].append("as_completed returned a future other than the one whose done() was True last")
            try:
                r = h.result()
                kind, pay = "ok", ok_payload(r)
            except Exception as e:  # noqa: BLE001
                kind, pay = "exc", exc_payload(e)
            env.delivered.append((h.u, kind, pay))
            env.log("ac")
            return True

        target = n - scen["leave"]
        submit_some(scen["burst"])
        taken = 0
        while taken < target:
            if not consume_one():
                if nxt[0] >= n:
                    obs["errors"].append("future list empty although results are outstanding")
                    break
                submit_some(scen["burst"])
                continue
            k = scen["refill"][taken % len(scen["refill"])]
            taken += 1
            submit_some(k)
        while nxt[0] < n:
            submit_some(scen["burst"])
        if scen["leave"] == 0 and scen["extra_none_call"]:
            while consume_one():
                pass
        # ---- stop
        env.interleave()
        env.main = "q"
        env.log("xe")
        env.stop_polls = 0
        ev = runner._stop_event
        o_set = ev.set

        def tap_set():
            o_set()
            env.main = "t"
            env.log("xq")
        ev.set = tap_set
        runner.stop()
        obs["stop_returned"] = True
    except Stuck as e:
        obs["status"] = "stuck"
        obs["errors"].append(str(e))
    except Exception as e:  # noqa: BLE001
        import traceback
        obs["status"] = "raised"
        obs["errors"].append(f"{type(e).__name__}: {e} @ {traceback.format_exc()[-600:]}")
    finally:
        for k, v in saved.items():
            setattr(AR, k, v)
    obs.update({"events": env.events, "snap": env.snap, "asked": env.asked, "notes": env.notes,
                "shutdown": env.shutdown, "ran": dict(env.ran), "delivered": list(env.delivered),
                "none_returns": env.none_returns, "main": env.main, "submit_sleeps": env.submit_sleeps,
                "final": env.digest() if env.runner is not None and getattr(env, "flist", None) is not None else None,
                "thread_started": getattr(getattr(env, "thread", None), "started", None),
                "pool_kw": getattr(env.executor, "kw", None)})
    return obs


def evaluate(scen, obs):
    """the property on the real run, without the model"""
    out = []
    n, F = scen["n"], set(scen["fails"])
    if obs["status"] == "stuck":
        out.append(("C17:rsys:stuck", f"simulation made no end: {obs['errors']}"))
        return out
    if obs["status"] != "ok":
        out.append(("C17:rsys:runner-raised", f"{obs['errors']}"))
        return out
    for e in obs["errors"]:
        out.append(("C17:rsys:as-completed-misbehaves", e))
    for u in range(n):
        c = obs["ran"].get(u, 0)
        if c != 1:
            out.append(("C17:rsys:unit-not-run-exactly-once", f"task function of unit {u} ran {c} times"))
    for u in obs["ran"]:
        if not 0 <= u < n:
            out.append(("C17:rsys:unknown-unit-ran", f"unit {u}"))
    seen = {}
    for (u, kind, pay) in obs["delivered"]:
        seen[u] = seen.get(u, 0) + 1
        good = (kind == "exc" and pay == u) if u in F else (kind == "ok" and pay == 3 * u + 1)
        if not good:
            out.append(("C17:rsys:wrong-outcome-delivered", f"future of unit {u} delivered {kind}:{pay}"))
    for u, c in seen.items():
        if c > 1:
            out.append(("C17:rsys:result-delivered-twice", f"future of unit {u} came out of as_completed {c} times"))
    want = n - scen["leave"]
    if len(seen) != want:
        out.append(("C17:rsys:result-not-delivered", f"{len(seen)} distinct futures delivered, {want} asked for"))
    fin = obs.get("final") or {}
    if not obs.get("stop_returned"):
        out.append(("C17:rsys:stop-did-not-return", "stop() did not return"))
    else:
        if fin.get("queue"):
            out.append(("C17:rsys:queue-not-empty-after-stop", f"{fin['queue']}"))
        if any(p != "e" for p in fin.get("pcs", [])):
            out.append(("C17:rsys:worker-task-not-ended-cleanly", f"worker tasks after stop(): {fin.get('pcs')}"))
        if len(fin.get("done", [])) != n:
            out.append(("C17:rsys:future-pending-after-stop", f"{len(fin.get('done', []))} of {n} futures done after stop()"))
        if not fin.get("stop"):
            out.append(("C17:rsys:stop-event-not-set", "stop() returned without setting the stop event"))
        if obs["shutdown"] != ["loop.stop-scheduled", "thread.join"]:
            out.append(("C17:rsys:loop-thread-not-shut-down", f"shutdown calls: {obs['shutdown']}"))
    if obs.get("n_tasks") != scen["nw"]:
        out.append(("C17:rsys:wrong-number-of-worker-tasks", f"{obs.get('n_tasks')} tasks for {scen['nw']} workers"))
    return out


def parse_state(tok_line):
    """`main=i stop=0 var=3 … pcs=1 i queue=0 …` → dict of lists / ints"""
    d = {}
    toks = tok_line.split()
    key = None
    for t in toks:
        if "=" in t and re.match(r"^[a-z]+=", t):
            key, v = t.split("=", 1)
            d[key] = [v]
        elif key is not None:
            d[key].append(t)
    out = {}
    for k, v in d.items():
        if k in ("main",):
            out[k] = v[0]
        elif k in ("stop", "var", "none", "td"):
            out[k] = int(v[0])
        elif k == "scan":
            out[k] = None if v[0] == "-" else v[1:]
        else:
            out[k] = v[1:]
    return out


def compare_with_model(ctx, scen, obs):
    """state after every event, model vs code; returns predicate failures seen through the model (none here)"""
    evs = obs["events"]
    case = {"scenario": scen}
    lines = [f"rsys-trace {scen['nw']} {len(evs)} {' '.join(evs)}".rstrip(),
             f"rsys-run {scen['nw']} {len(evs)} {' '.join(evs)}".rstrip()]
    out = ctx.driver(lines)
    states = out[0].split(" ; ") if out[0] else []
    if states and states[-1] == "REJ" or len(states) != len(evs):
        i = len(states) - 1 if states and states[-1] == "REJ" else len(states)
        ctx.disagree({**case, "event_index": i, "event": evs[i] if i < len(evs) else None,
                      "context": evs[max(0, i - 10): i + 2]}, "happened on the real runner code",
                     "the model's system cannot do this step")
        return
    prev = None
    asked = dict(obs["asked"])
    for i, (tok, st, real) in enumerate(zip(evs, states, obs["snap"])):
        m = parse_state(st)
        mine = {"pcs": m["pcs"], "queue": [int(x) for x in m["queue"]], "created": [int(x) for x in m["created"]],
                "fl": [int(x) for x in m["fl"]], "done": sorted(m["done"]), "stop": m["stop"], "main": m["main"],
                "deliv": m["deliv"], "none": m["none"], "td": m["td"]}
        if mine != real:
            diff = {k: (real[k], mine[k]) for k in mine if mine[k] != real[k]}
            ctx.disagree({**case, "event_index": i, "event": tok, "context": evs[max(0, i - 10): i + 1]},
                         f"real state after the event differs in {sorted(diff)}: {diff}", "(real, model)")
            return
        if tok == "ac" and i in asked and prev is not None:
            scan = prev.get("scan")
            if not scan or int(scan[0]) != asked[i]:
                ctx.disagree({**case, "event_index": i, "what": "which future as_completed asks next"},
                             f"real code asked done() of unit {asked[i]}", f"model scan = {scan}")
                return
        prev = m
    r = out[1]
    if not r.startswith("acc=1") or not r.rstrip().endswith("cacc=1"):
        ctx.disagree({**case, "what": "protocol events emitted by the system model are not accepted by the abstract protocol"},
                     "-", r[-300:])
    # variant: never increases during stop(), strictly decreases whenever the state changes (theorem stop_variant)
    xe = evs.index("xe") if "xe" in evs else None
    if xe is not None:
        vs = [parse_state(s)["var"] for s in states[xe:]]
        for a, (v0, v1) in enumerate(zip(vs, vs[1:])):
            same = states[xe + a].replace(f"var={v0}", "") == states[xe + a + 1].replace(f"var={v1}", "")
            if v1 > v0 or (v1 == v0 and not same):
                ctx.disagree({**case, "what": "variant of stop()"}, f"variant {v0} -> {v1} at event {xe + a + 1}", "theorem stop_variant")
                break


# ---------------------------------------------------------------- future_list as a data structure
class ScriptFut:
    def __init__(self, u, script, log):
        self.u, self.script, self.log = u, script, log

    def done(self):
        self.log.append(self.u)
        if not self.script:
            raise ScriptExhausted()
        return self.script.pop(0)


def future_list_tie(ctx, rng, n_cases):
    from infretis.asyncrunner import future_list
    cases, lines = [], []
    for _ in range(n_cases):
        k = rng.choice([0, 1, 1, 2, 3, 4, 6])
        ids = [rng.randrange(4) if rng.random() < 0.3 else 10 + i for i in range(k)]      # duplicates possible
        m = rng.randint(0, 3 * k + 2)
        p = rng.choice([0.1, 0.3, 0.6])
        answers = [rng.random() < p for _ in range(m)]
        cases.append((ids, answers))
        lines.append(f"rsys-fl {len(ids)} {' '.join(map(str, ids))} {len(answers)} {' '.join('1' if a else '0' for a in answers)}"
                     .replace("  ", " ").rstrip())
    outs = ctx.driver(lines) if ctx._driver_ok else [None] * len(lines)
    for (ids, answers), mo in zip(cases, outs):
        script, log = list(answers), []
        objs = {}
        fl = future_list()
        for u in ids:
            objs.setdefault(u, ScriptFut(u, script, log))     # the same id = the same future object added twice
            fl.add(objs[u])
        try:
            r = fl.as_completed()
            ret = "None" if r is None else str(r.u)
        except ScriptExhausted:
            r, ret = None, "spin"
            log.pop()                                          # the call that found no answer
        after = [f.u for f in fl._futures]
        calls = len(log)
        code = f"ret={ret} calls={calls} asked={calls}{''.join(' ' + str(u) for u in log)} futs={len(after)}{''.join(' ' + str(u) for u in after)}"
        ctx.count(1, branch=f"future_list:{'None' if ret == 'None' else 'spin' if ret == 'spin' else 'ret'}")
        ctx.distinct(("fl", tuple(ids), tuple(answers)))
        if mo is not None and mo != code:
            ctx.disagree({"future_list": ids, "done_answers": [int(a) for a in answers]}, code, mo)
        # the property on the data structure: returned future was in the list and answered True last; exactly one
        # occurrence removed, everything else kept in order; None iff the list was empty
        rep = {"future_list": ids, "done_answers": [int(a) for a in answers]}
        if ret == "None" and ids:
            ctx.fail("C17:future_list:none-on-non-empty-list", f"as_completed() returned None, list {ids}", rep)
        if ret not in ("None", "spin"):
            u = int(ret)
            exp = list(ids)
            if u in exp:
                exp.remove(u)
            if u not in ids or after != exp or not (log and log[-1] == u):
                ctx.fail("C17:future_list:returned-future-not-removed-once",
                         f"returned {u}; list before {ids}, after {after}; done() calls {log}", rep)
        if ret == "spin" and after != ids:
            ctx.fail("C17:future_list:list-changed-without-return", f"{ids} -> {after}", rep)


def not_started_case(ctx):
    """`submit_work` on a runner whose worker tasks were never started raises RunnerError; model: no worker task
    (`pcs = []`) → the submit step is not possible"""
    import infretis.asyncrunner as AR
    env = Env(random.Random(0), 1, 0.0)
    saved = {k: getattr(AR, k) for k in ("asyncio", "concurrent", "threading", "time")}
    try:
        for k, v in env.proxies().items():
            setattr(AR, k, v)
        r = AR.aiorunner({}, 1)
        env.runner = r
        r.set_task(lambda md: md)
        try:
            r.submit_work({"id": 0})
            got = "accepted"
        except AR.RunnerError:
            got = "RunnerError"
        except Exception as e:  # noqa: BLE001
            got = type(e).__name__
    finally:
        for k, v in saved.items():
            setattr(AR, k, v)
    ctx.count(1, branch="rsys:submit-before-start")
    if ctx._driver_ok:
        mo = ctx.driver(["rsys-run 0 1 s:0"])[0]
        if (got == "RunnerError") != mo.startswith("acc=0"):
            ctx.disagree({"what": "submit_work before start()"}, got, mo)


def run_sys(ctx):
    rng = ctx.rng
    n_scen = 400 if ctx.quick else 6000
    ctx.rule = (ctx.rule + " | " if ctx.rule else "") + (
        "rsys: one scenario = (workers 1..4, units 0..12 (thorough ..30), scheduler-like / flood / queued / ragged "
        "submission, failing units, 0..W or all results left unconsumed at stop(), interleaving intensity) run on the REAL "
        "asyncrunner code under a PRNG-driven runtime, compared with the Lean system after every event; distinct by the "
        "event list; future_list: random lists (with duplicates) × scripted done() answers")
    future_list_tie(ctx, rng, 1000 if ctx.quick else 20000)
    not_started_case(ctx)
    for i in range(n_scen):
        scen = gen_scenario(rng, ctx.quick)
        obs = simulate(scen)
        ctx.count(1, branch=f"rsys:W={scen['nw']}")
        ctx.hit(f"rsys:variant={scen['variant']}")
        ctx.hit(f"rsys:leave={'0' if not scen['leave'] else '>0'}")
        ctx.distinct(("rsys", tuple(obs["events"])))
        ctx.hit("rsys:events", len(obs["events"]))
        if any(e == "xq" for e in obs["events"][:-1]) and obs["events"].count("xq") > 1:
            ctx.hit("rsys:stop-waited-for-queue")
        if obs["events"].count("xt") > 1:
            ctx.hit("rsys:stop-waited-for-tasks")
        if obs["notes"]:
            ctx.disagree({"scenario": scen}, obs["notes"][:3], "-", note="simulated runtime saw something it does not know")
        done = set()
        for sig, what in evaluate(scen, obs):
            if sig not in done:
                done.add(sig)
                ctx.fail(sig, what, {"rsys_scenario": scen, "events_head": obs["events"][:60]})
        if ctx._driver_ok and obs["status"] == "ok":
            compare_with_model(ctx, scen, obs)
        if i % 25 == 0:
            ctx.sample({"rsys_scenario": scen, "n_events": len(obs["events"]), "events_head": obs["events"][:24]})
    ctx.assumptions.append(
        "rsys: asyncio's scheduler, the executor, threads and time are replaced by a PRNG-driven runtime that resumes the "
        "real coroutines (atomic between awaits, as asyncio does); queue.put from the submitting thread is atomic "
        "(the code sleeps 50 ms after it because it is not)")


def replay_sys(ctx, obj):
    r = obj.get("replay") or {}
    if "rsys_scenario" in r:
        scen = r["rsys_scenario"]
        obs = simulate(scen)
        fails = evaluate(scen, obs)
        for s, w in fails[:6]:
            print("still fails:", s, "-", w)
        return 1 if fails else 0
    if "future_list" in r:
        from infretis.asyncrunner import future_list
        ids, answers = r["future_list"], [bool(a) for a in r["done_answers"]]
        script, log, objs = list(answers), [], {}
        fl = future_list()
        for u in ids:
            objs.setdefault(u, ScriptFut(u, script, log))
            fl.add(objs[u])
        try:
            x = fl.as_completed()
        except ScriptExhausted:
            print("spins")
            return 0
        after = [f.u for f in fl._futures]
        exp = list(ids)
        if x is not None and x.u in exp:
            exp.remove(x.u)
        bad = (x is None and ids) or (x is not None and after != exp)
        print("returned", None if x is None else x.u, "list after", after)
        return 1 if bad else 0
    return 1
