"""C18 — invalid configurations are rejected up front; accepted ones initialise.

Tie: the real `setup_config` (TOML file in a temp dir → defaults → `check_config`) and the real
`check_config` on the raw dict, against the Lean model `Infretis.Config.setupConfig / check`
(same accept / error kind, same normalised fields), over an exhaustive product of small domains
of every validated field plus a seeded random mix of all fields.

The five defects found by this check (cap below a wire-fencing interface, cap 0.0 skipped, IndexError on an
empty interface list, ensemble_engines too short / with an empty list) were repaired in /repo (729bb50); the
model mirrors the repaired code and the old witnesses stay in WITNESSES and corpus/C18 as regression cases.

Property predicate, evaluated on the implementation's own outcome (independent Python
transcription `py_valid`, cross-checked against Lean's `validB`, which `validB_iff` proves equal
to `Valid`):
  * accepted  ⇒ every clause of the property's list holds  (else C18:<hole>),
  * invalid   ⇒ rejected with TOMLConfigError              (else C18:invalid-rejected-with-…),
  * accepted (and valid) ⇒ REPEX_state + initiate_ensembles + load_paths_from_disk + load_paths (valid initial
    paths whose extreme order value sits exactly ON an interface — own, higher, cap, last, λ0, λ₋₁ — or strictly
    inside) + the first W picks (prep_md_items) raise nothing, and the weight row of every initial path is the
    one the property demands (entry j of a shooting ensemble = 1 iff λ_j ≤ max, non-strict; all entries equal to
    the Lean model Infretis.WF.cvVector of calc_cv_vector),
  * restart.toml written by REPEX_state.write_toml, read back by setup_config, equals the
    configuration it was written from (except current.restarted_from), and initialises again through the
    real setup_internal (stored paths read by load_paths_from_disk) up to the first W picks,
  * the restart route: the `[current]` table of a restart.toml written by the library is kept, the validated
    tables are edited into the case (every class of invalid configuration of the generators), and the file goes
    through the real setup_config (restart branch incl. clean_data_file, both entry forms): it must raise
    TOMLConfigError exactly when the model (Infretis.Config.setupFile) does, return None exactly when the model
    does, and whatever it returns must be Valid (else C18:restart-route:<clause>).

Extension pass (model Infretis/Model/ConfigInit.lean):
  * every real initialisation is also compared with the Lean model of the whole start-up (`load` op =
    Infretis.Config.startUp = setup_config ; setup_internal): md_items cap / interfaces / moves and the W matrix of the
    state after load_paths, or the error kind raised on the way;
  * direct predicates on the real state, independent of the model: every initial path's weight vector (path.weights,
    traj_data, the rows of state.state — also after a restart through the real setup_internal) equals
    `spec_weight_row` (scan-free wire-fencing weight over [λ_k, CONFIGURED cap), cap 0.0 / 0 / equal to an interface
    included), `state.cap` and `md_items['cap']` are the configured value (C18:initial-weights[:state-matrix],
    C18:state-cap-not-the-configured-cap, C18:restart-route:md_items-not-the-configuration);
  * initial path families "over-cap" (L→R, R→R, R→L pieces around the cap) and "jump-over-fence" (valid by
    check_interfaces, no frame inside a wire-fencing region: own weight 0 → AssertionError in add_traj; outside PathsOk,
    compared with the model, recorded under PENDING_FINDINGS, not judged);
  * the real create_engines (only create_engine stubbed) against Infretis.Config.engineOcc and the direct statement
    min(count, workers) free slots per referenced engine (C18:engine-occupation);
  * block H: setup_config(inp, re_inp) over input file × restart file × same path (215 cases) against
    Infretis.Config.setupConfigFiles (file missing, two-file choice, restart branch, fresh [current], header, pattern);
Follow-up pass (/repo 971ccbc: check_config rejects a [current] table written for another number of interfaces):
  * the restart route builds the [current] table for the case's own number of interfaces and for mismatching ones
    (model: Cfg.curSize / sizeTest); every accepted restart configuration goes through the REAL setup_internal and the
    first picks ("accepted ⇒ initialises" judged on the restart route too) and is compared with
    Infretis.Config.startUp; signature of the old defect: C18:restart:current-size-differs-from-interfaces;
  * block S: the real setup_internal called directly on size-mismatching [current] tables against
    Infretis.Config.startUpAsIs (the ValueError of add_traj the old code ran into);
  * block H2: restart files written by the real write_toml (incl. output.pattern → output.pattern_file) read back
    directly / next to their raw input / next to a matching input, against setupConfigFiles (hasPatternFile);
  * output.pattern cases (workers = 0 included) run through the real setup_internal on the fresh route;
  * generated initial paths are checked with the library's own Path.check_interfaces;
  * PENDING_FINDINGS holds open defects only.
  * block T: values of another TOML type (ints for floats must behave identically; NaN / bool / float workers / strings
    / nested lists / missing tables are judged by the same predicates read with Python's comparisons; what the unchanged
    library gets wrong there is listed in PENDING_FINDINGS and written to evidence `pending_findings`).
"""
from __future__ import annotations

import copy
import itertools
import os
import shutil
import tempfile

from common import err_kind, frac_token, hexs, lst

GRID = (-2, 0, 2, 4)
CAPS = (None, -3, -2, -1, 0, 1, 2, 3, 4, 5)
LM1S = ("A", "F", -3, -2, -1, 0, 1, 2, 5)
NAMES = ("engine", "engine0", "x")


# --------------------------------------------------------------------------- cases
class Case(tuple):
    """(intf, workers, moves, cap, lm1, quantis, ee, engines, seed, acc)"""
    __slots__ = ()


def mkcase(intf, workers, moves, cap=None, lm1="A", quantis=None, ee=None,
           engines=(("engine", 1, None, 7), ("engine0", 1, None, 7)), seed=None, acc=None, opts=()):
    """opts: options check_config does not look at (steps, maxlength, n_jumps, screen, pattern, delete_old) and the
    flag nomodel (engine names colliding with non-engine sections, outside the model's assumption)"""
    return Case((tuple(intf), workers, tuple(moves), cap, lm1, quantis,
                 None if ee is None else tuple(tuple(x) for x in ee), tuple(engines), seed, acc,
                 tuple(sorted(dict(opts).items()))))


def opts_of(c):
    return dict(c[10]) if len(c) > 10 else {}


CLASS_NAMES = {0: "gromacs", 1: "turtlemd", 2: "cp2k", 3: "lammps", 4: "ase"}
NON_ENGINE_SECTIONS = ("runner", "simulation", "output", "current", "orderparameter")


def case_obj(c):
    return {"interfaces": list(c[0]), "workers": c[1], "moves_wf": list(c[2]), "cap": c[3], "lm1": c[4],
            "quantis": c[5], "ensemble_engines": None if c[6] is None else [list(x) for x in c[6]],
            "engines": [list(e) for e in c[7]], "seed": c[8], "accept_all": c[9], "opts": opts_of(c)}


def case_from_obj(o):
    return mkcase(o["interfaces"], o["workers"], o["moves_wf"], o["cap"], o["lm1"], o["quantis"],
                  o["ensemble_engines"], [tuple(e) for e in o["engines"]], o["seed"], o["accept_all"],
                  tuple((o.get("opts") or {}).items()))


def to_dict(c, data_dir):
    intf, workers, moves, cap, lm1, quantis, ee, engines, seed, acc = c[:10]
    o = opts_of(c)
    tis = {"maxlength": o.get("maxlength", 100), "allowmaxlength": False, "zero_momentum": False,
           "n_jumps": o.get("n_jumps", 2)}
    if cap is not None:
        tis["interface_cap"] = float(cap)
    if lm1 == "F":
        tis["lambda_minus_one"] = False
    elif lm1 != "A":
        tis["lambda_minus_one"] = float(lm1)
    if quantis is not None:
        tis["quantis"] = bool(quantis)
    if acc is not None:
        tis["accept_all"] = bool(acc)
    sim = {"interfaces": [float(x) for x in intf], "steps": o.get("steps", 10), "load_dir": "load",
           "shooting_moves": ["wf" if m else "sh" for m in moves], "tis_set": tis}
    if ee is not None:
        sim["ensemble_engines"] = [list(x) for x in ee]
    if seed is not None:
        sim["seed"] = seed
    d = {"runner": {"workers": workers}, "simulation": sim,
         "output": {"data_dir": data_dir, "screen": o.get("screen", 0), "pattern": bool(o.get("pattern", False)),
                    "delete_old": bool(o.get("delete_old", False))},
         "orderparameter": {"class": "Distance", "index": [0, 1], "periodic": True}}
    for (name, cls, ip, other) in engines:
        t = {"class": CLASS_NAMES.get(cls, f"cls{cls}"), "timestep": float(other)}
        if ip is not None:
            t["input_path"] = f"path{ip}"
        d[name] = t
    return d


def to_line(op, c, size=None, numeric=True):
    """`size`: the `size` of the dictionary's [current] table (None = no [current] table); `numeric`: the interfaces
    are TOML numbers (False: strings / booleans / lists — only their number and order are sent)"""
    intf, workers, moves, cap, lm1, quantis, ee, engines, seed, acc = c[:10]
    o = lambda v: "-" if v is None else str(int(v))  # noqa: E731
    if ee is None:
        ees = "-"
    else:
        ees = " ".join([str(len(ee))] + [lst(x, hexs) for x in ee])
    engs = " ".join([str(len(engines))] + [f"{hexs(n)} {cls} {o(ip)} {other}" for (n, cls, ip, other) in engines])
    return (f"{op} {lst(intf)} {workers} {lst(moves)} {o(cap)} {lm1} {o(quantis)} {ees} {engs} {o(seed)} {o(acc)} "
            f"{o(size)}" + ("" if numeric else " 0"))


def num(x):
    return str(int(x)) if float(x) == int(x) else repr(x)


def show_norm(cfg):
    sim = cfg["simulation"]
    tis = sim["tis_set"]
    ee = sim.get("ensemble_engines")
    ees = "-" if ee is None else " ".join([str(len(ee))] + [lst(x, hexs) for x in ee])
    ob = lambda v: "-" if v is None else ("1" if v else "0")  # noqa: E731
    l = tis.get("lambda_minus_one", "A")
    ls = "A" if isinstance(l, str) else ("F" if l is False else num(l))
    seed = sim.get("seed")
    return (f"ee={ees} seed={'-' if seed is None else seed} quantis={ob(tis.get('quantis'))} "
            f"lm1={ls} acc={ob(tis.get('accept_all'))}")


# --------------------------------------------------------------------------- the property predicate
def py_valid(cfg):
    """clauses of the property's list violated by a (normalised) config dict"""
    sim = cfg["simulation"]
    tis = sim["tis_set"]
    intf = sim["interfaces"]
    n = len(intf)
    bad = []
    if n >= 2 and any(isinstance(x, bool) or not isinstance(x, (int, float)) for x in intf):
        # interfaces must be numbers (/repo a54d86e): strings compare among themselves, so nothing else can be
        # asked of such a list
        return [NUMERIC_CLAUSE]
    if any(not (a <= b) for a, b in zip(intf, intf[1:])):
        bad.append("interfaces-unsorted")
    elif any(a == b for a, b in zip(intf, intf[1:])):
        bad.append("interfaces-duplicate")
    if n < 2:
        bad.append("fewer-than-two-interfaces")
    if cfg["runner"]["workers"] > n - 1:
        bad.append("too-many-workers")
    moves = sim["shooting_moves"]
    if len(moves) < n:
        bad.append("too-few-shooting-moves")
    if "interface_cap" in tis:
        cap = tis["interface_cap"]
        if n == 0 or not (intf[0] <= cap <= intf[-1]):
            bad.append("cap-zero-skipped" if cap == 0 else "cap-outside-interfaces")
        # ensemble k ≥ 1 sits on interface k-1 and uses shooting_moves[k]
        if any(k < len(moves) and moves[k] == "wf" and not (intf[k - 1] < cap) for k in range(1, n)):
            bad.append("cap-below-wf-interface")
    ee = sim.get("ensemble_engines")
    if ee is None:
        bad.append("engine-undefined")
    elif any(e not in cfg for names in ee for e in names):
        bad.append("engine-undefined")
    l = tis.get("lambda_minus_one", False)
    if l is not False and (n == 0 or not (l < intf[0])):
        bad.append("lambda-minus-one-not-below-first")
    # a restart state holds one slot per ensemble (/repo 971ccbc); nothing to ask without a [current] table
    cur = cfg.get("current") or {}
    if "size" in cur and cur["size"] != n:
        bad.append(SIZE_CLAUSE)
    return bad


def rule_violations(cfg):
    """rules of check_config beyond the property's list that an ACCEPTED configuration must satisfy: quantis cannot
    run with a λ₋₁ — any value, the legal 0.0 included (/repo b3eda5b; `is not False`, not truthiness)"""
    try:
        tis = cfg["simulation"]["tis_set"]
        if tis.get("quantis", False) and tis.get("lambda_minus_one", False) is not False:
            return ["quantis-with-lambda-minus-one"]
    except Exception:  # noqa: BLE001
        pass
    return []


QUANTIS_SIG = "C18:quantis-with-lambda-minus-one-accepted"
NUMERIC_CLAUSE = "interfaces-not-numbers"
SIZE_CLAUSE = "current-size-differs-from-interfaces"
SIZE_SIG = "C18:restart:current-size-differs-from-interfaces"


DEFAULT_KEYS = (("simulation", "ensemble_engines"), ("simulation", "seed"), ("simulation", "tis_set", "quantis"),
                ("simulation", "tis_set", "lambda_minus_one"), ("simulation", "tis_set", "accept_all"))
MAY_APPEAR = (("current",), ("output", "data_file"), ("output", "pattern_file"))


def settings_changed(d_in, cfg, restart=False):
    """what setup_config may do to the parsed file: fill in the five defaults where the key is absent (an empty
    ensemble_engines counts as absent), create [current] / set current.restarted_from, set output.data_file and
    output.pattern_file.  Returns the paths of everything else that differs."""
    bad = []

    def walk(a, b, path):
        if path in MAY_APPEAR or (restart and path == ("current",)):
            return
        if isinstance(a, dict) and isinstance(b, dict):
            for k in sorted(set(a) | set(b), key=str):
                pk = path + (k,)
                if k not in a:
                    if pk not in DEFAULT_KEYS and pk not in MAY_APPEAR:
                        bad.append(".".join(map(str, pk)) + " added")
                elif k not in b:
                    bad.append(".".join(map(str, pk)) + " removed")
                else:
                    walk(a[k], b[k], pk)
        elif a != b or type(a) is not type(b):
            if path == ("simulation", "ensemble_engines") and not a:
                return
            bad.append(".".join(map(str, path)) + f" changed {a!r} -> {b!r}")
    try:
        walk(d_in, cfg, ())
        if restart:
            ci, co = dict(d_in.get("current", {})), dict(cfg.get("current", {}))
            ci.pop("restarted_from", None)
            co.pop("restarted_from", None)
            if ci != co:
                bad.append("current changed (other than restarted_from)")
    except Exception as e:  # noqa: BLE001
        bad.append("uncomparable: " + err_kind(e))
    return bad


def ensembles_spec_violations(cfg, st):
    """direct statement of what initiate_ensembles must create: [0-] = (λ₋₁ or -inf, middle, λ0), [0+] = (λ0, λ0, λN),
    [k+] = (λ0, λ_k, λN); mc_move = shooting_moves[i]; one ensemble per interface"""
    sim = cfg["simulation"]
    intf = sim["interfaces"]
    lm1 = sim["tis_set"].get("lambda_minus_one", False)
    want = [(lm1, (lm1 + intf[0]) / 2, intf[0]) if lm1 is not False else (float("-inf"), intf[0], intf[0]),
            (intf[0], intf[0], intf[-1])]
    want += [(intf[0], m, intf[-1]) for m in intf[1:-1]]
    bad = []
    ens = st.ensembles
    if sorted(ens.keys()) != list(range(len(intf))):
        bad.append(f"ensemble keys {sorted(ens.keys())} for {len(intf)} interfaces")
        return bad
    for i, w in enumerate(want):
        if tuple(float(x) for x in ens[i]["interfaces"]) != tuple(float(x) for x in w):
            bad.append(f"ensemble {i} interfaces {ens[i]['interfaces']} ≠ {w}")
        if ens[i]["mc_move"] != sim["shooting_moves"][i]:
            bad.append(f"ensemble {i} mc_move {ens[i]['mc_move']}")
        if ens[i]["tis_set"] != sim["tis_set"]:
            bad.append(f"ensemble {i} tis_set differs from the configuration's")
    return bad


def show_ensembles(st):
    """canonical form of st.ensembles, as the driver's `init` op prints Infretis.Config.initEnsembles"""
    from fractions import Fraction
    out = []
    for i in sorted(st.ensembles):
        e = st.ensembles[i]
        a, b, r = e["interfaces"]
        f = lambda x: "-inf" if x == float("-inf") else frac_token(Fraction(x))  # noqa: E731
        sc = e["start_cond"]
        sc = "".join(sc) if isinstance(sc, list) else sc
        out.append(f"{f(a)},{f(b)},{f(r)},{1 if e['mc_move'] == 'wf' else 0},{sc}")
    return " ".join([str(len(out))] + out)


def state_snapshot(st):
    return (canon(copy.deepcopy(st.config)), show_ensembles(st), st.state.tolist(),
            [getattr(t, "path_number", None) for t in st._trajs], st._locks.tolist())


def py_normalised(d):
    """independent statement of the defaults (only to judge rejected configurations)"""
    d = copy.deepcopy(d)
    sim = d["simulation"]
    tis = sim["tis_set"]
    if not sim.get("ensemble_engines"):
        sim["ensemble_engines"] = [["engine"] for _ in sim["interfaces"]]
        if tis.get("quantis") and sim["ensemble_engines"]:
            sim["ensemble_engines"][0] = ["engine0"]
    return d


# --------------------------------------------------------------------------- the real code
class Real:
    def __init__(self):
        import infretis.setup as S
        self.S = S
        base = "/var/tmp"
        self.tmp = tempfile.mkdtemp(prefix="verif-c18-", dir=base if os.path.isdir(base) else None)
        self.cwd = os.getcwd()
        os.chdir(self.tmp)
        self._data = os.path.join(self.tmp, "infretis_data.txt")

    def close(self):
        os.chdir(self.cwd)
        shutil.rmtree(self.tmp, ignore_errors=True)

    def clean(self):
        try:
            os.remove(self._data)
        except FileNotFoundError:
            pass

    def setup(self, d, fname="case.toml"):
        """write the TOML file, run the real setup_config → ('ok …' | err kind, config | None)"""
        import tomli_w
        with open(fname, "wb") as f:
            tomli_w.dump(d, f)
        try:
            cfg = self.S.setup_config(fname, "no-restart-file.toml")
        except Exception as e:  # noqa: BLE001
            return err_kind(e), None
        finally:
            self.clean()
        if cfg is None:
            return "none", None
        try:
            return "ok " + show_norm(cfg), cfg
        except Exception as e:  # noqa: BLE001  (a changed setup_config may return anything)
            return "malformed-config:" + err_kind(e), None

    def make_base_restart(self):
        try:
            return self._make_base_restart()
        except Exception as e:  # noqa: BLE001
            if type(e).__name__ == "Timeout":
                raise
            if getattr(self, "base_restart", None) is None:
                self.base_restart = {"current": {"traj_num": 3, "cstep": 0, "active": [0, 1, 2], "locked": [],
                                                 "size": 3, "frac": {}}}
            self.restart_data = os.path.join(self.tmp, "restart_data.txt")
            open(self.restart_data, "a").close()
            try:
                store_paths(initial_paths(to_dict(self.base_case, self.tmp)))
            except Exception:  # noqa: BLE001
                pass
            return ("base-restart", err_kind(e))

    def _make_base_restart(self):
        """let the library write a restart.toml: fresh setup_config of a valid input, REPEX_state,
        initiate_ensembles, load_paths, write_toml; keep its text/dict, its stored paths and a data file"""
        import tomli
        c = mkcase((0, 2, 4), 1, (0, 0, 1), cap=3)
        self.base_case = c
        self.base_restart = None
        problem = None
        code, cfg = self.setup(to_dict(c, self.tmp))
        self.base_restart = None
        if cfg is None:
            problem = ("setup_config", code)
        else:
            stage, err, st, _, _ = initialise(cfg)
            if err:
                problem = (stage, err)
            else:
                store_paths([st._trajs[i] for i in range(st.n - 1)])
                st.write_toml()
                with open("restart.toml", "rb") as f:
                    self.base_restart = tomli.load(f)
        if self.base_restart is None:
            # the library could not write one (reported by the caller): the table write_toml would have written
            store_paths(initial_paths(to_dict(c, self.tmp)))
            self.base_restart = {"current": {"traj_num": 3, "cstep": 0, "active": [0, 1, 2], "locked": [],
                                             "size": 3, "frac": {}}}
        self.restart_data = os.path.join(self.tmp, "restart_data.txt")
        with open(self.restart_data, "w") as f:
            f.write("# " + "=" * 58 + "\n# \txxx\tlen\tmax OP\t\t000\t001\t002\n# " + "=" * 58 + "\n")
        return problem

    def current_for(self, n):
        """a `[current]` table written for `n` interfaces: by the library itself (fresh setup_config of a valid
        input with n interfaces, REPEX_state, initiate_ensembles, load_paths, write_toml — before any pick, so no job
        is in flight) for 2 ≤ n ≤ 5, else the table setup_config would create.  Leaves n stored paths in ./load."""
        cache = self.__dict__.setdefault("_currents", {})
        if n in cache:
            return copy.deepcopy(cache[n])
        cur = None
        if 2 <= n <= 5:
            try:
                import tomli
                from infretis.classes.path import load_paths_from_disk
                from infretis.classes.repex import REPEX_state
                c = mkcase(tuple(range(0, 2 * n, 2)), 1, (0,) * n)
                code, cfg = self.setup(to_dict(c, self.tmp))
                st = REPEX_state(cfg, minus=True)
                st.initiate_ensembles()
                store_paths(initial_paths(cfg))
                st.load_paths(load_paths_from_disk(cfg))
                st.write_toml()
                with open("restart.toml", "rb") as f:
                    cur = tomli.load(f)["current"]
            except Exception as e:  # noqa: BLE001
                if type(e).__name__ == "Timeout":
                    raise
                cur = None
        if cur is None:
            cur = {"traj_num": n, "cstep": 0, "active": list(range(n)), "locked": [], "size": n, "frac": {}}
        cache[n] = cur
        return copy.deepcopy(cur)

    def setup_restart(self, d, two_files=False):
        """the real setup_config on a restart file (or on an input file with a matching restart file next to it)"""
        import tomli_w
        with open("edited_restart.toml", "wb") as f:
            tomli_w.dump(d, f)
        inp = "edited_restart.toml"
        if two_files:
            fresh = {k: v for k, v in d.items() if k != "current"}
            with open("edited_input.toml", "wb") as f:
                tomli_w.dump(fresh, f)
            inp = "edited_input.toml"
        try:
            cfg = self.S.setup_config(inp, "edited_restart.toml")
        except Exception as e:  # noqa: BLE001
            return err_kind(e), None
        if cfg is None:
            return "none", None
        try:
            if "restarted_from" not in cfg["current"]:
                return "not-the-restart-branch", None
            return "ok " + show_norm(cfg), cfg
        except Exception as e:  # noqa: BLE001
            return "malformed-config:" + err_kind(e), None

    def setup_internal(self, cfg):
        """the real setup_internal; only the creation of MD engines / order parameters (def_globals) and the log
        handlers (setup_logger) are stubbed"""
        S = self.S
        old = (S.def_globals, S.setup_logger)
        S.def_globals = lambda config: real_engine_occ(config)[0]
        S.setup_logger = lambda *a, **k: None
        try:
            return S.setup_internal(cfg)
        finally:
            S.def_globals, S.setup_logger = old

    def check(self, d):
        """check_config on a copy of the raw dict → (outcome, True iff the dict was left unmodified)"""
        arg = copy.deepcopy(d)
        try:
            self.S.check_config(arg)
            out = "ok"
        except Exception as e:  # noqa: BLE001
            out = err_kind(e)
        try:
            pure = arg == d
        except Exception:  # noqa: BLE001
            pure = False
        return out, pure


def mkpath(ops, pnum):
    from infretis.classes.path import Path
    from infretis.classes.system import System
    p = Path(maxlen=100)
    for k, o in enumerate(ops):
        s = System()
        s.order = [float(o)]
        s.config = (f"f{pnum}.xyz", k)
        p.phasepoints.append(s)
    p.path_number = pnum
    p.generated = ("ld", float("nan"), 0, 0)
    return p


FAMILIES = ("on-own", "inside", "on-higher", "on-cap", "to-last", "over-cap")
# paths that are valid by Path.check_interfaces but have NO frame inside a wire-fencing region (one step from below
# λ0 to beyond the last interface): outside `PathsOk` of Infretis.C18 wherever an ensemble is wire fencing; compared
# with the model (Infretis.Config.startUp → AssertionError of add_traj), recorded, not judged (see PENDING_FINDINGS)
JUMP = "jump-over-fence"
PENDING_FINDINGS = {"C18:wf-initial-path-steps-over-fence"}
BOUNDARY = ("on-own", "on-higher", "on-cap", "to-last")


def climb(lo, peak, back=True):
    """unit steps from `lo` up to `peak` (a last fractional step if needed) and, if `back`, down again"""
    import math
    up = [float(x) for x in range(int(lo), int(math.floor(peak)) + 1)]
    if peak != up[-1]:
        up.append(float(peak))
    return up + (up[-2::-1] if back else [])


def initial_orders(cfg, family="on-own"):
    """order sequences of one VALID initial path per ensemble (valid per Path.check_interfaces: ≤ / ≥), with the
    extreme value exactly ON an interface for the boundary families:
      on-own     max of the [i+] path == λ_i          [0-] starts and ends exactly ON λ0
      on-higher  max == λ_{i+1} (a higher inner interface);  with a λ₋₁: [0-] runs R→L and ends exactly ON λ₋₁
      on-cap     max == interface_cap where the cap is ≥ λ_i (else λ_i)
      to-last    the [i+] path runs L→R and ends exactly ON the last interface
      inside     max == λ_i + ½, [0-] turns strictly inside
      over-cap   the [i+] path goes half a unit ABOVE the cap (where the cap is below the last interface; else to
                 half a unit below the last interface), comes back down to λ_i (for [0+]: to the first frame above λ0), goes up again and returns to the
                 left: with a wire-fencing ensemble [λ_i, cap) that is an L→R piece, an R→R piece (not counted) and an
                 R→L piece, so the weights over [λ_i, cap) and over [λ_i, λ_N) differ
    Plus paths climb in unit steps (interfaces and cap are integers, so every level on the way is visited)."""
    sim = cfg["simulation"]
    intf = [int(x) for x in sim["interfaces"]]
    n = len(intf)
    l0 = intf[0]
    cap = sim["tis_set"].get("interface_cap")
    lm1 = sim["tis_set"].get("lambda_minus_one", False)
    if lm1 is not False and family in ("on-higher", "to-last"):
        minus = [float(l0), (l0 + lm1) / 2, float(lm1)]
    elif family == "inside":
        minus = [l0 + 1.0, l0 - 0.5, l0 + 1.0]
    else:
        minus = [float(l0), l0 - 0.5, float(l0)]
    out = [minus]
    if family == JUMP:
        return out + [[l0 - 1.0, intf[-1] + 0.5] for _ in range(n - 1)]
    for i in range(n - 1):
        li = intf[i]
        if family == "to-last":
            out.append(climb(l0 - 1, intf[-1], back=False))
            continue
        if family == "over-cap":
            last = intf[-1]
            top = cap if (cap is not None and cap < last) else last
            peak = max(top + 0.5, float(li)) if top < last else last - 0.5
            if not peak < last:
                peak = last - 0.5
            rise = climb(l0 - 1, peak, back=False)   # l0-1 … li … peak
            # the turning point in the middle: λ_i, for [0+] the first frame above λ0 (the path must not come
            # back to λ0 before it ends)
            k = rise.index(float(li)) + (1 if i == 0 else 0)
            # up to the peak, down to the turning point, up to the peak again, down to l0-1
            out.append(rise + rise[k:-1][::-1] + rise[k + 1:] + rise[-2::-1])
            continue
        if family == "inside":
            peak = li + 0.5
        elif family == "on-higher":
            peak = intf[max(i, min(i + 1, n - 2))]
        elif family == "on-cap" and cap is not None and cap >= li:
            peak = cap
        else:
            peak = li
        out.append(climb(l0 - 1, peak))
    return out


def initial_paths(cfg, family="on-own"):
    return [mkpath(ops, k) for k, ops in enumerate(initial_orders(cfg, family))]


def spec_wf_weight(ops, left, right):
    """the property's wire-fencing weight, stated without the scan: the number of frames inside [left, right) whose
    maximal run of inside frames is bounded by an outside frame on BOTH sides, the two bounding frames not both
    being ≥ right (sub-paths L→L, L→R, R→L count; R→R and the open ends of the path do not).  Independent of
    wirefence_weight_and_pick (no key_l/key_r state machine)."""
    inside = [left <= x < right for x in ops]
    total = 0
    k = 0
    n = len(ops)
    while k < n:
        if not inside[k]:
            k += 1
            continue
        j = k
        while j < n and inside[j]:
            j += 1
        if k > 0 and j < n and not (ops[k - 1] >= right and ops[j] >= right):
            total += j - k
        k = j
    return total


def spec_weight_row(cfg, ops):
    """the weight vector the property demands for a [i+] initial path under the CONFIGURED interfaces, moves and cap
    (`interface_cap` present in the configuration — 0.0, 0 and a cap equal to an interface included — is THE cap;
    absent ⇒ the last interface): entry j belongs to ensemble [j+] = moves[j+1];
      sh: 1 iff λ_j ≤ max(order)              (non-strict, as Path.check_interfaces)
      wf: frames on valid sub-paths of [λ_j, cap)  × 2 unless the path starts and ends on the same side of (λ_0, cap)
    and a final 0 for the ghost ensemble."""
    sim = cfg["simulation"]
    intf = sim["interfaces"]
    moves = sim["shooting_moves"]
    tis = sim["tis_set"]
    right = tis["interface_cap"] if "interface_cap" in tis else intf[-1]
    pmax = max(ops)
    side = lambda x: "L" if x <= intf[0] else ("R" if x >= right else None)  # noqa: E731
    s, e = side(ops[0]), side(ops[-1])
    same = s is not None and s == e
    row = []
    for j in range(len(intf) - 1):
        if moves[j + 1] == "wf":
            w = float(spec_wf_weight(ops, intf[j], right))
            row.append(w if same else 2.0 * w)
        else:
            row.append(1.0 if intf[j] <= pmax else 0.0)
    row.append(0.0)
    return tuple(row)


def configured_cap(cfg):
    return cfg["simulation"]["tis_set"].get("interface_cap", None)


def same_cap(got, want):
    """the cap the state / md_items carry is the configured one: None iff absent, else the same number (0.0 is a
    number, not 'absent'; a bool is not a number)"""
    if want is None:
        return got is None
    return got is not None and not isinstance(got, bool) and got == want


def weights_spec_violations(cfg, orders, rows):
    """direct statement for the shooting entries of the weight rows load_paths stores: entry j of a plus path is 1
    iff λ_j ≤ max(order) (non-strict, as Path.check_interfaces), the last entry is 0, the own entry is not 0"""
    sim = cfg["simulation"]
    intf = sim["interfaces"]
    moves = sim["shooting_moves"]
    n = len(intf)
    bad = []
    for i in range(n - 1):
        ops, w = orders[i + 1], rows[i]
        if len(w) != n or float(w[-1]) != 0.0:
            bad.append((i, "shape"))
            continue
        for j in range(n - 1):
            if moves[j + 1] != "wf" and float(w[j]) != (1.0 if intf[j] <= max(ops) else 0.0):
                bad.append((i, f"entry {j} is {float(w[j])} with λ_{j}={intf[j]} and max={max(ops)}"))
        if float(w[i]) == 0.0:
            bad.append((i, "own weight 0"))
        want = spec_weight_row(cfg, ops)
        if tuple(float(x) for x in w) != want:
            bad.append((i, f"weights {tuple(float(x) for x in w)} ≠ {want} demanded for interfaces {list(intf)}, moves "
                           f"{list(moves)}, interface_cap {configured_cap(cfg)!r}"))
    return bad


def state_weight_violations(cfg, orders, matrix):
    """the W matrix of the real state right after load_paths: row 0 = [0-] path = (1, 0, …, 0); row i+1 = (0,) + the
    demanded weight vector of the [i+] path; ghost row all 0"""
    n = len(cfg["simulation"]["interfaces"])
    bad = []
    try:
        m = [[float(x) for x in r] for r in matrix]
    except Exception as e:  # noqa: BLE001
        return [(-1, "state matrix unreadable: " + err_kind(e))]
    if len(m) != n + 1 or any(len(r) != n + 1 for r in m):
        return [(-1, f"state matrix has shape {len(m)}x{len(m[0]) if m else 0}, expected {n + 1}x{n + 1}")]
    want = [[1.0] + [0.0] * n]
    want += [[0.0] + list(spec_weight_row(cfg, orders[i + 1])) for i in range(n - 1)]
    want += [[0.0] * (n + 1)]
    for i, (g, w) in enumerate(zip(m, want)):
        if g != w:
            bad.append((i - 1, f"row {i} of the state's W matrix is {g}, demanded {w} "
                               f"(interface_cap {configured_cap(cfg)!r})"))
    return bad


def cv_line(cfg, ops):
    """request for the Lean model of calc_cv_vector (everything doubled: half-integers become integers)"""
    sim = cfg["simulation"]
    cap = sim["tis_set"].get("interface_cap")
    d = lambda x: int(round(2 * x))  # noqa: E731
    mv = [1 if m == "wf" else 0 for m in sim["shooting_moves"][1:]]
    return f"cv {'-' if cap is None else d(cap)} {lst([d(x) for x in sim['interfaces']])} {lst(mv)} {lst([d(x) for x in ops])}"


def doubled_case(c):
    """the case with interfaces, cap and λ₋₁ doubled (half-integer order values become integers; every test of the
    configuration only compares them, so the outcome is the same)"""
    lm1 = c[4] if c[4] in ("A", "F") else 2 * c[4]
    return Case((tuple(2 * x for x in c[0]), c[1], c[2], None if c[3] is None else 2 * c[3], lm1) + tuple(c[5:]))


def load_line(c, orders, size=None, op="load"):
    """request for Infretis.Config.startUp (setup_config ; setup_internal): the paths' order values (doubled) first;
    `size` = the [current].size of a restart configuration; op `loadasis` = the code before /repo 971ccbc"""
    d = lambda x: int(round(2 * x))  # noqa: E731
    return (f"{op} {len(orders)} " + " ".join(lst([d(x) for x in ops]) for ops in orders) + " "
            + to_line("x", doubled_case(c), size)[2:])


def show_loaded(info):
    """canonical form of what the real start-up holds after load_paths, as the driver's `load` op prints it"""
    d = lambda x: int(round(2 * x))  # noqa: E731
    md = info["md"]
    cap = md["cap"]
    rows = [[int(x) for x in r] for r in info["matrix"]]
    return (f"ok cap={'-' if cap is None else d(cap)} intf={lst([d(x) for x in md['interfaces']])} "
            f"moves={lst([1 if m == 'wf' else 0 for m in md['mc_moves']])} W={lst([lst(r) for r in rows])}")


def initialise(cfg, family="on-own", info=None):
    """as setup_internal does: REPEX_state → initiate_ensembles → load_paths_from_disk (paths stored in the
    library's format) → load_paths (weights from the real calc_cv_vector) → first W picks.
    Returns (stage, error kind | None, state, orders, weight rows of the plus paths)."""
    from infretis.classes.path import load_paths_from_disk
    from infretis.classes.repex import REPEX_state
    stage = "REPEX_state"
    st = None
    orders, rows = None, None
    if info is None:
        info = {}
    try:
        st = REPEX_state(cfg, minus=True)
        stage = "initiate_ensembles"
        st.initiate_ensembles()
        if len(st.ensembles) != len(cfg["simulation"]["interfaces"]):
            return stage, "wrong-number-of-ensembles", st, orders, rows
        stage = "load_paths"
        orders = initial_orders(cfg, family)
        gen = [mkpath(ops, k) for k, ops in enumerate(orders)]
        for p in gen[1:]:
            cbad = check_interfaces_violation(cfg, p)
            if cbad:
                return "generated-path", cbad, st, orders, rows
        store_paths(gen)
        paths = load_paths_from_disk(cfg)
        st.load_paths(paths)
        rows = [tuple(float(x) for x in p.weights) for p in paths[1:]]
        # what the real state holds right after load_paths (before any pick): the W matrix, the weights recorded
        # per path in traj_data, the cap handed to the workers (md_items['cap'] = state.cap in setup_internal)
        info["matrix"] = [[float(x) for x in r] for r in st.state.tolist()]
        info["traj_data_rows"] = [tuple(float(x) for x in st.traj_data[p.path_number]["weights"]) for p in paths[1:]]
        info["cap"] = st.cap
        info["md"] = {"cap": st.cap, "interfaces": list(st.interfaces), "mc_moves": list(st.mc_moves)}
        info["have"] = True
        stage = "first-picks"
        st.engine_occ = engine_occ_of(cfg)
        err = first_picks(st, cfg)
        if err:
            return stage, err, st, orders, rows
        return "done", None, st, orders, rows
    except Exception as e:  # noqa: BLE001
        return stage, err_kind(e), st, orders, rows


def strip_restart(cfg):
    c = copy.deepcopy(cfg)
    c.get("current", {}).pop("restarted_from", None)
    return c


def canon(x):
    import numpy as np
    if isinstance(x, dict):
        return {str(k): canon(v) for k, v in x.items()}
    if isinstance(x, (list, tuple)):
        return [canon(v) for v in x]
    if isinstance(x, (np.integer,)):
        return int(x)
    if isinstance(x, (np.floating,)):
        return float(x)
    return x


def store_paths(paths, load_dir="load"):
    """the paths in the library's on-disk format (traj.txt, order.txt, accepted/<file>), as load_path reads them"""
    for p in paths:
        d = os.path.join(load_dir, str(p.path_number))
        os.makedirs(os.path.join(d, "accepted"), exist_ok=True)
        fn = f"f{p.path_number}.xyz"
        open(os.path.join(d, "accepted", fn), "w").close()
        with open(os.path.join(d, "traj.txt"), "w") as f:
            f.write("#       time        trajfile      index   vel\n")
            for k in range(len(p.phasepoints)):
                f.write(f"{k:10d} {fn:>15s} {k:10d} {1:5d}\n")
        with open(os.path.join(d, "order.txt"), "w") as f:
            f.write("#       time      orderparam\n")
            for k, s in enumerate(p.phasepoints):
                f.write(f"{k:10d} {float(s.order[0]):15.4f}\n")


def real_engine_occ(cfg):
    """the real create_engines (counting, min(count, workers), check_engine) with only the construction of the MD
    engine objects (create_engine) replaced by a stub → (engine_occ dict, engines dict)"""
    import infretis.classes.engines.factory as F
    old = F.create_engine
    F.create_engine = lambda settings, eng_key="engine": ("stub-engine", eng_key)
    try:
        engines, occ = F.create_engines(cfg)
    finally:
        F.create_engine = old
    return occ, engines


def show_occ(occ):
    return "ok " + " ".join([str(len(occ))] + [f"{hexs(k)} {len(v)}" for k, v in occ.items()])


def occ_violations(cfg, occ, engines):
    """direct statement: one list per engine name an ensemble refers to, min(number of ensembles naming it, workers)
    slots (never negative), all free (-1), and as many engine objects"""
    want = {}
    for names in cfg["simulation"]["ensemble_engines"]:
        for e in names:
            want[e] = want.get(e, 0) + 1
    w = cfg["runner"]["workers"]
    bad = []
    if list(occ.keys()) != list(want.keys()) or list(engines.keys()) != list(want.keys()):
        return [f"engine names {list(occ.keys())} / {list(engines.keys())}, referenced {list(want.keys())}"]
    for e, n in want.items():
        k = max(0, min(n, w))
        if list(occ[e]) != [-1] * k:
            bad.append(f"occupation of '{e}' is {occ[e]}, expected {k} free slots (named by {n} ensembles, {w} workers)")
        if len(engines[e]) != k:
            bad.append(f"{len(engines[e])} instances of '{e}', expected {k}")
    return bad


def engine_occ_of(cfg):
    """engine occupation lists as create_engines builds them (without creating MD engines)"""
    count = {}
    for names in cfg["simulation"]["ensemble_engines"]:
        for e in names:
            count[e] = count.get(e, 0) + 1
    return {e: [-1] * min(k, cfg["runner"]["workers"]) for e, k in count.items()}


def first_picks(st, cfg):
    base = {"mc_moves": st.mc_moves, "interfaces": st.interfaces, "cap": st.cap}
    picks = 0
    seen_ens = set()
    sim = cfg["simulation"]
    # one job per worker, but never more jobs than steps left
    expected = max(0, min(cfg["runner"]["workers"], sim["steps"] - cfg["current"]["cstep"]))
    while st.initiate():
        if picks > expected + 2:
            return "initiate-does-not-terminate"
        md = st.prep_md_items(copy.deepcopy(base))
        picks += 1
        for e in md["ens_nums"]:
            if e in seen_ens:
                return "ensemble-picked-twice"
            seen_ens.add(e)
    if picks != expected:
        return f"picks={picks}-expected={expected}"
    return None


def restart_roundtrip(real, st, generations=2):
    """store the live paths, write restart.toml with the real writer, read it back with the real setup_config
    (restart branch), and initialise again through the real setup_internal up to the first picks — and once more from
    the state so restarted (jobs re-issued by the first restart are on record then): a second restart.  A later
    generation reports under the stage `second-restart`."""
    r = ("ok", None, None, None)
    for gen in range(generations):
        prev = r
        r = _restart_roundtrip_once(real, st)
        if gen > 0 and r[0] == "none" and st.cstep >= st.tsteps:
            # a restart that made no step and has no step left is refused by design (setup_config returns None,
            # /repo 62f494c): the first generation's result stands
            return prev[:4]
        if r[0] != "ok" or r[1] != r[2] or r[3] is not None or r[4] is None:
            if gen > 0 and r[3] is not None:
                return r[0], r[1], r[2], "second-restart:" + r[3]
            if gen > 0 and r[0] != "ok":
                return "second-restart:" + r[0], r[1], r[2], r[3]
            return r[:4]
        st = r[4]
    return r[:4]


def _restart_roundtrip_once(real, st):
    try:
        store_paths([st._trajs[i] for i in range(st.n - 1)])
        st.write_toml()
        before = copy.deepcopy(st.config)
        # a state that was itself started from a restart file: the jobs that file had in flight were re-issued by the
        # first picks (same ensembles, same paths) and must be on record unchanged in the file written now
        l0 = getattr(st, "_c18_locked0", None)
        if l0:
            sim, cur = before["simulation"], before["current"]
            job = lambda t: ([int(x) for x in t[0]], [str(x) for x in t[1]])  # noqa: E731
            if before["runner"]["workers"] >= len(l0) and sim["steps"] - cur["cstep"] >= len(l0):
                written = [job(t) for t in cur.get("locked", [])]
                lost = [job(t) for t in l0 if job(t) not in written]
                if lost:
                    b = canon(strip_restart(before))
                    return "ok", b, b, f"reissued-jobs-changed-on-record:{lost[0]}-not-in-{written}", None
    except Exception as e:  # noqa: BLE001
        if type(e).__name__ == "Timeout":
            raise
        return "write_toml:" + err_kind(e), None, None, None, None
    try:
        again = real.S.setup_config("restart.toml", "restart.toml")
    except Exception as e:  # noqa: BLE001
        return err_kind(e), None, None, None, None
    if again is None:
        return "none", None, None, None, None
    try:
        b, a = canon(strip_restart(before)), canon(strip_restart(again))
    except Exception as e:  # noqa: BLE001
        return "malformed-config:" + err_kind(e), None, None, None, None
    stage = "setup_internal"
    try:
        md_items, st2 = real.setup_internal(again)
        if len(st2.ensembles) != len(again["simulation"]["interfaces"]):
            return "ok", b, a, f"{stage}:wrong-number-of-ensembles", None
        if [int(x) for x in st2.live_paths()] != [int(x) for x in again["current"]["active"]]:
            return "ok", b, a, f"{stage}:active-paths-not-restored", None
        mbad = md_items_violations(again, md_items, st2)
        if mbad:
            return "ok", b, a, f"md_items:{mbad[0]}", None
        stage = "first-picks"
        st2._c18_locked0 = copy.deepcopy(list(again["current"].get("locked", [])))
        err = first_picks(st2, again)
        return "ok", b, a, (f"{stage}:{err}" if err else None), st2
    except Exception as e:  # noqa: BLE001
        return "ok", b, a, f"{stage}:{err_kind(e)}", None


def md_items_violations(cfg, md_items, st):
    """what the real setup_internal hands on: md_items (interfaces, moves, cap of the configuration) and a state
    whose W matrix holds, for every stored path it loaded, the demanded weight vector under the configured cap"""
    sim = cfg["simulation"]
    bad = []
    try:
        if not same_cap(md_items.get("cap", "missing"), configured_cap(cfg)):
            bad.append(f"cap is {md_items.get('cap', 'missing')!r}, configured interface_cap is {configured_cap(cfg)!r}")
        if not same_cap(st.cap, configured_cap(cfg)):
            bad.append(f"state.cap is {st.cap!r}, configured interface_cap is {configured_cap(cfg)!r}")
        if list(md_items.get("interfaces", ())) != list(sim["interfaces"]):
            bad.append(f"interfaces are {md_items.get('interfaces')!r}")
        if list(md_items.get("mc_moves", ())) != list(sim["shooting_moves"]):
            bad.append(f"mc_moves are {md_items.get('mc_moves')!r}")
        n = len(sim["interfaces"])
        orders = [None] + [[float(pp.order[0]) for pp in st._trajs[i + 1].phasepoints] for i in range(n - 1)]
        sb = state_weight_violations(cfg, orders, st.state.tolist())
        if sb:
            bad.append("weights: " + sb[0][1])
    except Exception as e:  # noqa: BLE001
        if type(e).__name__ == "Timeout":
            raise
        bad.append("unreadable: " + err_kind(e))
    return bad


RESTART_VARIANTS = {
    # name -> (cstep, restarted_from, steps, active paths on disk)
    "go": (0, None, 10, True),
    "go-no-step-but-steps-left": (5, 5, 10, True),
    "go-after-steps": (7, 3, 10, True),
    "finished": (10, 10, 10, True),
    "path-missing": (0, None, 10, False),
}


def mismatch_size(n, k):
    """a number of interfaces another restart state could have been written for"""
    cands = [x for x in (n + 1, n - 1, 3, 2) if 2 <= x <= 5 and x != n]
    return cands[k % len(cands)]


def restart_dict(real, c, variant, size=None):
    """a library-written restart file with its validated tables edited into case `c`.  `size`: the number of
    interfaces the `[current]` table was written for — None = the historical base table (3 interfaces, one job in
    flight), else the table the library writes for that many interfaces (the case's own number, or a mismatching one:
    an interface added to / removed from a restart file)"""
    cstep, rfrom, steps, present = RESTART_VARIANTS[variant]
    d = to_dict(c, real.tmp)
    d["simulation"]["steps"] = steps
    d["output"]["data_file"] = real.restart_data
    if d["output"].get("pattern"):
        # a restart file of a run with output.pattern carries the key setup_config set on the fresh start
        # (write_toml dumps the whole configuration); without it pattern_header / write_pattern raise KeyError
        d["output"]["pattern_file"] = "pattern.txt"
    cur = copy.deepcopy(real.base_restart["current"]) if size is None else real.current_for(size)
    cur["cstep"] = cstep
    cur.pop("restarted_from", None)
    if rfrom is not None:
        cur["restarted_from"] = rfrom
    if not present:
        cur["active"] = list(cur["active"][:-1]) + [987]
    d["current"] = cur
    return d


def restart_line(c, variant, size=3):
    cstep, rfrom, steps, present = RESTART_VARIANTS[variant]
    return (f"restart {cstep} {'-' if rfrom is None else rfrom} {steps} {1 if present else 0} "
            + to_line("x", c, size)[2:])



# --------------------------------------------------------------------------- setup_config from its two files on
def section_codes(d, table):
    """(name, code) per top-level table: code 0 for the empty table, else a number that is equal iff the values are"""
    import json
    out = []
    for k, v in d.items():
        if v == {}:
            out.append((k, 0))
            continue
        key = json.dumps(canon(v), sort_keys=True)
        out.append((k, table.setdefault(key, len(table) + 1)))
    return out


def file_tokens(real, c, d, table, present=True):
    """the driver's description of one TOML file built from case `c` (dict `d`)"""
    if d is None:
        return "-"
    secs = section_codes(d, table)
    cur = d.get("current")
    if cur is None:
        curs = "-"
    else:
        rf = cur.get("restarted_from")
        curs = f"C {cur['cstep']} {'-' if rf is None else rf} {d['simulation']['steps']} {1 if present else 0}"
    cfg = to_line("x", c, None if cur is None else cur.get("size"))[2:].split(" ")
    # bit 0: output.pattern, bit 1: the file already has the key output.pattern_file
    pat = (1 if d.get("output", {}).get("pattern") else 0) + (2 if "pattern_file" in d.get("output", {}) else 0)
    return (f"F {len(secs)} " + " ".join(f"{hexs(k)} {v}" for k, v in secs)
            + f" {pat} {curs} {len(cfg)} " + " ".join(cfg)).replace("  ", " ")


def show_files_outcome(real, cfg_or_err, before_files):
    """canonical form of what the real setup_config(inp, re_inp) returned, as the driver's `files` op prints it"""
    if isinstance(cfg_or_err, str):
        return cfg_or_err
    cfg = cfg_or_err
    if cfg is None:
        return "none"
    cur = cfg["current"]
    rf = cur.get("restarted_from")
    new_files = sorted(set(f for f in os.listdir(real.tmp) if f.startswith("infretis_data")) - before_files)
    if rf is None:
        fresh = f"{cur['traj_num']},{cur['cstep']},{cur['size']},{lst(list(cur['active']))}"
    else:
        fresh = "-"
    return (f"ok {show_norm(cfg)} fresh={fresh} rf={'-' if rf is None else rf} header={1 if new_files else 0} "
            f"pattern={1 if 'pattern_file' in cfg['output'] else 0}")


def run_two_files(ctx, real):
    """block H: setup_config(inp, re_inp) with every combination of (input file: missing / plain / with another
    number of steps / with an extra empty table / with an extra non-empty table / pattern on) × (restart file: missing
    / matching with [current] / other steps / extra table / finished / a path missing / without one of the input's
    tables) × (same path or not), on a valid and on invalid configurations; model: Infretis.Config.setupConfigFiles"""
    import tomli_w
    bases = [mkcase((0, 2, 4), 1, (0, 0, 1), cap=3), mkcase((0, 2, 4), 2, (0, 1, 1), cap=0, lm1=-1),
             mkcase((0, 2), 1, (0, 0), ee=(("x",), ("engine",))), mkcase((0, 2, 4), 3, (0, 0, 0)),
             mkcase((-2, 0, 2, 4), 2, (0, 1, 0, 0), cap=0, lm1=-3, quantis=0, seed=0)]
    lines, shown, objs = [], [], []
    table = {}
    for c in bases:
        for iv in ("missing", "plain", "steps", "empty-table", "extra-table", "pattern"):
            for rv in ("missing", "match", "steps", "extra-table", "finished", "path-missing", "lacks-table",
                       "other-size"):
                for same in (False, True):
                    if same and (iv != "plain" or rv == "missing"):
                        continue
                    if iv == "missing" and rv not in ("missing", "match"):
                        continue
                    variant = {"finished": "finished", "path-missing": "path-missing"}.get(rv, "go")
                    # the restart file's [current] table: written for the case's own number of interfaces, or
                    # (rv = other-size) for another number
                    rsize = mismatch_size(len(c[0]), 0) if rv == "other-size" else len(c[0])
                    if rv == "missing":
                        d = to_dict(c, real.tmp)
                    else:
                        # the input file the restart file was written from (same tables, no [current])
                        d = {k: v for k, v in restart_dict(real, c, variant, rsize).items() if k != "current"}
                    d["output"]["data_dir"] = real.tmp
                    if iv == "steps":
                        d["simulation"]["steps"] = 11
                    elif iv == "empty-table":
                        d["notes"] = {}
                    elif iv == "extra-table":
                        d["notes"] = {"a": 1}
                    elif iv == "pattern":
                        d["output"]["pattern"] = True
                    rd, present = None, True
                    if rv != "missing":
                        rd = restart_dict(real, c, variant, rsize)
                        rd["output"]["data_dir"] = real.tmp
                        if iv == "pattern":
                            rd["output"]["pattern"] = True
                        present = RESTART_VARIANTS[variant][3]
                        if rv == "steps":
                            rd["simulation"]["steps"] = 12
                        elif rv == "extra-table":
                            rd["notes2"] = {"b": 2}
                        elif rv == "lacks-table":
                            rd.pop("orderparameter")
                    for f in ("h_inp.toml", "h_re.toml"):
                        if os.path.exists(f):
                            os.remove(f)
                    if rd is not None:
                        with open("h_re.toml", "wb") as f:
                            tomli_w.dump(rd, f)
                    if same:
                        inp_name, d_used = "h_re.toml", rd
                    else:
                        inp_name, d_used = "h_inp.toml", (None if iv == "missing" else d)
                        if d_used is not None:
                            with open("h_inp.toml", "wb") as f:
                                tomli_w.dump(d_used, f)
                    before = set(f for f in os.listdir(real.tmp) if f.startswith("infretis_data"))
                    try:
                        res = real.S.setup_config(inp_name, "h_re.toml")
                    except Exception as e:  # noqa: BLE001
                        if type(e).__name__ == "Timeout":
                            raise
                        res = err_kind(e)
                    try:
                        out = show_files_outcome(real, res, before)
                    except Exception as e:  # noqa: BLE001
                        out = "malformed-config:" + err_kind(e)
                    for f in set(f for f in os.listdir(real.tmp) if f.startswith("infretis_data")) - before:
                        os.remove(os.path.join(real.tmp, f))
                    obj = {"case": case_obj(c), "route": "two-files", "input_file": iv, "restart_file": rv, "same_path": same}
                    ctx.count(1, branch="files:" + out.split(" ")[0])
                    ctx.hit(f"files:{iv}/{rv}/{'same' if same else 'two'}:{out.split(' ')[0]}")
                    # property: whatever comes back is valid; an invalid configuration never comes back
                    if not isinstance(res, str) and res is not None:
                        bad = safe_valid(res)
                        if bad:
                            fail_once(ctx, SIZE_SIG if bad == [SIZE_CLAUSE] else f"C18:two-files:{bad[0]}",
                                      f"setup_config(input file, restart file) accepted a configuration violating: "
                                      f"{', '.join(bad)}", dict(obj, violated=bad))
                    lines.append("files " + ("1 " if same else "0 ")
                                 + file_tokens(real, c, d_used, table, present) + " "
                                 + (file_tokens(real, c, rd, table, present) if not same else "-"))
                    shown.append(out)
                    objs.append(obj)
    if ctx._driver_ok:
        for obj, line, code, m in zip(objs, lines, shown, safe_driver(ctx, lines)):
            if code != m:
                ctx.disagree({"fn": "setup_config(inp, re_inp) vs Infretis.Config.setupConfigFiles", "case": obj,
                              "request": line}, code, m)
    ctx.extra["two_file_cases"] = ctx.extra.get("two_file_cases", 0) + len(lines)


def run_size_block(ctx, real):
    """block S: the real setup_internal called DIRECTLY (check_config bypassed) on valid configurations whose
    [current] table was written for m = 2..5 interfaces, against Infretis.Config.startUpAsIs (the start-up without the
    size test of /repo 971ccbc: old check_config ; setup_internal with the state sized by [current].size).  For m = n
    the state after load_paths is compared, for m ≠ n the error kind (ValueError of add_traj: the weight vector is
    not as wide as the state).  This is what an accepted size mismatch did before the repair; the property predicate
    for the repaired code (such a configuration is rejected) is judged on the restart route."""
    bases = [mkcase((0, 2, 4), 1, (0, 0, 0)), mkcase((0, 2), 1, (0, 0)), mkcase((0, 2, 4, 6), 1, (0, 0, 0, 0)),
             mkcase((0, 2, 4), 1, (0, 0, 1), cap=3, lm1=-1), mkcase((-2, 0, 2, 4, 6), 2, (0, 1, 0, 0, 1), cap=5)]
    lines, shown, objs = [], [], []
    for c in bases:
        n = len(c[0])
        code, cfg0 = real.setup(to_dict(c, real.tmp))
        if cfg0 is None:
            continue
        for m in (2, 3, 4, 5):
            cfg = copy.deepcopy(cfg0)
            cfg["current"] = real.current_for(m)
            orders = initial_orders(cfg, "on-own")
            orders = orders + [orders[-1]] * max(0, m - n)     # one stored path per active path of the table
            try:
                store_paths([mkpath(ops, k) for k, ops in enumerate(orders)])
                md_items, st = real.setup_internal(cfg)
                out = show_loaded({"md": {"cap": md_items["cap"], "interfaces": list(md_items["interfaces"]),
                                          "mc_moves": list(md_items["mc_moves"])},
                                   "matrix": [[float(x) for x in r] for r in st.state.tolist()]})
            except Exception as e:  # noqa: BLE001
                if type(e).__name__ == "Timeout":
                    raise
                out = err_kind(e)
            ctx.count(1, branch="size-block:" + ("aligned" if m == n else "other-size") + ":" + out.split(" ")[0])
            if m == n and not out.startswith("ok"):
                fail_once(ctx, "C18:accepted-valid-but-init-fails:setup_internal",
                          f"setup_internal on a valid configuration with its own [current] table raises {out}",
                          {"case": case_obj(c), "current_size": m})
            lines.append(load_line(c, orders[:max(m, n)], m, op="loadasis"))
            shown.append(out)
            objs.append({"case": case_obj(c), "current_size": m, "route": "setup_internal-directly"})
    if ctx._driver_ok:
        for obj, line, code, mo in zip(objs, lines, shown, safe_driver(ctx, lines)):
            if code != mo:
                ctx.disagree({"fn": "setup_internal (state sized by [current].size) vs Infretis.Config.startUpAsIs",
                              "case": obj, "request": line}, code, mo)
    ctx.extra["size_block_cases"] = ctx.extra.get("size_block_cases", 0) + len(lines)


def run_library_restarts(ctx, real):
    """block H2: restart files written by the library itself (fresh setup_config, REPEX_state, initiate_ensembles,
    load_paths, the real write_toml — they carry the defaults, output.data_file and, with output.pattern,
    output.pattern_file), read back (a) directly, (b) next to the input file they came from (whose tables lack the
    defaults: the restart file is not used, fresh start), (c) next to an input file with the same tables; model:
    Infretis.Config.setupConfigFiles.  (a) then goes through the real setup_internal and the first picks."""
    import tomli
    import tomli_w
    from infretis.classes.path import load_paths_from_disk
    from infretis.classes.repex import REPEX_state
    bases = [mkcase((0, 2, 4), 1, (0, 0, 1), cap=3), mkcase((0, 2, 4), 1, (0, 0, 0), opts=(("pattern", 1),)),
             mkcase((0, 2, 4), 0, (0, 0, 0), opts=(("pattern", 1),)),
             mkcase((-2, 0, 2, 4), 2, (0, 1, 0, 0), cap=0, lm1=-3, quantis=0, seed=3, opts=(("pattern", 1),)),
             mkcase((0, 2), 1, (0, 0), lm1=-1)]
    lines, shown, objs = [], [], []
    table = {}
    for c in bases:
        d = to_dict(c, real.tmp)
        for f in ("h_inp.toml", "h_inp2.toml", "restart.toml"):
            if os.path.exists(f):
                os.remove(f)
        with open("h_inp.toml", "wb") as f:
            tomli_w.dump(d, f)
        obj0 = {"case": case_obj(c), "route": "library-restart"}
        try:
            cfg = real.S.setup_config("h_inp.toml", "restart.toml")
            st = REPEX_state(cfg, minus=True)
            st.initiate_ensembles()
            store_paths(initial_paths(cfg))
            st.load_paths(load_paths_from_disk(cfg))
            st.write_toml()
            with open("restart.toml", "rb") as f:
                rd = tomli.load(f)
        except Exception as e:  # noqa: BLE001
            if type(e).__name__ == "Timeout":
                raise
            fail_once(ctx, "C18:accepted-valid-but-init-fails:write-restart",
                      f"a valid configuration could not be started and written to restart.toml: {err_kind(e)}", obj0)
            continue
        fresh_files = set(f for f in os.listdir(real.tmp) if f.startswith("infretis_data"))
        with open("h_inp2.toml", "wb") as f:
            tomli_w.dump({k: v for k, v in rd.items() if k != "current"}, f)
        for entry, inp_name, d_inp, same in (("direct", "restart.toml", rd, True), ("raw-input", "h_inp.toml", d, False),
                                             ("matching-input", "h_inp2.toml",
                                              {k: v for k, v in rd.items() if k != "current"}, False)):
            before = set(f for f in os.listdir(real.tmp) if f.startswith("infretis_data"))
            try:
                res = real.S.setup_config(inp_name, "restart.toml")
            except Exception as e:  # noqa: BLE001
                if type(e).__name__ == "Timeout":
                    raise
                res = err_kind(e)
            try:
                out = show_files_outcome(real, res, before)
            except Exception as e:  # noqa: BLE001
                out = "malformed-config:" + err_kind(e)
            obj = dict(obj0, entry=entry)
            ctx.count(1, branch="library-restart:" + out.split(" ")[0])
            ctx.hit(f"library-restart:{entry}:{out.split(' ')[0]}:pattern_file={'pattern=1' in out}")
            if not isinstance(res, str) and res is not None:
                bad = safe_valid(res)
                if bad:
                    fail_once(ctx, SIZE_SIG if bad == [SIZE_CLAUSE] else f"C18:two-files:{bad[0]}",
                              f"setup_config accepted a configuration violating: {', '.join(bad)}", dict(obj, violated=bad))
                elif entry == "direct":
                    # the property's last sentence: re-reading the restart file the program wrote is a fixed point …
                    b, a = canon(strip_restart(rd)), canon(strip_restart(res))
                    if b != a:
                        diff = sorted(k for k in set(b) | set(a) if b.get(k) != a.get(k))
                        fail_once(ctx, "C18:restart-not-a-fixed-point",
                                  f"restart.toml read back differs in sections {diff}", dict(obj, differing=diff))
                    # … and it initialises again (pattern_header of a restarted run included)
                    stage, ferr, _, mbad, orders = restart_initialise(real, copy.deepcopy(res))
                    ctx.hit(f"library-restart:init:{stage}{':' + ferr if ferr else ''}")
                    if ferr is not None:
                        fail_once(ctx, f"C18:restart-route:accepted-valid-but-init-fails:{stage}",
                                  f"the restart file the library wrote is accepted but {stage} raises {ferr}",
                                  dict(obj, stage=stage, error=ferr))
                    elif mbad:
                        fail_once(ctx, "C18:restart-route:md_items-not-the-configuration",
                                  "setup_internal on the library's own restart file hands on " + mbad[0], dict(obj, error=mbad[0]))
            # the files' cfg tokens are those of the case: the restart file holds the normalised values, and the
            # model normalises again (normalise_idempotent), so the outcome is the same
            lines.append("files " + ("1 " if same else "0 ") + file_tokens(real, c, d_inp, table, True) + " "
                         + (file_tokens(real, c, rd, table, True) if not same else "-"))
            shown.append(out)
            objs.append(obj)
            for f in set(f for f in os.listdir(real.tmp) if f.startswith("infretis_data")) - before:
                os.remove(os.path.join(real.tmp, f))
        for f in fresh_files:
            try:
                os.remove(os.path.join(real.tmp, f))
            except FileNotFoundError:
                pass
    if ctx._driver_ok:
        for obj, line, code, m in zip(objs, lines, shown, safe_driver(ctx, lines)):
            if code != m:
                ctx.disagree({"fn": "setup_config on a library-written restart file vs Infretis.Config.setupConfigFiles",
                              "case": obj, "request": line}, code, m)
    ctx.extra["library_restart_cases"] = ctx.extra.get("library_restart_cases", 0) + len(lines)


# --------------------------------------------------------------------------- type confusion TOML allows
TYPE_MODS = {
    # name -> (modifier of the input dict, "same" = must behave exactly as the float configuration / "typed" = judged by
    #          the same predicates read with Python's own comparisons)
    "ints-for-floats": (lambda d: (d["simulation"].update(interfaces=[int(x) for x in d["simulation"]["interfaces"]]),
                                   [d["simulation"]["tis_set"].update({k: int(v)}) for k, v in
                                    list(d["simulation"]["tis_set"].items()) if k in ("interface_cap", "lambda_minus_one")
                                    and isinstance(v, float)]), "same"),
    "cap-false": (lambda d: d["simulation"]["tis_set"].update(interface_cap=False), "typed"),
    "cap-true": (lambda d: d["simulation"]["tis_set"].update(interface_cap=True), "typed"),
    "cap-nan": (lambda d: d["simulation"]["tis_set"].update(interface_cap=float("nan")), "typed"),
    "lm1-true": (lambda d: d["simulation"]["tis_set"].update(lambda_minus_one=True), "typed"),
    "lm1-nan": (lambda d: d["simulation"]["tis_set"].update(lambda_minus_one=float("nan")), "typed"),
    "interfaces-nan-middle": (lambda d: d["simulation"]["interfaces"].__setitem__(1, float("nan")), "typed"),
    "interfaces-nan-first": (lambda d: d["simulation"]["interfaces"].__setitem__(0, float("nan")), "typed"),
    "interfaces-nan-last": (lambda d: d["simulation"]["interfaces"].__setitem__(-1, float("nan")), "typed"),
    "interfaces-strings": (lambda d: d["simulation"].update(interfaces=[f"{k}" for k in range(len(d["simulation"]["interfaces"]))]), "typed"),
    "interfaces-bool": (lambda d: d["simulation"]["interfaces"].__setitem__(0, False), "typed"),
    "interfaces-nested": (lambda d: d["simulation"].update(interfaces=[[x] for x in d["simulation"]["interfaces"]]), "typed"),
    "interfaces-scalar": (lambda d: d["simulation"].update(interfaces=3.0), "typed"),
    "workers-float-integral": (lambda d: d["runner"].update(workers=float(d["runner"]["workers"])), "typed"),
    "workers-float": (lambda d: d["runner"].update(workers=d["runner"]["workers"] - 0.5), "typed"),
    "workers-string": (lambda d: d["runner"].update(workers=str(d["runner"]["workers"])), "typed"),
    "workers-true": (lambda d: d["runner"].update(workers=True), "typed"),
    "workers-negative": (lambda d: d["runner"].update(workers=-1), "typed"),
    "steps-float": (lambda d: d["simulation"].update(steps=10.0), "typed"),
    "steps-negative": (lambda d: d["simulation"].update(steps=-1), "typed"),
    "moves-string": (lambda d: d["simulation"].update(shooting_moves="sh" * len(d["simulation"]["shooting_moves"])), "typed"),
    "moves-unknown": (lambda d: d["simulation"]["shooting_moves"].__setitem__(1, "xx"), "typed"),
    "ensemble-engines-string": (lambda d: d["simulation"].update(ensemble_engines="engine"), "typed"),
    "ensemble-engines-flat": (lambda d: d["simulation"].update(ensemble_engines=["engine"] * len(d["simulation"]["interfaces"])), "typed"),
    "interfaces-inf-last": (lambda d: d["simulation"]["interfaces"].__setitem__(-1, float("inf")), "typed"),
    "cap-negative-zero": (lambda d: d["simulation"]["tis_set"].update(interface_cap=-0.0), "typed"),
    "no-tis_set": (lambda d: d["simulation"].pop("tis_set"), "typed"),
    "no-runner": (lambda d: d.pop("runner"), "typed"),
    "no-shooting_moves": (lambda d: d["simulation"].pop("shooting_moves"), "typed"),
    "no-interfaces": (lambda d: d["simulation"].pop("interfaces"), "typed"),
}
# PENDING_FINDINGS: what the UNCHANGED library (/repo HEAD) still gets wrong: reported to the coordinator, recorded in
# the evidence under `pending_findings` on every run, not yet recorded in known_findings.json.  ONLY open defects may
# be listed here — a signature stays on this list exactly as long as /repo HEAD shows it; the defects repaired by
# adf2044 (`interface_cap = false`), d56000a (NaN) and 2128e76 (float workers) were removed from it: if they come
# back, block T fails with the concrete input (and corpus/C18/type-*.json replay them first).
# (string interfaces accepted / KeyError for a missing shooting_moves key were listed here until /repo a54d86e
#  repaired them; corpus/C18/type-interfaces-strings.json and type-no-shooting-moves.json replay them.)
# An input class that is NOT generated, on purpose: a restart file edited by hand to `output.pattern = true` WITHOUT the
# key `output.pattern_file` (only the fresh branch of setup_config sets it; a restart file of a run with output.pattern
# carries it, and `restart_dict` adds it as the library would).  On /repo HEAD such a file is accepted and
# pattern_header (workers = 0) or write_pattern (first finished step) raise KeyError 'pattern_file' — an observation
# reported to the coordinator, outside the property's list of validated fields.


def pending_or_fail(ctx, sig, what, rep):
    if sig in PENDING_FINDINGS:
        ctx.hit("pending:" + sig)
        pf = ctx.extra.setdefault("pending_findings", {})
        if sig not in pf:
            pf[sig] = {"what": what, "inputs_this_run": 0, "smallest": rep}
        pf[sig]["inputs_this_run"] += 1
    else:
        fail_once(ctx, sig, what, rep)


def run_type_confusion(ctx, real, lcases, only=None):
    """block T: values of another TOML type in the validated fields (ints for floats, floats / strings / bools for
    integers, NaN and inf, strings and nested lists for interfaces, missing tables).  Ints for floats must behave
    exactly like the float configuration (judged and compared with the model like every other case); the rest is
    outside the Lean model (Int-valued): judged by `typed_violations` and the real initialisation only."""
    bases = [mkcase((0, 2, 4), 2, (0, 0, 1), cap=3, lm1=-1), mkcase((-2, 0, 2, 4), 1, (0, 1, 0, 0), cap=0, lm1=-3),
             mkcase((0, 2), 1, (0, 0))]
    if only is not None:
        bases = [only[0]]          # replay of one recorded input: (case, name of the modification)
    n = 0
    for c in bases:
        ref_code, ref_cfg = real.setup(to_dict(c, real.tmp))
        for name, (modify, expect) in TYPE_MODS.items():
            if only is not None and name != only[1]:
                continue
            d = to_dict(c, real.tmp)
            try:
                modify(d)
            except Exception:  # noqa: BLE001  (a key the base case does not have)
                continue
            rep = {"case": case_obj(c), "route": "type-confusion", "modification": name}
            try:
                code, cfg = real.setup(d, "typed.toml")
            except Exception as e:  # noqa: BLE001
                if type(e).__name__ == "Timeout":
                    raise
                ctx.hit(f"type:{name}:not-writable-as-toml:{type(e).__name__}")
                continue
            n += 1
            outcome = code.split(" ")[0].split(":")[0] if code.startswith("malformed") else code.split(" ")[0]
            ctx.count(1, branch=f"type:{expect}:{outcome}")
            ctx.hit(f"type:{name}:{outcome}")
            if expect == "same":
                if code != ref_code:
                    fail_once(ctx, f"C18:type:{name}:differs-from-float-configuration",
                              f"with integers for floats setup_config gives {code}, with floats {ref_code}", rep)
                elif cfg is not None:
                    judge(ctx, real, c, code, cfg, True, False, ("to-last",), None, None, None, None)
                continue
            if ctx._driver_ok and name in ("interfaces-strings", "interfaces-nested", "no-shooting_moves"):
                # inside the Lean model since a54d86e: interfaces that are not numbers (flag Cfg.intfNumeric, their
                # order codes 0, 1, … sent) and an absent shooting_moves key (= the empty list)
                if name == "no-shooting_moves":
                    mline = to_line("setup", Case(c[:2] + ((),) + c[3:]))
                else:
                    mline = to_line("setup", Case((tuple(range(len(c[0]))),) + c[1:]), None, numeric=False)
                mout = safe_driver(ctx, [mline])[0]
                if mout.split(" ")[0] != code.split(" ")[0]:
                    ctx.disagree({"fn": "setup_config vs Infretis.Config.setupConfig (block T)", "case": case_obj(c),
                                  "modification": name, "request": mline}, code, mout)
            # every other value: the same predicates as for the float configurations, read with Python's own
            # comparisons (a bool is the number 0/1, NaN compares false)
            if code.startswith("malformed"):
                cfg = None
                try:
                    cfg = real.S.setup_config("typed.toml", "no-restart-file.toml")
                except Exception:  # noqa: BLE001
                    cfg = None
                finally:
                    real.clean()
            if cfg is not None:
                bad = safe_valid(cfg)
                if bad:
                    pending_or_fail(ctx, f"C18:type:{name}:accepted-invalid:{bad[0]}",
                                    f"setup_config accepts the configuration with {name}, which violates: {', '.join(bad)}",
                                    dict(rep, violated=bad))
                    continue
                try:
                    # test paths from the interfaces read as numbers (a string "1" is read as 1: whatever the
                    # configuration holds, an accepted one must start with valid paths for its interfaces)
                    orders = initial_orders(cfg, "on-own")
                    buildable = all(isinstance(x, float) and x == x and abs(x) != float("inf") for o in orders for x in o)
                except Exception:  # noqa: BLE001
                    buildable = False
                if not buildable:
                    ctx.hit(f"type:{name}:accepted:no-test-paths-for-such-interfaces")
                    continue
                stage, ferr, _, _, _ = initialise(copy.deepcopy(cfg), "on-own")
                if ferr is not None:
                    pending_or_fail(ctx, f"C18:type:{name}:accepted-but-init-fails:{stage}",
                                    f"setup_config accepts the configuration with {name} (no listed clause violated) and "
                                    f"{stage} raises {ferr}", dict(rep, stage=stage, error=ferr))
                continue
            try:
                d2 = copy.deepcopy(d)
                if "shooting_moves" not in d2.get("simulation", {"shooting_moves": 0}):
                    d2["simulation"]["shooting_moves"] = []      # no key = no shooting move for any ensemble
                bad = py_valid(py_normalised(d2))
            except Exception:  # noqa: BLE001  (a missing table / values that cannot be compared: outside the
                bad = []               # property's list — see the assumptions)
                ctx.hit(f"type:{name}:not-judged-against-the-list")
            if bad and code != "err:config":
                pending_or_fail(ctx, f"C18:type:{name}:invalid-rejected-with-{code.replace('err:', '')}-error:{bad[0]}",
                                f"the configuration with {name} ({', '.join(bad)}) is rejected with {code}, not "
                                "TOMLConfigError", dict(rep, violated=bad, code=code))
    ctx.extra["type_confusion_cases"] = ctx.extra.get("type_confusion_cases", 0) + n

# --------------------------------------------------------------------------- generators
def seqs(alphabet, lo, hi):
    for L in range(lo, hi + 1):
        yield from itertools.product(alphabet, repeat=L)


ENGINE_PROFILES = {
    # name -> (cls, input_path, other) per table, in NAMES order
    "plain": ((1, None, 7), (1, None, 7), (1, None, 7)),
    "gmx-same": ((0, 1, 7), (0, 1, 7), (0, 1, 7)),
    "gmx-clash": ((0, 1, 7), (0, 1, 8), (0, 1, 7)),
    "gmx-distinct": ((0, 1, 7), (0, 2, 8), (0, 3, 9)),
    "mixed-nopath": ((0, 1, 7), (1, None, 8), (1, None, 7)),
    "mixed-path": ((1, 1, 7), (0, 1, 8), (2, 2, 7)),
    "gmx-nopath": ((0, None, 7), (1, 1, 7), (1, None, 7)),
}


def engine_tables(subset, profile):
    prof = ENGINE_PROFILES[profile]
    return tuple((NAMES[i],) + prof[i] for i in subset)


def valid_moves(n):
    return (0,) * n


def gen_cases(ctx):
    rng = ctx.rng
    quick = ctx.quick
    cases = []
    maxlen = 3 if quick else 4
    # A. interfaces × cap × moves (the cap / wire-fencing corner)
    nA = 0
    for intf in seqs(GRID, 0, maxlen):
        n = len(intf)
        for cap in CAPS:
            for mv in seqs((0, 1), max(n - 1, 0), n + 1):
                cases.append(mkcase(intf, max(n - 1, 0) if n else 0, mv, cap=cap))
                nA += 1
    # B. interfaces × λ₋₁ × quantis
    nB = 0
    for intf in seqs(GRID, 0, 4 if not quick else 3):
        n = len(intf)
        for lm1 in LM1S:
            for q in (None, 0, 1):
                cases.append(mkcase(intf, 1 if n >= 2 else 0, valid_moves(n), lm1=lm1, quantis=q))
                nB += 1
    # C. interfaces × workers
    nC = 0
    for intf in seqs(GRID, 0, 4):
        n = len(intf)
        for w in range(-1, n + 2):
            cases.append(mkcase(intf, w, valid_moves(n)))
            nC += 1
    # D. ensemble_engines × engine tables × quantis on fixed valid interfaces
    nD = 0
    per_ens = ((), ("engine",), ("engine0",), ("x",), ("engine", "engine0"))
    subsets = [s for k in range(4) for s in itertools.combinations(range(3), k)]
    for intf in ((0, 2),) if quick else ((0, 2), (0, 2, 4)):
        n = len(intf)
        ees = [None, ()] + [ee for L in range(max(n - 1, 1), n + 2) for ee in itertools.product(per_ens, repeat=L)]
        if n == 3:
            ees = [None, ()] + rng.sample(ees[2:], 150)
        for ee in ees:
            for sub in (subsets if not quick else [(), (0,), (0, 1), (0, 1, 2)]):
                for prof in ENGINE_PROFILES:
                    for q in (None, 1):
                        cases.append(mkcase(intf, 1, valid_moves(n) + (1,), quantis=q, ee=ee,
                                            engines=engine_tables(sub, prof)))
                        nD += 1
    # E. seeded random mix of every field (order of the tests, error-kind precedence)
    nE = 10000 if quick else 80000
    for _ in range(nE):
        n = rng.choice((0, 1, 2, 2, 3, 3, 3, 4, 4, 5))
        if rng.random() < 0.6:
            intf = tuple(sorted(rng.sample(range(-4, 8), n)))
        else:
            intf = tuple(rng.choice(GRID + (1, 6)) for _ in range(n))
        w = rng.choice((n - 1, n - 1, 1, 0, n, rng.randint(-1, n + 1)))
        L = max(0, n + rng.choice((0, 0, 0, 1, -1)))
        mv = tuple(rng.choice((0, 0, 1)) for _ in range(L))
        cap = rng.choice((None, None, 0, rng.randint(-5, 9), rng.choice(intf) if intf else 1))
        lm1 = rng.choice(("A", "A", "F", 0, rng.randint(-6, 5), (intf[0] - 1) if intf else -1))
        q = rng.choice((None, None, 0, 1))
        r = rng.random()
        if r < 0.55:
            ee = None
        elif r < 0.6:
            ee = ()
        else:
            ee = tuple(rng.choice(per_ens) for _ in range(max(0, n + rng.choice((0, 0, 0, -1, 1)))))
        sub = rng.choice(subsets[4:] + [(0, 1, 2)] * 4 + [(0, 1)] * 4) if rng.random() < 0.85 else rng.choice(subsets)
        prof = rng.choice(list(ENGINE_PROFILES) + ["plain"] * 6)
        cases.append(mkcase(intf, w, mv, cap=cap, lm1=lm1, quantis=q, ee=ee, engines=engine_tables(sub, prof),
                            seed=rng.choice((None, None, 0, 3)), acc=rng.choice((None, None, 0, 1))))
    # F. options check_config does not look at, at their falsy / boundary values, on valid configurations
    #    (steps 0 / < workers / == workers, seed 0, maxlength 0, n_jumps 0, screen 0/1/3, pattern, delete_old),
    #    workers at 0 and at the maximum n-1, with and without cap / λ₋₁ (0.0 included) / quantis
    nF = 0
    bases = [dict(intf=(0, 2, 4), cap=None, lm1="A"), dict(intf=(-2, 0, 2, 4), cap=4, lm1=-3),
             dict(intf=(0, 2), cap=None, lm1="F"), dict(intf=(2, 4, 5), cap=3, lm1=0)]
    optsets = [()]
    for key, vals in (("steps", (0, 1, 2, 3)), ("maxlength", (0, 1)), ("n_jumps", (0,)), ("screen", (1, 3)),
                      ("pattern", (1,)), ("delete_old", (1,))):
        optsets += [((key, v),) for v in vals]
    optsets += [(("steps", 0), ("screen", 1)), (("steps", 1), ("screen", 3), ("pattern", 1)),
                (("maxlength", 0), ("n_jumps", 0), ("delete_old", 1))]
    for b in bases:
        n = len(b["intf"])
        for w in (0, 1, n - 1):
            for o in optsets:
                # (output.pattern with workers = 0 is the one setting in which pattern_header writes its header on a
                #  fresh start: fixed by /repo 8f18ef6, generated and run through the real setup_internal since)
                for sd in (None, 0, 7):
                    for q in (None, 1):
                        if q and b["lm1"] not in ("A", "F", 0):
                            continue
                        mv = (0, 1) + (0,) * (n - 2) if b["cap"] is not None else (0,) * n
                        cases.append(mkcase(b["intf"], w, mv, cap=b["cap"], lm1=b["lm1"], quantis=q, seed=sd, opts=o))
                        nF += 1
    # G. engine names that collide with the non-engine sections (outside the model's assumption: not compared
    #    with the model, only judged and recorded)
    nG = 0
    for name in NON_ENGINE_SECTIONS:
        for ee in ((( name,), ("engine",)), (("engine",), (name,)), (("engine", name), ("engine",))):
            cases.append(mkcase((0, 2), 1, (0, 0), ee=ee, engines=(("engine", 1, None, 7),), opts=(("nomodel", 1),)))
            nG += 1
    ctx.extra["case_blocks"] = {"A_intf_x_cap_x_moves": nA, "B_intf_x_lm1_x_quantis": nB, "C_intf_x_workers": nC,
                                "D_ensemble_engines_x_tables_x_quantis": nD, "E_random_mix": nE, "F_options_falsy_and_boundary": nF,
                                "G_engine_names_colliding_with_sections": nG}
    return cases


WITNESSES = [
    # (name, case) — witnesses of the defects repaired by /repo commit 729bb50 (also in corpus/C18, where the
    # framework replays them first and reports them under their old signatures if they ever fail again)
    ("capBelowWf", mkcase((0, 2, 4), 2, (0, 0, 1), cap=1, lm1=-1, quantis=0)),
    ("capZero", mkcase((1, 2, 3), 2, (0, 0, 0), cap=0, lm1=-1, quantis=0)),
    ("capAtFirst", mkcase((0, 2, 4), 2, (0, 1, 0), cap=0, lm1=-1, quantis=0)),
    ("emptyWithLm1", mkcase((), 0, (), lm1=-1, quantis=0)),
    ("emptyQuantis", mkcase((), 0, (), quantis=1)),
    ("mixedEngines", mkcase((0, 2, 4), 2, (0, 0, 1), cap=3, lm1=-1, quantis=0,
                            ee=(("engine0",), ("engine",), ("engine",)),
                            engines=(("engine", 0, 1, 7), ("engine0", 1, None, 8)))),
    ("ensembleEnginesShort", mkcase((0, 2), 1, (0, 0), ee=(("engine",),), engines=(("engine", 1, None, 7),))),
    ("ensembleWithoutEngine", mkcase((0, 2), 1, (0, 0), ee=((), ()), engines=(("engine", 1, None, 7),))),
    ("good", mkcase((0, 2, 4), 2, (0, 0, 1), cap=3, lm1=-1, quantis=0)),
    # repaired by 8f18ef6: output.pattern with no worker left to initiate → pattern_header writes (wrote: TypeError)
    ("workersZeroPattern", mkcase((0, 2, 4), 0, (0, 0, 0), opts=(("pattern", 1),))),
]


# --------------------------------------------------------------------------- judging one case
def fail_once(ctx, sig, what, rep):
    """one replay per signature (the framework keeps the first 20 failures); the rest is counted"""
    ctx.hit("fail:" + sig)
    if sig not in ctx.extra.setdefault("_sigs", set()):
        ctx.extra["_sigs"].add(sig)
        ctx.fail(sig, what, rep)


def safe_valid(cfg):
    """py_valid that cannot raise on an unexpected dict (a changed setup_config may return anything)"""
    try:
        return py_valid(cfg)
    except Exception as e:  # noqa: BLE001
        return ["malformed-config:" + err_kind(e)]


def judge(ctx, real, c, code_setup, cfg, do_init, do_restart, families=(), wcases=None, d_in=None, icases=None,
          lcases=None, ocases=None):
    """property predicate on the real outcome of one case; returns the branch name"""
    obj = case_obj(c)
    if code_setup.startswith("malformed-config"):
        fail_once(ctx, "C18:setup_config-returns-malformed-config",
                  f"setup_config returned something that is not a normalised configuration ({code_setup})",
                  {"case": obj, "code": code_setup})
        return "malformed"
    if cfg is not None:
        bad = safe_valid(cfg)
        if rule_violations(cfg):
            fail_once(ctx, QUANTIS_SIG, "setup_config accepted quantis together with lambda_minus_one = "
                      f"{cfg['simulation']['tis_set'].get('lambda_minus_one')!r} (must be a TOMLConfigError for every "
                      "value, 0.0 included)", {"case": obj, "expect": "rejected with TOMLConfigError"})
        if d_in is not None:
            chg = settings_changed(d_in, cfg)
            if chg:
                fail_once(ctx, "C18:setup_config-changes-settings",
                          "setup_config may only fill in absent defaults, [current] and output.data_file/pattern_file; "
                          f"it also changed: {'; '.join(chg[:4])}", {"case": obj, "changed": chg[:8]})
        if bad:
            hole = next((b for b in ("cap-zero-skipped", "cap-below-wf-interface") if b in bad), bad[0])
            fail_once(ctx, f"C18:{hole}", f"setup_config accepted a configuration violating: {', '.join(bad)}",
                     {"case": obj, "violated": bad, "expect": "rejected with TOMLConfigError"})
        if do_init and not bad:
            # the engine occupation lists the real create_engines builds for this configuration
            try:
                occ, engines = real_engine_occ(copy.deepcopy(cfg))
                shown_o = show_occ(occ)
                obad = occ_violations(cfg, occ, engines)
                if not obad and {k: list(v) for k, v in occ.items()} != engine_occ_of(cfg):
                    obad = ["differs from the occupation lists the harness hands to the first picks"]
            except Exception as e:  # noqa: BLE001
                if type(e).__name__ == "Timeout":
                    raise
                shown_o, obad = err_kind(e), [f"create_engines raises {err_kind(e)}"]
            if obad:
                fail_once(ctx, "C18:engine-occupation",
                          f"create_engines on an accepted configuration: {obad[0]}", {"case": obj, "violations": obad[:5]})
            if ocases is not None:
                ocases.append((obj, to_line("occ", c), shown_o))
        if do_init:
            fams = ["on-own"] + [f for f in (families or ()) if f != "on-own"]
            st = None
            err = None
            for fam in fams:
                info = {}
                stage, ferr, fst, orders, rows = initialise(copy.deepcopy(cfg), fam, info)
                ctx.hit(f"init[{fam}]:{'invalid-' if bad else ''}{stage}{':' + ferr if ferr else ''}")
                if fam == "on-own":
                    st, err = fst, ferr
                if bad:
                    continue
                # model of the whole start-up (setup_config ; setup_internal) against what the real state holds
                # after load_paths — or the error raised on the way there
                if lcases is not None and orders is not None:
                    try:
                        if info.get("have"):
                            shown_l = show_loaded(info)
                        else:
                            shown_l = ferr if stage in ("REPEX_state", "initiate_ensembles", "load_paths") else None
                        if shown_l is not None:
                            lcases.append((obj, fam, load_line(c, orders), shown_l))
                    except Exception as e:  # noqa: BLE001
                        if type(e).__name__ == "Timeout":
                            raise
                        lcases.append((obj, fam, load_line(c, orders), "state unreadable: " + err_kind(e)))
                if fam == JUMP:
                    # a path with no frame inside a wire-fencing region [λ_k, right end): demanded own weight 0, not a
                    # valid initial path in the sense of PathsOk; what the code does with it is compared with the model
                    # and recorded, not judged.  Where no own weight is 0 (shooting only) it is judged like the rest.
                    try:
                        zero_own = [k for k in range(len(orders) - 1)
                                    if spec_weight_row(cfg, orders[k + 1])[k] == 0.0]
                    except Exception:  # noqa: BLE001
                        zero_own = []
                    if zero_own:
                        sig = "C18:wf-initial-path-steps-over-fence"
                        outcome = f"{stage}{':' + ferr if ferr else ''}"
                        ctx.hit(f"pending:{sig}:{outcome}")
                        pf = ctx.extra.setdefault("pending_findings", {})
                        if sig not in pf:
                            pf[sig] = {"what": "accepted configuration, initial path valid by Path.check_interfaces that "
                                               "steps over the whole wire-fencing region: wire-fencing own weight 0, "
                                               f"outcome {outcome}", "inputs_this_run": 0,
                                       "smallest": {"case": obj, "orders": orders, "ensembles_with_own_weight_0": zero_own}}
                        pf[sig]["inputs_this_run"] += 1
                        continue
                if fst is not None and stage not in ("REPEX_state", "initiate_ensembles"):
                    ebad = None
                    try:
                        ebad = ensembles_spec_violations(cfg, fst)
                        shown = show_ensembles(fst)
                    except Exception as e:  # noqa: BLE001
                        ebad = ["ensembles unreadable: " + err_kind(e)]
                        shown = None
                    if ebad:
                        fail_once(ctx, "C18:ensembles-wrong",
                                  f"initiate_ensembles on an accepted configuration: {ebad[0]}",
                                  {"case": obj, "violations": ebad[:5], "initial_paths": fam})
                    elif icases is not None and fam == "on-own":
                        icases.append((obj, to_line("init", c), shown))
                # two states alive at once: creating this one must not have changed the previous one
                if fam == "on-own" and ferr is None and fst is not None:
                    prev = ctx.extra.get("_prev_state")
                    try:
                        if prev is not None:
                            pst, psnap, pobj = prev
                            if pst.config is fst.config or pst.ensembles is fst.ensembles or pst.state is fst.state:
                                fail_once(ctx, "C18:state-leak:two-states-share-an-object",
                                          "two REPEX_state objects built from two configurations share config / "
                                          "ensembles / state", {"case": obj, "previous_case": pobj})
                            elif state_snapshot(pst) != psnap:
                                fail_once(ctx, "C18:state-leak:second-state-changes-first",
                                          "initialising a second configuration changed the state built from the first",
                                          {"case": obj, "previous_case": pobj})
                        ctx.extra.pop("_prev_state", None)
                    except Exception as e:  # noqa: BLE001
                        if type(e).__name__ == "Timeout":
                            raise
                        fail_once(ctx, "C18:state-leak:state-unreadable",
                                  f"snapshot of an initialised state raises {err_kind(e)}", {"case": obj})
                        ctx.extra.pop("_prev_state", None)
                rep = {"case": obj, "stage": stage, "error": ferr, "initial_paths": fam,
                       "orders": orders}
                if ferr is not None:
                    sim = cfg["simulation"]
                    why = ("ensemble_engines-shorter-than-ensembles"
                           if len(sim["ensemble_engines"]) < len(sim["interfaces"]) else
                           "ensemble-without-engine" if any(len(x) == 0 for x in sim["ensemble_engines"]) else
                           "boundary-initial-path" if stage == "load_paths" and fam in BOUNDARY else stage)
                    fail_once(ctx, f"C18:accepted-valid-but-init-fails:{why}",
                              f"accepted configuration raises {ferr} in {stage} (valid initial paths, family {fam})", rep)
                if rows is not None:
                    wbad = weights_spec_violations(cfg, orders, rows)
                    if wbad:
                        fail_once(ctx, "C18:initial-weights",
                                  f"weight row of the [{wbad[0][0]}+] initial path: {wbad[0][1]} (family {fam})",
                                  dict(rep, rows=rows, violations=[list(x) for x in wbad[:5]]))
                    elif wcases is not None:
                        for i, w in enumerate(rows):
                            wcases.append((obj, fam, i, cv_line(cfg, orders[i + 1]), w))
                if info.get("have"):
                    # the real state after the real initialisation: W matrix, per-path record, cap
                    sbad = state_weight_violations(cfg, orders, info["matrix"])
                    if not sbad and rows is not None and info["traj_data_rows"] != rows:
                        sbad = [(-1, f"traj_data weights {info['traj_data_rows']} ≠ path weights {rows}")]
                    if sbad:
                        fail_once(ctx, "C18:initial-weights:state-matrix",
                                  f"state after load_paths (family {fam}): {sbad[0][1]}",
                                  dict(rep, matrix=info["matrix"], violations=[list(x) for x in sbad[:5]]))
                    if not same_cap(info["cap"], configured_cap(cfg)):
                        fail_once(ctx, "C18:state-cap-not-the-configured-cap",
                                  f"state.cap (→ md_items['cap']) is {info['cap']!r}, the accepted configuration says "
                                  f"interface_cap = {configured_cap(cfg)!r}",
                                  dict(rep, state_cap=repr(info["cap"]), configured=repr(configured_cap(cfg))))
                    else:
                        ctx.hit("state-cap:" + ("absent" if configured_cap(cfg) is None else
                                                "zero" if configured_cap(cfg) == 0 else
                                                "on-interface" if configured_cap(cfg) in cfg["simulation"]["interfaces"]
                                                else "between"))
            if err is None and not bad and st is not None and (cfg.get("output", {}).get("pattern") or
                                                               obj["opts"].get("pattern")):
                # output.pattern: the whole real setup_internal (pattern_header included) on the fresh configuration
                fstage, fferr, _, fmbad, forders = restart_initialise(real, strip_restart(cfg))
                ctx.hit(f"init[setup_internal,pattern]:{fstage}{':' + fferr if fferr else ''}")
                if fferr is not None:
                    fail_once(ctx, f"C18:accepted-valid-but-init-fails:{fstage}",
                              f"accepted configuration with output.pattern raises {fferr} in the real {fstage}",
                              {"case": obj, "stage": fstage, "error": fferr, "orders": forders})
                elif fmbad:
                    fail_once(ctx, "C18:md_items-not-the-configuration",
                              "setup_internal on an accepted configuration hands on " + fmbad[0],
                              {"case": obj, "error": fmbad[0]})
            if err is None and do_restart and st is not None:
                r, before, again, ierr = restart_roundtrip(real, st)
                ctx.hit(f"restart-roundtrip:{r}")
                if r != "ok" or before != again:
                    diff = [] if before is None else [k for k in set(before) | set(again) if before.get(k) != again.get(k)]
                    fail_once(ctx, "C18:restart-not-a-fixed-point",
                              f"restart.toml read back → {r}; differing sections {sorted(diff)}",
                              {"case": obj, "result": r, "differing": sorted(diff)})
                elif ierr is not None and ierr.startswith("md_items:"):
                    fail_once(ctx, "C18:restart-route:md_items-not-the-configuration",
                              "setup_internal on the restart file written for an accepted configuration hands on "
                              + ierr, {"case": obj, "error": ierr, "route": "restart"})
                elif ierr is not None:
                    fail_once(ctx, "C18:restart-route:accepted-valid-but-init-fails:" + ierr.split(":")[0],
                              f"the restart file written for an accepted configuration is accepted but {ierr}",
                              {"case": obj, "error": ierr, "route": "restart"})
                else:
                    ctx.hit("restart-roundtrip:initialised-again")
            if err is None and st is not None and not bad:
                # kept alive (and photographed now, after write_toml updated its [current]) for the next case
                try:
                    ctx.extra["_prev_state"] = (st, state_snapshot(st), obj)
                except Exception:  # noqa: BLE001
                    ctx.extra.pop("_prev_state", None)
        return "accepted-invalid" if bad else "accepted"
    # rejected
    d = py_normalised(to_dict(c, real.tmp))
    bad = py_valid(d)
    if code_setup == "none":
        fail_once(ctx, "C18:fresh-start-returns-none", "setup_config returned None for an existing fresh input file",
                  {"case": obj})
        return "none"
    if bad and code_setup != "err:config":
        holes = [b for b in bad if b in ("cap-zero-skipped", "cap-below-wf-interface")]
        if holes and len(holes) == len(bad):
            # invalid only through a cap hole: the cap tests let it pass and a later statement raised something
            # else than TOMLConfigError — same root cause as the accepted ones
            sig = f"C18:{holes[0]}"
        else:
            sig = (f"C18:invalid-rejected-with-{code_setup.replace('err:', '')}-error:"
                   + ("empty-interfaces" if not c[0] else next((b for b in bad if b not in holes), bad[0])))
        fail_once(ctx, sig,
                  f"invalid configuration ({', '.join(bad)}) is rejected with {code_setup}, not TOMLConfigError",
                  {"case": obj, "violated": bad, "code": code_setup})
        return "invalid-wrong-kind"
    if not bad:
        ctx.hit(f"valid-but-rejected:{code_setup}")
        return "valid-rejected"
    return "invalid-rejected"


def restart_initialise(real, cfg):
    """the real setup_internal on a configuration the restart branch of setup_config returned (valid initial paths
    for its interfaces stored first, one per active path), then the first picks →
    (stage, error | None, canonical form of the state after load_paths | None, violations of md_items / W matrix)"""
    stage = "store-paths"
    shown, mbad = None, []
    try:
        orders = initial_orders(cfg, "on-own")
        paths = [mkpath(ops, k) for k, ops in enumerate(orders)]
        for p in paths[1:]:
            cbad = check_interfaces_violation(cfg, p)
            if cbad:
                return "generated-path", cbad, None, [], orders
        store_paths(paths)
        stage = "setup_internal"
        md_items, st = real.setup_internal(cfg)
        shown = show_loaded({"md": {"cap": md_items["cap"], "interfaces": list(md_items["interfaces"]),
                                    "mc_moves": list(md_items["mc_moves"])},
                             "matrix": [[float(x) for x in r] for r in st.state.tolist()]})
        if len(st.ensembles) != len(cfg["simulation"]["interfaces"]):
            return stage, "wrong-number-of-ensembles", shown, [], orders
        mbad = md_items_violations(cfg, md_items, st)
        stage = "first-picks"
        st._c18_locked0 = copy.deepcopy(list(cfg["current"].get("locked", [])))
        err = first_picks(st, cfg)
        real._last_state = st
        return (stage, err, shown, mbad, orders) if err else ("done", None, shown, mbad, orders)
    except Exception as e:  # noqa: BLE001
        if type(e).__name__ == "Timeout":
            raise
        return stage, err_kind(e), shown, mbad, locals().get("orders")


def check_interfaces_violation(cfg, p):
    """the generated plus path is a valid initial path by the library's own Path.check_interfaces for its ensemble
    interfaces (λ0, λ_i, λ_N): starts left, ends left or right, crosses its interface"""
    try:
        intf = cfg["simulation"]["interfaces"]
        if not all(isinstance(x, (int, float)) and not isinstance(x, bool) for x in intf):
            return None       # block T: interfaces of another type are judged by what the library does with them
        i = p.path_number - 1
        start, end, middle, _ = p.check_interfaces([intf[0], intf[i], intf[-1]])
        if start != "L" or end not in ("L", "R") or middle != "M":
            return f"check_interfaces says start={start} end={end} middle={middle} for the generated [{i}+] path"
    except Exception as e:  # noqa: BLE001
        if type(e).__name__ == "Timeout":
            raise
        return "check_interfaces raises " + err_kind(e)
    return None


def judge_restart(ctx, real, c, variant, two_files, code, cfg, d_in=None, size=None, do_init=False, rlcases=None):
    """property predicate on the real outcome of the restart route"""
    obj = case_obj(c)
    rep = {"case": obj, "route": "restart", "variant": variant, "two_files": two_files}
    if size is not None:
        rep["current_size"] = size
    if code == "not-the-restart-branch":
        fail_once(ctx, "C18:restart-route:restart-file-ignored",
                  "setup_config(input, restart) with equal settings did not take the restart branch", rep)
        return "restart:ignored"
    if code.startswith("malformed-config"):
        fail_once(ctx, "C18:restart-route:setup_config-returns-malformed-config",
                  f"setup_config(restart file) returned something that is not a normalised configuration ({code})", rep)
        return "restart:malformed"
    if cfg is not None:
        bad = safe_valid(cfg)
        if rule_violations(cfg):
            fail_once(ctx, QUANTIS_SIG, "setup_config accepted a restart file with quantis together with "
                      f"lambda_minus_one = {cfg['simulation']['tis_set'].get('lambda_minus_one')!r}",
                      dict(rep, expect="rejected with TOMLConfigError"))
        if d_in is not None:
            chg = settings_changed(d_in, cfg, restart=True)
            if chg:
                fail_once(ctx, "C18:restart-route:setup_config-changes-settings",
                          f"on the restart branch setup_config changed: {'; '.join(chg[:4])}", dict(rep, changed=chg[:8]))
        if bad:
            only_size = bad == [SIZE_CLAUSE]
            fail_once(ctx, SIZE_SIG if only_size else f"C18:restart-route:{bad[0]}",
                      f"setup_config accepted a restart file whose configuration violates: {', '.join(bad)}"
                      + (f" ([current].size = {cfg['current'].get('size')}, {len(cfg['simulation']['interfaces'])} "
                         "interfaces)" if only_size else ""),
                      dict(rep, violated=bad, expect="rejected with TOMLConfigError"))
            if only_size and do_init:
                # what the accepted configuration then does (recorded in the histogram; the failure is the acceptance)
                stage, ferr, _, _, _ = restart_initialise(real, copy.deepcopy(cfg))
                ctx.hit(f"restart-init:size-mismatch:{stage}{':' + ferr if ferr else ''}")
            return "restart:accepted-invalid"
        if do_init:
            # accepted ⇒ initialises, on the restart route too: the real setup_internal and the first picks
            stage, ferr, shown, mbad, orders = restart_initialise(real, copy.deepcopy(cfg))
            ctx.hit(f"restart-init:{variant}:{stage}{':' + ferr if ferr else ''}")
            if stage == "generated-path":
                fail_once(ctx, "C18:harness:generated-initial-path-not-valid", ferr, dict(rep, orders=orders))
            elif ferr is not None:
                fail_once(ctx, f"C18:restart-route:accepted-valid-but-init-fails:{stage}",
                          f"the restart configuration is accepted by setup_config but {stage} raises {ferr} "
                          "(valid initial paths stored for its interfaces)",
                          dict(rep, stage=stage, error=ferr, orders=orders))
            elif mbad:
                fail_once(ctx, "C18:restart-route:md_items-not-the-configuration",
                          "setup_internal on an accepted restart configuration hands on " + mbad[0],
                          dict(rep, error=mbad[0], orders=orders))
            if rlcases is not None and shown is not None and orders is not None:
                rlcases.append((dict(rep), load_line(c, orders, size), shown))
            if stage == "done" and not mbad and cfg["current"].get("locked"):
                # the [current] table had a job in flight: the first picks re-issued it; the state so restarted is
                # written and read back once more (a second restart)
                r, before, again, ierr = restart_roundtrip(real, real._last_state, generations=1)
                ctx.hit(f"restart-init:second-restart:{r}{':' + ierr if ierr else ''}")
                if r != "ok" or before != again:
                    fail_once(ctx, "C18:restart-not-a-fixed-point",
                              f"restart.toml written after a restart with a job in flight, read back → {r}", dict(rep, result=r))
                elif ierr is not None:
                    fail_once(ctx, "C18:restart-route:accepted-valid-but-init-fails:second-restart",
                              f"the restart file written after a restart with a job in flight is accepted but {ierr}",
                              dict(rep, error=ierr))
        return "restart:accepted"
    if code == "none":
        return "restart:none"
    rd_ref = to_dict(c, real.tmp)
    if size is not None:
        rd_ref["current"] = {"size": size}
    bad = py_valid(py_normalised(rd_ref))
    if bad and code != "err:config":
        fail_once(ctx, f"C18:restart-route:invalid-rejected-with-{code.replace('err:', '')}-error:"
                  + ("empty-interfaces" if not c[0] else bad[0]),
                  f"invalid restart configuration ({', '.join(bad)}) is rejected with {code}, not TOMLConfigError",
                  dict(rep, violated=bad, code=code))
        return "restart:invalid-wrong-kind"
    return "restart:invalid-rejected" if bad else "restart:valid-rejected"


def invalid_class(c, code_setup, real):
    """class of a case for the coverage rule of the restart route: violated clauses × outcome of the fresh route"""
    try:
        bad = tuple(py_valid(py_normalised(to_dict(c, real.tmp))))
    except Exception:  # noqa: BLE001
        bad = ("?",)
    return bad, code_setup.split(" ")[0]


def safe_driver(ctx, lines):
    """the Lean driver; a failure of the driver is a broken correspondence, not a crash of the harness"""
    try:
        return ctx.driver(lines)
    except Exception as e:  # noqa: BLE001
        if type(e).__name__ == "Timeout":
            raise
        ctx.disagree({"fn": "Lean driver", "requests": len(lines)}, "-", f"driver failed: {e}"[:300])
        return ["driver-failed"] * len(lines)


def run(ctx):
    real = Real()
    try:
        _run(ctx, real)
    finally:
        real.close()


def _run(ctx, real):
    ctx.rule = ("exhaustive products over small domains: (A) interface sequences over the grid {-2,0,2,4} of length "
                "0..L × cap ∈ {absent,-3..5} × move lists of length n-1..n+1 over {sh,wf}; (B) interfaces × λ₋₁ ∈ "
                "{absent,false,-3,-2,-1,0,1,2,5} × quantis ∈ {absent,false,true}; (C) interfaces × workers -1..n+1; "
                "(D) ensemble_engines (absent, [], every list of length n-1..n+1 over 5 per-ensemble choices) × engine "
                "table subsets × 7 class/input_path profiles × quantis; (E) seeded random mix of all fields. "
                "Every case also goes through the restart route ([current] table written by the library for the case's own "
                "number of interfaces, every third time for another number, validated tables edited into the case; accepted "
                "ones initialised through the real setup_internal; quick: ≥ 20 per class of (violated clauses, outcome) and every 6th case; thorough: "
                "all), with 5 restart variants and both entry forms. Distinct = distinct case tuples; non-trivial = every case except accepted ones without cap, λ₋₁, "
                "quantis and ensemble_engines.")
    cases = [c for _, c in WITNESSES] + gen_cases(ctx)
    seen = set()
    uniq = []
    for c in cases:
        if c not in seen:
            seen.add(c)
            uniq.append(c)
    cases = uniq
    ctx.exhaustive = False
    ctx.extra["exhaustive_part"] = ("blocks A–D are full products (A: interface length ≤ %d, B: ≤ %d, C: ≤ 4); block E is sampled"
                                    % ((3, 3) if ctx.quick else (4, 4)))
    have_model = ctx._driver_ok
    if have_model:
        out = safe_driver(ctx, [to_line("all", c) for c in cases])
    problem = real.make_base_restart()
    if problem is not None:
        why = "boundary-initial-path" if problem[0] == "load_paths" else problem[0]
        fail_once(ctx, f"C18:accepted-valid-but-init-fails:{why}",
                  f"the valid base configuration (from which the library should write restart.toml) raises "
                  f"{problem[1]} in {problem[0]}",
                  {"case": case_obj(real.base_case), "stage": problem[0], "error": problem[1], "initial_paths": "on-own"})
    n_init = 0
    n_restart = 0
    wcases = []
    class_seen = {}
    rcases = []     # (case index, variant, two_files, code outcome) of the restart route, model compared afterwards
    per_class = 20 if ctx.quick else 200
    variants = list(RESTART_VARIANTS)
    init_budget = 8000 if ctx.quick else 40000
    restart_budget = 150 if ctx.quick else 1500
    rinit_budget = 2500 if ctx.quick else 8000
    rlcases = []
    icases = []
    lcases = []
    ocases = []
    model_rows = {}
    if have_model:
        for k in range(len(cases)):
            try:
                model_rows[k] = out[k].split(" | ")
                assert len(model_rows[k]) == 3
            except Exception:  # noqa: BLE001
                model_rows[k] = None
    st_ = {"n_init": 0, "n_restart": 0}

    def one_case(k, c):
        stage = "build-input"
        d = to_dict(c, real.tmp)
        nomodel = bool(opts_of(c).get("nomodel"))
        stage = "check_config"
        code_check, pure = real.check(d)
        if not pure:
            fail_once(ctx, "C18:check_config-modifies-config",
                      "check_config changed the configuration dictionary it was asked to check",
                      {"case": case_obj(c), "outcome": code_check})
        stage = "setup_config"
        code_setup, cfg = real.setup(d)
        if cfg is None and k % 8 == 0:
            again, _ = real.setup(d)
            if again != code_setup:
                fail_once(ctx, "C18:rejection-not-repeatable",
                          f"the same input file gives {code_setup} and then {again}", {"case": case_obj(c)})
        stage = "model-comparison"
        if have_model and not nomodel and model_rows.get(k) is not None:
            m_check, m_setup, m_valid = model_rows[k]
            if code_check != m_check:
                ctx.disagree({"fn": "check_config(raw dict)", "case": case_obj(c)}, code_check, m_check)
            if code_setup != m_setup:
                ctx.disagree({"fn": "setup_config", "case": case_obj(c)}, code_setup, m_setup)
            if cfg is not None:
                pv = "0" if safe_valid(cfg) else "1"
                if pv != m_valid:
                    ctx.disagree({"fn": "Valid: py_valid(real normalised config) vs Lean validB", "case": case_obj(c)},
                                 pv, m_valid)
        elif have_model and not nomodel:
            ctx.disagree({"fn": "driver answer unreadable", "case": case_obj(c)}, code_setup, str(out[k])[:200])
        if nomodel:
            # engine names colliding with non-engine sections: outside the model's assumption and outside the
            # property's list as py_valid states it; what the code does is recorded, both routes
            rd = restart_dict(real, c, "go")
            rcode, _ = real.setup_restart(rd, False)
            names = sorted({e for x in c[6] for e in x if e in NON_ENGINE_SECTIONS})
            ctx.hit(f"collision:{'+'.join(names)}:fresh={code_setup.split(' ')[0]}:restart={rcode.split(' ')[0]}")
            ctx.count(1, branch="collision", outcome=code_setup.split(" ")[0])
            return stage
        stage = "judge"
        do_init = cfg is not None and st_["n_init"] < init_budget
        do_restart = do_init and st_["n_restart"] < restart_budget and (k % 7 == 0 or k < len(WITNESSES))
        if do_init:
            st_["n_init"] += 1
        fams = FAMILIES if (not ctx.quick or k < len(WITNESSES)) else (FAMILIES[1 + st_["n_init"] % (len(FAMILIES) - 1)],)
        if cfg is not None and (not ctx.quick or st_["n_init"] % 4 == 0 or k < len(WITNESSES)):
            fams = tuple(fams) + (JUMP,)
        branch = judge(ctx, real, c, code_setup, cfg, do_init, do_restart, fams, wcases, d,
                       None if nomodel else icases, None if nomodel else lcases, None if nomodel else ocases)
        if do_restart and cfg is not None:
            st_["n_restart"] += 1
        # ---- the same case through the restart route: every class at least `per_class` times, and a fixed
        # fraction of all cases (all of them in the thorough tier)
        stage = "restart-route"
        cls = invalid_class(c, code_setup, real)
        class_seen[cls] = class_seen.get(cls, 0) + 1
        if k < len(WITNESSES) or class_seen[cls] <= per_class or not ctx.quick or k % 6 == 0:
            variant = "go" if (k % 9) else variants[(k // 9) % len(variants)]
            two_files = (k % 13 == 5)
            # the [current] table: written by the library for the case's own number of interfaces, every third time
            # for another number (an interface added to / removed from a restart file), now and then the historical
            # base table (3 interfaces, a job in flight)
            n_c = len(c[0])
            rr = st_["n_rr"] = st_.get("n_rr", -1) + 1
            if rr % 3 == 1:
                size = mismatch_size(n_c, rr // 3)
            elif rr % 11 == 0 and n_c == 3:
                size = None
            else:
                size = n_c if n_c <= 5 else 3
            rd = restart_dict(real, c, variant, size)
            rsize = rd["current"]["size"]
            rcode, rcfg = real.setup_restart(rd, two_files)
            st_["n_rinit"] = st_.get("n_rinit", 0)
            do_rinit = rcfg is not None and st_["n_rinit"] < rinit_budget
            if do_rinit:
                st_["n_rinit"] += 1
            rbranch = judge_restart(ctx, real, c, variant, two_files, rcode, rcfg, rd, rsize, do_rinit,
                                    None if nomodel else rlcases)
            ctx.count(1, branch=rbranch, restart_variant=variant,
                      restart_current="own-size" if rsize == n_c else "other-size")
            if not nomodel:
                rcases.append((k, variant, two_files, rcode, rsize))
        ctx.count(1, branch=branch, outcome=code_setup.split(" ")[0])
        if not (cfg is not None and c[3] is None and c[4] == "A" and c[5] is None and c[6] is None):
            ctx.distinct(c)
        if k < 3 or k % 20011 == 0:
            ctx.sample({"case": case_obj(c), "setup_config": code_setup, "check_config_raw": code_check})
        return stage

    for k, c in enumerate(cases):
        try:
            one_case(k, c)
        except Exception as e:  # noqa: BLE001
            if type(e).__name__ == "Timeout":
                raise
            # last resort: whatever slipped through the stage guards is reported as a failing input, never as a
            # crash of the harness
            import traceback
            where = traceback.extract_tb(e.__traceback__)[-1]
            fail_once(ctx, f"C18:unexpected-exception:{type(e).__name__}",
                      f"evaluating this case raised {type(e).__name__}: {e} (at {where.name}:{where.lineno})",
                      {"case": case_obj(c)})
    n_init, n_restart = st_["n_init"], st_["n_restart"]
    try:
        run_type_confusion(ctx, real, lcases)
        run_two_files(ctx, real)
        run_library_restarts(ctx, real)
        run_size_block(ctx, real)
    except Exception as e:  # noqa: BLE001
        if type(e).__name__ == "Timeout":
            raise
        import traceback
        where = traceback.extract_tb(e.__traceback__)[-1]
        fail_once(ctx, f"C18:unexpected-exception:{type(e).__name__}",
                  f"the two-file block raised {type(e).__name__}: {e} (at {where.name}:{where.lineno})",
                  {"case": case_obj(cases[0]), "route": "two-files"})
    if have_model and rcases:
        rout = safe_driver(ctx, [restart_line(cases[k], variant, rsize) for (k, variant, _, _, rsize) in rcases])
        for (k, variant, two_files, rcode, rsize), m in zip(rcases, rout):
            if rcode != m:
                ctx.disagree({"fn": "setup_config(restart file)", "variant": variant, "two_files": two_files,
                              "current_size": rsize, "case": case_obj(cases[k])}, rcode, m)
    if have_model and rlcases:
        rlout = safe_driver(ctx, [line for (_, line, _) in rlcases])
        for (obj, line, shown), m in zip(rlcases, rlout):
            if shown != m:
                ctx.disagree({"fn": "restart route: setup_config ; setup_internal vs Infretis.Config.startUp",
                              "case": obj, "request": line}, shown, m)
    ctx.extra["restart_route_initialised_for_real"] = ctx.extra.get("restart_route_initialised_for_real", 0) + st_.get("n_rinit", 0)
    ctx.extra["restart_route_start_ups_compared"] = ctx.extra.get("restart_route_start_ups_compared", 0) + len(rlcases)
    if have_model and icases:
        iout = safe_driver(ctx, [line for (_, line, _) in icases])
        for (obj, line, shown), m in zip(icases, iout):
            if shown != m:
                ctx.disagree({"fn": "initiate_ensembles vs Infretis.Config.initEnsembles", "case": obj}, shown, m)
    ctx.extra["ensemble_tables_compared"] = ctx.extra.get("ensemble_tables_compared", 0) + len(icases)
    if have_model and lcases:
        lout = safe_driver(ctx, [line for (_, _, line, _) in lcases])
        for (obj, fam, line, shown), m in zip(lcases, lout):
            if shown != m:
                ctx.disagree({"fn": "setup_config ; setup_internal (state after load_paths, md_items) vs "
                                    "Infretis.Config.startUp", "case": obj, "initial_paths": fam, "request": line},
                             shown, m)
    if have_model and ocases:
        oout = safe_driver(ctx, [line for (_, line, _) in ocases])
        for (obj, line, shown), m in zip(ocases, oout):
            if shown != m:
                ctx.disagree({"fn": "create_engines (engine occupation) vs Infretis.Config.engineOcc", "case": obj}, shown, m)
    ctx.extra["engine_occupations_compared"] = ctx.extra.get("engine_occupations_compared", 0) + len(ocases)
    ctx.extra["start_ups_compared"] = ctx.extra.get("start_ups_compared", 0) + len(lcases)
    if have_model and wcases:
        wout = safe_driver(ctx, [line for (_, _, _, line, _) in wcases])
        for (obj, fam, i, line, w), m in zip(wcases, wout):
            code_row = lst([int(x) if float(x) == int(x) else x for x in w])
            if code_row != m:
                ctx.disagree({"fn": "calc_cv_vector in load_paths vs Infretis.WF.cvVector", "case": obj,
                              "initial_paths": fam, "ensemble": i, "request": line}, code_row, m)
    ctx.extra["initial_weight_rows_compared"] = ctx.extra.get("initial_weight_rows_compared", 0) + len(wcases)
    ctx.extra["restart_route_cases"] = ctx.extra.get("restart_route_cases", 0) + len(rcases)
    ctx.extra["restart_route_classes"] = len(class_seen)
    ctx.extra.pop("_sigs", None)
    ctx.extra.pop("_prev_state", None)
    ctx.extra["initialised_for_real"] = n_init
    ctx.extra["restart_roundtrips"] = n_restart
    for a in [
        "interfaces, cap and λ₋₁ are integer-valued floats (only compared, exact in Python and Int in the model)",
        "shooting moves are 'sh'/'wf'; engine tables carry class, optional input_path and one more setting; "
        "referenced engine names do not collide with the non-engine sections (runner, simulation, output, current)",
        "restart branch: the model (setupFile) knows cstep / restarted_from / steps / 'active paths on disk'; the rest "
        "of [current] is taken verbatim from a restart.toml written by the library; the real round trip is compared on "
        "the whole dict except current.restarted_from",
        "initialisation is run for real as setup_internal does (REPEX_state, initiate_ensembles, paths stored in the "
        "library's format and read by load_paths_from_disk, load_paths with the real calc_cv_vector) up to the first "
        "W picks (prep_md_items); after a restart through the real setup_internal with def_globals (MD engine "
        "creation) and setup_logger stubbed; initial paths are valid unit-step paths whose extreme value sits exactly "
        "ON an interface (own, higher, cap, last; [0-]: λ0, λ₋₁) or strictly inside; their weight rows are compared "
        "with the direct statement (shooting entries) and with Infretis.WF.cvVector (all entries)",
        "tomli/tomli_w are trusted to be lossless on what is written",
        "every table and key check_config / setup_config read unconditionally is present ([runner].workers, "
        "[simulation] interfaces / tis_set / steps, [output].data_dir): a file without one of them raises KeyError "
        "before (or instead of) any configuration test, whatever else is wrong with it; a missing shooting_moves key "
        "reads as the empty list and is judged (too few moves → TOMLConfigError)",
        "interfaces that are not numbers (strings, booleans, lists) must be rejected with TOMLConfigError (judged in "
        "block T, modelled by the flag Cfg.intfNumeric); the Lean model says nothing about their values",
        "restart files edited by hand to output.pattern = true WITHOUT output.pattern_file are not generated (the "
        "library's own restart files carry the key; on HEAD such a file is accepted and pattern_header / write_pattern "
        "raise KeyError — reported as an observation, outside the validated fields)",
        "a [current] table has a `size` key (the library always writes it); the model's Cfg.curSize = none means: no "
        "[current] table (raw input file)",
        "restart route: the [current] table is the one the library itself writes for the case's number of interfaces "
        "(2..5) or for another number (size mismatch); accepted restart configurations are initialised through the "
        "real setup_internal with valid initial paths stored for their interfaces, then asked for their first picks",
    ]:
        if a not in ctx.assumptions:
            ctx.assumptions.append(a)


def replay(ctx, obj):
    """re-run one recorded failing input on the current code"""
    r = obj.get("replay", {})
    if "case" not in r:
        print(obj)
        return 1
    c = case_from_obj(r["case"])
    real = Real()
    try:
        nfail = lambda: sum(v for k, v in ctx.hist.items() if k.startswith("fail:"))  # noqa: E731
        if r.get("route") == "type-confusion":
            # one value of another TOML type in a validated field (block T), judged exactly as in the run
            n0 = nfail()
            run_type_confusion(ctx, real, [], only=(c, r.get("modification")))
            for f in ctx.fails:
                print("FAIL", f["signature"], "-", f["what"])
            return 1 if nfail() > n0 else 0
        d = to_dict(c, real.tmp)
        code_setup, cfg = real.setup(d)
        print("setup_config:", code_setup)
        n0 = nfail()
        judge(ctx, real, c, code_setup, cfg, True, True, FAMILIES)
        # … and through the restart route (recorded variant / entry form, default: a restart that goes on)
        real.make_base_restart()
        variant = r.get("variant", "go")
        two_files = bool(r.get("two_files", False))
        # the [current] table: the recorded size (an interface added to / removed from a restart file), default:
        # the table the library writes for the case's own number of interfaces
        size = r.get("current_size", len(c[0]) if 2 <= len(c[0]) <= 5 else None)
        rd = restart_dict(real, c, variant, size)
        rcode, rcfg = real.setup_restart(rd, two_files)
        print("setup_config(restart file):", rcode)
        judge_restart(ctx, real, c, variant, two_files, rcode, rcfg, rd, rd["current"]["size"], True)
        for f in ctx.fails:
            print("FAIL", f["signature"], "-", f["what"])
        return 1 if nfail() > n0 else 0
    finally:
        real.close()
