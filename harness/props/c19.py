"""C19 — configuration, trajectory and input-template codecs are lossless.

The package has nine parts, each with its own model file, lemma file and tie module:
  tmpl   c19_tmpl.py    _modify_input / _read_input_settings / write_for_run     (Model/Template.lean)
  cp2k   c19_cp2k.py    CP2K section tree editor                                  (Model/TemplateCp2k.lean)
  wfrvel c19_wfrvel.py  cp2k.write_for_run_vel (the engine's own CP2K edit)       (Model/TemplateCp2k.lean)
  codec  c19_codec.py   fixed-point text codecs .g96 / extended xyz               (Model/Codec.lean)
  lmp    c19_lmp.py     lammpstrj codec and TRR layout                            (Model/CodecLmp.lean)
  hard   c19_hard.py    call history / purity / boundaries (same file name rewritten, reused dicts, ...)  (tie-only)
  box    c19_box.py     nine-component box order: box_matrix_to_list, TRR→g96, CP2K cell   (Model/CodecBox.lean)
  boxdata c19_boxdata.py  CP2K cell reader read_box_data / read_cp2k_box              (Model/CodecBoxData.lean)
  uni    c19_uni.py     the xyz / g96 readers and the CP2K editor on non-ASCII texts (all of str.isspace)  (Model/CodecUni.lean)
Each part generates its cases from ctx.rng, runs the REAL readers/writers/editors on temp files under
/var/tmp, compares with the compiled Lean driver (drv_c19) and evaluates the property predicates on
the implementation's own output.
"""
from __future__ import annotations

import contextlib
import importlib
import io
import json
import os
import random
import time

from common import CORPUS

CORPUS_IN_RUN = True     # run() replays corpus/C19/*.json itself (per part), see _corpus
PARTS = ["c19_tmpl", "c19_cp2k", "c19_wfrvel", "c19_codec", "c19_lmp", "c19_box", "c19_boxdata", "c19_hard", "c19_uni"]
MISSING: list = []


def _mods():
    mods = []
    only = os.environ.get("C19_PARTS")          # debugging aid: C19_PARTS=tmpl,cp2k restricts the parts
    for name in PARTS:
        if only and name.split("_")[1] not in only.split(","):
            continue
        try:
            mods.append(importlib.import_module(f"props.{name}"))
        except ModuleNotFoundError as e:   # a part that is not installed is reported, never silently skipped
            if e.name != f"props.{name}":
                raise
            MISSING.append(name)
    return mods


class PartTimeout(Exception):
    pass


PART_LIMIT_S = 900


def _bounded(ctx, m):
    """run one part under its own wall-clock bound (inside the framework's global alarm, which is restored):
    a hanging real-code loop is then reported by this check (exit 1, no-failing-input-found) instead of exit 2"""
    import signal
    t0 = time.time()
    remaining = signal.alarm(0)
    old = signal.getsignal(signal.SIGALRM)
    limit = PART_LIMIT_S if not remaining else max(1, min(PART_LIMIT_S, remaining - 5))

    def on_alarm(signum, frame):
        raise PartTimeout()

    signal.signal(signal.SIGALRM, on_alarm)
    signal.alarm(limit)
    try:
        return m.run_part(ctx)
    finally:
        signal.alarm(0)
        signal.signal(signal.SIGALRM, old)
        if remaining:
            signal.alarm(max(1, remaining - int(time.time() - t0)))


def _corpus(ctx, mods):
    """replay the recorded witnesses first (corpus/C19/*.json: objects with `signature`, `what`, `replay`)"""
    d = CORPUS / "C19"
    if not d.is_dir():
        return
    for f in sorted(d.glob("*.json")):
        obj = json.loads(f.read_text())
        rc = None
        for m in mods:
            with contextlib.redirect_stdout(io.StringIO()):
                rc = m.replay_part(ctx, obj)
            if rc is not None:
                break
        ctx.count(1, branch="corpus:" + ("still-fails" if rc == 1 else "passes" if rc == 0 else "unrecognised"))
        if rc == 1:
            ctx.fail(obj.get("signature", "C19:corpus:" + f.stem), "corpus witness fails: " + str(obj.get("what", "")),
                     obj.get("replay", {}))


def run(ctx):
    rules = []
    timings = {}
    mods = _mods()
    _corpus(ctx, mods)
    for m in mods:
        # every part draws from its own stream, so that a part's cases do not depend on the other parts
        if not os.environ.get("C19_SHARED_RNG"):      # (debugging aid: one shared stream as in early runs)
            ctx.rng = random.Random(f"C19:{m.__name__.split('.')[-1]}:{ctx.seed}")
        t0 = time.time()
        ev0 = ctx.evaluations
        try:
            r = _bounded(ctx, m)
        except PartTimeout:
            r = None
            ctx.disagree({"part": m.__name__.split(".")[-1], "hang": f"part did not finish within {PART_LIMIT_S} s"},
                         "part timed out (a real-code loop does not terminate on one of the generated inputs?)", "finishes")
        except Exception as e:  # noqa: BLE001
            # a harness exception on changed code must not end the check with exit 2 and hide what the other parts find:
            # it is recorded as a broken correspondence of this part and the remaining parts still run
            import traceback
            r = None
            ctx.disagree({"part": m.__name__.split(".")[-1], "exception": f"{type(e).__name__}: {e}",
                          "trace": traceback.format_exc()[-800:]}, "part raised", "no exception")
        if r:
            rules.append(str(r))
        timings[m.__name__.split(".")[-1]] = {"wall_s": round(time.time() - t0, 2), "evaluations": ctx.evaluations - ev0}
    if ctx._driver_ok:
        from props import c19_variant
        c19_variant.finish(ctx)
    ctx.rule = " || ".join(rules)
    ctx.exhaustive = False
    # re-entrant: the framework may call run() again with further seeds (escalation)
    ctx.extra.setdefault("parts_by_seed", {})[str(ctx.seed)] = timings
    ctx.extra["parts"] = timings
    ctx.assumptions[:] = list(dict.fromkeys(ctx.assumptions))
    if MISSING:
        ctx.extra["missing_parts"] = sorted(set(MISSING))
        ctx.assumptions.append(f"tie modules not installed: {sorted(set(MISSING))}")


def replay(ctx, obj):
    for m in _mods():
        rc = m.replay_part(ctx, obj)
        if rc is not None:
            return rc
    print("replay: no part recognises this replay object (kind=%s)" % obj.get("kind"))
    return 1
