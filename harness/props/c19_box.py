"""C19, part "box" — the order of the nine box components for every box shape.

  engineparts.box_matrix_to_list(matrix, full)            against Infretis.Box.boxMatrixToList (op boxlist)
  GromacsEngine._extract_frame: TRR frame (triclinic box) → read_trr_frame → box_matrix_to_list(full=True)
      → write_gromos96_file → read_gromos96_file: the BOX block must carry xx yy zz xy xz yx yz zx zy
  cp2k.read_box_data with cell vectors A/B/C (columns of the matrix) and ABC + ALPHA_BETA_GAMMA
      against Infretis.Box.cellABC (op boxabc)

Property predicate (independent of the model): box read back == box written, for every shape — the matrix rebuilt
from the returned numbers by the documented .g96 convention (first letter = row: xy = m[0,1], yx = m[1,0],
yz = m[1,2]) is the matrix that went in.  Failure → "C19:box:component-order".
The repo has no list→matrix inverse; the convention's inverse is `g96_to_matrix` here / `listToMatrix` in Lean.
"""
from __future__ import annotations

import itertools
import os
import shutil
import struct
import tempfile
import types

PART = "box"
SIG = "C19:box:component-order"
G96_IDX = [(0, 0), (1, 1), (2, 2), (0, 1), (0, 2), (1, 0), (1, 2), (2, 0), (2, 1)]   # xx yy zz xy xz yx yz zx zy


def _imports():
    import numpy as np
    from infretis.classes.engines import cp2k, engineparts, gromacs
    return np, engineparts, gromacs, cp2k


def g96_to_matrix(vals):
    """the documented convention, inverted: 9 numbers → 3×3 rows (3 numbers → diagonal)"""
    m = [[0.0] * 3 for _ in range(3)]
    if len(vals) == 3:
        for i in range(3):
            m[i][i] = float(vals[i])
        return m
    if len(vals) != 9:
        return None
    for (i, j), v in zip(G96_IDX, vals):
        m[i][j] = float(v)
    return m


def rows(mat):
    return [[float(mat[i][j]) for j in range(3)] for i in range(3)]


def gen_matrices(ctx):
    rng = ctx.rng
    mats = []
    base = list(range(1, 10))
    mats.append([base[0:3], base[3:6], base[6:9]])
    for _ in range(120 if ctx.quick else 2000):                       # nine distinct entries
        p = rng.sample(range(-40, 60), 9)
        p = [x if x != 0 else 77 for x in p]
        mats.append([p[0:3], p[3:6], p[6:9]])
    for _ in range(60 if ctx.quick else 600):                         # GROMACS-style lower-triangular cells
        a = rng.sample(range(1, 50), 6)
        mats.append([[a[0], 0, 0], [a[1], a[2], 0], [a[3], a[4], a[5]]])
        mats.append([[a[0], a[1], a[3]], [0, a[2], a[4]], [0, 0, a[5]]])   # and upper-triangular ones
    for d in itertools.product((0, 3, 7), repeat=3):                   # rectangular boxes incl. zero lengths
        mats.append([[d[0], 0, 0], [0, d[1], 0], [0, 0, d[2]]])
    for (i, j) in itertools.product(range(3), repeat=2):               # a single non-zero entry anywhere (the
        m = [[0] * 3 for _ in range(3)]                                 # count_nonzero quirk of the short form)
        m[i][j] = 5
        mats.append(m)
    for _ in range(40 if ctx.quick else 400):                          # sparse matrices around the threshold of 3
        m = [[0] * 3 for _ in range(3)]
        for (i, j) in rng.sample(list(itertools.product(range(3), repeat=2)), rng.randint(2, 5)):
            m[i][j] = rng.randint(1, 30)
        mats.append(m)
    return mats


def pack_trr(frames, endian, dbl):
    """independent TRR writer: frames = [(box 9 floats row-major, x list of 3n floats, v or None)]"""
    r = "d" if dbl else "f"
    w = 8 if dbl else 4
    out = b""
    ver = b"GMX_trn_file"
    for step, fr in enumerate(frames):
        box, x, v = fr[0], fr[1], fr[2]
        f = fr[3] if len(fr) > 3 else None
        n = len(x) // 3
        out += struct.pack(endian + "i", 1993) + struct.pack(endian + "2i", len(ver) + 1, len(ver)) + ver
        out += struct.pack(endian + "13i", 0, 0, 9 * w, 0, 0, 0, 0, len(x) * w, (len(v) * w if v else 0), (len(f) * w if f else 0), n, step, 0)
        out += struct.pack(endian + "2" + r, float(step), 0.0)
        out += struct.pack(endian + "9" + r, *box)
        out += struct.pack(endian + str(len(x)) + r, *x)
        if v:
            out += struct.pack(endian + str(len(v)) + r, *v)
        if f:
            out += struct.pack(endian + str(len(f)) + r, *f)
    return out


def check_matrix(np, engineparts, m, full):
    """property on the real helper: the matrix rebuilt from the returned numbers is the matrix given
    (the short 3-number form only claims the diagonal; it is accepted exactly when the matrix is diagonal)"""
    got = engineparts.box_matrix_to_list(np.array(m, dtype=float), full=full)
    vals = [float(v) for v in got]
    back = g96_to_matrix(vals)
    return vals, back


def run_part(ctx):
    np, engineparts, gromacs, cp2k = _imports()
    rng = ctx.rng
    tmp = tempfile.mkdtemp(prefix="c19box-", dir="/var/tmp")
    fails = {}

    def note(kind, what, replay, size):
        cur = fails.get(kind)
        if cur is None or size < cur[0]:
            fails[kind] = (size, what, replay, (cur[3] if cur else 0) + 1)
        else:
            fails[kind] = (cur[0], cur[1], cur[2], cur[3] + 1)

    try:
        lines, checks = [], []
        # ---------------------------------------------------------------- (1) the helper itself
        for m in gen_matrices(ctx):
            for full in (True, False):
                vals, back = check_matrix(np, engineparts, m, full)
                nz = sum(1 for r in m for v in r if v != 0)
                diag_only = all(m[i][j] == 0 for i in range(3) for j in range(3) if i != j)
                ctx.count(1, branch=f"box:helper:{'full' if full else 'short-allowed'}:{len(vals)}")
                if len(set(v for r in m for v in r)) == 9:
                    ctx.distinct(("boxm", tuple(map(tuple, m)), full))
                lines.append(f"boxlist {1 if full else 0} " + " ".join(str(v) for r in m for v in r))
                checks.append((" ".join([str(len(vals))] + [str(int(v)) for v in vals]),
                               {"part": PART, "kind": "helper", "matrix": m, "full": full}))
                # predicate: with 9 numbers the matrix must come back; 3 numbers are legitimate for a rectangular
                # box only (for ≤ 3 non-zero entries off the diagonal the code's count_nonzero rule drops them:
                # not a physical cell, recorded as a boundary, not evaluated)
                if len(vals) == 9 or diag_only:
                    if back != rows(m):
                        note("helper", f"box_matrix_to_list({m}, full={full}) = {vals}: rebuilt by the g96 convention "
                             f"this is {back}, not the matrix given", {"part": PART, "kind": "helper", "matrix": m, "full": full},
                             sum(abs(v) for r in m for v in r))
                elif nz <= 3 and not full:
                    ctx.hit("box:note:short-form-for-non-diagonal-sparse-matrix(boundary)")
        # ---------------------------------------------------------------- (2) TRR → g96 through _extract_frame
        ntrr = 24 if ctx.quick else 300
        for c in range(ntrr):
            n = rng.randint(1, 3)
            nfr = rng.randint(1, 3)
            frames = []
            for _ in range(nfr):
                shape = c % 3
                p = rng.sample(range(1, 200), 9)
                if shape == 1:      # GROMACS triclinic: lower-triangular
                    p = [p[0], 0, 0, p[3], p[4], 0, p[6], p[7], p[8]]
                elif shape == 2 and rng.random() < 0.5:
                    p = [p[0], 0, 0, 0, p[4], 0, 0, 0, p[8]]
                box = [v * 0.125 for v in p]
                x = [rng.randint(-400, 400) * 0.125 for _ in range(3 * n)]
                v = [rng.randint(-400, 400) * 0.125 for _ in range(3 * n)] if rng.random() < 0.7 else None
                frames.append((box, x, v))
            endian = "<" if c % 2 else ">"
            dbl = bool((c // 2) % 2)
            trr = os.path.join(tmp, f"t{c}.trr")
            with open(trr, "wb") as f:
                f.write(pack_trr(frames, endian, dbl))
            raw = {"TITLE": ["c19 box"], "POSITION": [f"{i + 1:5d} SOL   OW  {i + 1:7d}".ljust(24)[:24] for i in range(n)],
                   "VELOCITY": [f"{i + 1:5d} SOL   OW  {i + 1:7d}".ljust(24)[:24] for i in range(n)], "BOX": ["raw"]}
            for k, (box, x, v) in enumerate(frames):
                out = os.path.join(tmp, f"t{c}_{k}.g96")
                replay = {"part": PART, "kind": "trr-g96", "endian": endian, "double": dbl, "frames": frames, "index": k}
                ctx.count(1, branch="box:trr-to-g96")
                ctx.distinct(("boxtrr", tuple(box), endian, dbl))
                try:
                    gromacs.GromacsEngine._extract_frame(types.SimpleNamespace(top=raw), trr, k, out)
                    _, xyz, vel, gbox = gromacs.read_gromos96_file(out)
                    got = [float(b) for b in gbox]
                except Exception as e:  # noqa: BLE001
                    note("trr-g96", f"TRR→g96 extraction raised {type(e).__name__}: {e}", replay, 1e9)
                    continue
                want_m = [box[0:3], box[3:6], box[6:9]]
                if g96_to_matrix(got) != rows(want_m):
                    note("trr-g96", f"frame {k}: TRR box matrix {want_m} extracted to a g96 BOX line {got}, which is the "
                         f"matrix {g96_to_matrix(got)}", replay, sum(box) + 1000 * nfr)
                if [float(a) for r in xyz for a in r] != x:
                    note("trr-g96-xyz", f"frame {k}: positions differ after extraction", replay, sum(box))
                lines.append("boxlist 1 " + " ".join(str(int(round(b * 8))) for b in box))
                checks.append((" ".join(["9"] + [str(int(round(g * 8))) for g in got]), replay))
        # ---------------------------------------------------------------- (3) CP2K cell parsing
        for c in range(40 if ctx.quick else 600):
            if c % 4 == 0:
                A, B, C = [rng.randint(5, 40), 0, 0], [0, rng.randint(5, 40), 0], [0, 0, rng.randint(5, 40)]
            elif c % 4 == 1:   # CP2K-style triclinic: A along x, B in the xy plane
                A, B, C = [rng.randint(5, 40), 0, 0], [rng.randint(1, 9), rng.randint(5, 40), 0], \
                          [rng.randint(1, 9), rng.randint(1, 9), rng.randint(5, 40)]
            else:
                p = rng.sample(range(1, 90), 9)
                A, B, C = p[0:3], p[3:6], p[6:9]
            data = [f"A {A[0]}.0 {A[1]}.0 {A[2]}.0", f"B  {B[0]}.0 {B[1]}.0 {B[2]}.0", f"C {C[0]}.0 {C[1]}.0 {C[2]}.0",
                    "PERIODIC XYZ"]
            rng.shuffle(data)
            replay = {"part": PART, "kind": "cp2k-abc", "A": A, "B": B, "C": C}
            ctx.count(1, branch="box:cp2k-abc")
            ctx.distinct(("boxabc", tuple(A), tuple(B), tuple(C)))
            try:
                box, periodic = cp2k.read_box_data(data)
                got = [float(b) for b in box]
            except Exception as e:  # noqa: BLE001
                note("cp2k-abc", f"read_box_data raised {type(e).__name__}: {e}", replay, 1e9)
                continue
            # the cell vectors are the columns: m[i][j] = component i of vector j
            want_m = [[float(V[i]) for V in (A, B, C)] for i in range(3)]
            if g96_to_matrix(got) != want_m:
                note("cp2k-abc", f"cell vectors A={A} B={B} C={C} read as {got}, i.e. the matrix {g96_to_matrix(got)} "
                     f"instead of {want_m}", replay, sum(A + B + C))
            lines.append("boxabc " + " ".join(str(v) for v in A + B + C))
            checks.append((" ".join([str(len(got))] + [str(int(g)) for g in got]), replay))
        for c in range(12 if ctx.quick else 100):   # lengths + angles: the order of what box_vector_angles returned
            ang = [rng.choice((60.0, 75.0, 90.0, 100.0, 110.0)) for _ in range(3)]
            L = [float(rng.randint(8, 30)) for _ in range(3)]
            data = [f"ABC {L[0]} {L[1]} {L[2]}", f"ALPHA_BETA_GAMMA {ang[0]} {ang[1]} {ang[2]}"]
            replay = {"part": PART, "kind": "cp2k-angles", "ABC": L, "angles": ang}
            ctx.count(1, branch="box:cp2k-angles")
            try:
                box, _ = cp2k.read_box_data(data)
                got = [float(b) for b in box]
                mat = engineparts.box_vector_angles(np.array(L), *ang)
            except ValueError:
                ctx.hit("box:cp2k-angles:impossible-angle-combination(skipped)")   # sqrt of a negative number
                continue
            except Exception as e:  # noqa: BLE001
                note("cp2k-angles", f"read_box_data raised {type(e).__name__}: {e}", replay, 1e9)
                continue
            if g96_to_matrix(got) != rows(mat):
                note("cp2k-angles", f"lengths {L} angles {ang}: box {got} is not the matrix {rows(mat)} in g96 order", replay, sum(L))
        # ---------------------------------------------------------------- model comparison
        if ctx._driver_ok and lines:
            out = ctx.driver(lines)
            for (canon, replay), ans in zip(checks, out):
                if ans != canon:
                    ctx.disagree({"fn": "box_matrix_to_list", **{k: v for k, v in replay.items() if k != "frames"}}, canon, ans)
        for kind in sorted(fails):
            size, what, replay, nfail = fails[kind]
            ctx.fail(SIG, f"{what} [{nfail} failing inputs of kind {kind} this run; smallest shown]", replay)
    finally:
        shutil.rmtree(tmp, ignore_errors=True)
    ctx.assumptions += [
        "box entries are integers or multiples of 1/8 (exact as float32/float64 and in '{:15.9f}')",
        "the short 3-number form of box_matrix_to_list is evaluated for rectangular boxes only; for ≤ 3 non-zero entries "
        "off the diagonal the code's count_nonzero rule returns the (zero) diagonal — mirrored in the model, recorded as a boundary",
    ]
    return ("box: 3×3 matrices with nine distinct entries, lower/upper-triangular cells, rectangular boxes, sparse matrices "
            "around the count_nonzero threshold, full=True/False; TRR files (both byte orders and precisions, 1–3 frames, "
            "triclinic / lower-triangular / rectangular boxes) through the real _extract_frame → g96 → read_gromos96_file; "
            "CP2K cells from A/B/C vectors and from lengths+angles; distinct by (matrix, variant)")


def replay_part(ctx, obj):
    r = obj.get("replay", {})
    if r.get("part") != PART:
        return None
    np, engineparts, gromacs, cp2k = _imports()
    kind = r.get("kind")
    bad = False
    if kind == "helper":
        vals, back = check_matrix(np, engineparts, r["matrix"], r["full"])
        bad = back != rows(r["matrix"])
        print("replay:", vals, back)
    elif kind == "trr-g96":
        tmp = tempfile.mkdtemp(prefix="c19box-", dir="/var/tmp")
        try:
            frames = [(list(b), list(x), (list(v) if v else None)) for (b, x, v) in r["frames"]]
            n = len(frames[0][1]) // 3
            trr = os.path.join(tmp, "t.trr")
            with open(trr, "wb") as f:
                f.write(pack_trr(frames, r["endian"], r["double"]))
            raw = {"TITLE": ["c19 box"], "POSITION": ["x" * 24] * n, "VELOCITY": ["x" * 24] * n, "BOX": ["raw"]}
            out = os.path.join(tmp, "o.g96")
            k = r["index"]
            try:
                gromacs.GromacsEngine._extract_frame(types.SimpleNamespace(top=raw), trr, k, out)
                got = [float(b) for b in gromacs.read_gromos96_file(out)[3]]
                box = frames[k][0]
                bad = g96_to_matrix(got) != rows([box[0:3], box[3:6], box[6:9]])
                print("replay:", got)
            except Exception as e:  # noqa: BLE001
                print("replay raised", e)
                bad = True
        finally:
            shutil.rmtree(tmp, ignore_errors=True)
    elif kind == "cp2k-abc":
        A, B, C = r["A"], r["B"], r["C"]
        box, _ = cp2k.read_box_data([f"A {A[0]}.0 {A[1]}.0 {A[2]}.0", f"B {B[0]}.0 {B[1]}.0 {B[2]}.0", f"C {C[0]}.0 {C[1]}.0 {C[2]}.0"])
        got = [float(b) for b in box]
        bad = g96_to_matrix(got) != [[float(V[i]) for V in (A, B, C)] for i in range(3)]
        print("replay:", got)
    elif kind == "cp2k-angles":
        box, _ = cp2k.read_box_data([f"ABC {r['ABC'][0]} {r['ABC'][1]} {r['ABC'][2]}",
                                     f"ALPHA_BETA_GAMMA {r['angles'][0]} {r['angles'][1]} {r['angles'][2]}"])
        mat = engineparts.box_vector_angles(np.array(r["ABC"]), *r["angles"])
        bad = g96_to_matrix([float(b) for b in box]) != rows(mat)
    else:
        return 1
    return 1 if bad else 0
