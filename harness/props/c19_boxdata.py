"""C19, part "boxdata" — the CP2K cell reader.

  cp2k.read_box_data(lines)      against Infretis.BoxData.readBoxData  (driver op boxdata)
  cp2k.read_cp2k_box(inputfile)  against Infretis.BoxData.readCp2kBox  (driver op cp2kbox): read_cp2k_input →
                                 set_parents → node_ref["FORCE_EVAL->SUBSYS->CELL"].data → read_box_data, with the
                                 100 Å cube fallback when the file has no CELL section

Numbers: the model carries the integer tokens `[+-]digits[.0*]` (exact as floats); on every other numeric token it
answers `outside` (then nothing is compared, counted as such) unless the token contains a character that no float
literal contains (then both worlds must raise ValueError).  Angles other than 90 90 90 go through cos/sqrt: `outside`.

Property predicates (independent of the model), Lean `readBoxData_cell` / `cell_lossless`:
  * the cell written as three lines `A …`, `B …`, `C …` (any order, any preceding lines) is read back as the matrix
    whose COLUMNS are the vectors, in the .g96 order xx yy zz xy xz yx yz zx zy; a later line of a key wins;
  * `ABC l0 l1 l2` is read back as the three lengths;
  * periodic = [axis in PERIODIC.upper()], default all True.
"""
from __future__ import annotations

import os
import shutil
import tempfile
import warnings

from common import err_kind, hexs

PART = "boxdata"
SIG = "C19:boxdata:"
G96_IDX = [(0, 0), (1, 1), (2, 2), (0, 1), (0, 2), (1, 0), (1, 2), (2, 0), (2, 1)]


def _imports():
    import importlib.util  # noqa: F401
    import numpy as np
    from infretis.classes.engines import cp2k
    return np, cp2k


def fmt_int(rng, i):
    """the ways the integer i is written in a CELL section that float() reads as exactly i"""
    k = rng.random()
    if k < 0.5:
        return str(i)
    if k < 0.7:
        return f"{i}.0"
    if k < 0.8:
        return f"{i}." if rng.random() < 0.5 else f"{i}.000"
    if k < 0.9 and i >= 0:
        return f"+{i}"
    return str(i)


ODD_TOKENS = ["[angstrom]", "abc", "1,5", "x1", "1.5", "1e3", "inf", "nan", "1_0", ".5", "-", "1.0.0", "0x10", "١٢", "1e", "--1"]
PERIODICS = ["XYZ", "NONE", "xy", "X Y", "z", "", "XZ", "none", "Y", "xyz  "]


def vec_line(rng, key, vals, sep=" "):
    return key + sep + " ".join(fmt_int(rng, v) for v in vals)


def gen_lines(rng):
    """a CELL section: mostly well formed, with every rule of the reader exercised"""
    kind = rng.random()
    lines = []
    if kind < 0.45:       # three cell vectors (+ decoys)
        vs = {k: [rng.randint(-30, 30) for _ in range(3)] for k in "ABC"}
        for k in "ABC":
            if rng.random() < 0.15:
                lines.append(vec_line(rng, k, [rng.randint(-9, 9) for _ in range(3)]))     # overridden below
            lines.append(vec_line(rng, k, vs[k]))
        if rng.random() < 0.3:
            lines.append(vec_line(rng, "ABC", [rng.randint(1, 20) for _ in range(3)]))
    elif kind < 0.6:      # lengths only
        lines.append(vec_line(rng, "ABC", [rng.randint(-5, 40) for _ in range(rng.choice((3, 3, 3, 0, 1, 2, 4)))]))
    elif kind < 0.75:     # lengths + angles
        ang = rng.choice(([90, 90, 90], [90, 90, 90], [90, 90, 60], [60, 90, 90], [90, 90], [90], [90, 90, 90, 5], []))
        lines.append(vec_line(rng, "ABC", [rng.randint(-5, 40) for _ in range(rng.choice((3, 3, 3, 2, 4, 0)))]))
        lines.append(vec_line(rng, "ALPHA_BETA_GAMMA", ang))
    elif kind < 0.9:      # vectors of odd lengths (numpy broadcasting / ValueError)
        for k in rng.sample("ABC", rng.choice((1, 2, 3, 3))):
            lines.append(vec_line(rng, k, [rng.randint(-9, 9) for _ in range(rng.choice((0, 1, 1, 2, 3, 4)))]))
    else:                 # nothing the reader knows
        pass
    if rng.random() < 0.5:
        lines.append("PERIODIC " + rng.choice(PERIODICS))
    for _ in range(rng.choice((0, 0, 1, 2))):
        lines.append(rng.choice(["a 1 2 3", "A\t7 7 7", "abc 1 2 3", "ABC", "A", "PERIODIC", "periodic XY", "SYMMETRY CUBIC",
                                 "ABCD 1 2 3", " A 1 2 3", "MULTIPLE_UNIT_CELL 1 1 1", "B\x0b1 2 3", "&CELL_REF", "C  "]))
    if rng.random() < 0.12:
        i = rng.randrange(len(lines)) if lines else 0
        if lines and lines[i].split() and lines[i].split()[0] in ("A", "B", "C", "ABC", "ALPHA_BETA_GAMMA") and len(lines[i].split()) > 1:
            sp = lines[i].split(" ")
            sp[rng.randrange(1, len(sp))] = rng.choice(ODD_TOKENS)
            lines[i] = " ".join(sp)
    rng.shuffle(lines)
    return lines


def canon_real(np, box, periodic, file_level=False):
    p = " P " + "".join("1" if x else "0" for x in periodic)
    if box is None:
        return "none" + p
    arr = np.asarray(box)
    if file_level and arr.ndim == 2:
        ok = arr.shape == (3, 3) and np.array_equal(arr, np.diag([100.0, 100.0, 100.0])) and list(periodic) == [True] * 3
        return "fallback" if ok else "fallback?" + repr(arr.tolist()) + p
    vals = [float(x) for x in arr.ravel()]
    toks = [str(int(v)) if v == v and abs(v) != float("inf") and float(v).is_integer() else repr(v) for v in vals]
    return " ".join([str(len(toks))] + toks) + p


def run_real(np, cp2k, lines):
    try:
        with np.errstate(all="ignore"), warnings.catch_warnings():
            warnings.simplefilter("ignore")
            box, periodic = cp2k.read_box_data(list(lines))
    except Exception as e:  # noqa: BLE001
        return err_kind(e)
    return canon_real(np, box, periodic)


def run_real_file(np, cp2k, path, text):
    with open(path, "w", encoding="utf-8", newline="") as f:
        f.write(text)
    try:
        nodes = cp2k.read_cp2k_input(path)
    except Exception as e:  # noqa: BLE001
        rd = "read-" + err_kind(e)
    else:
        rd = None
    try:
        with np.errstate(all="ignore"), warnings.catch_warnings():
            warnings.simplefilter("ignore")
            box, periodic = cp2k.read_cp2k_box(path)
    except Exception as e:  # noqa: BLE001
        return ("read-" + err_kind(e)) if rd else err_kind(e)
    return canon_real(np, box, periodic, file_level=True)


def g96_to_matrix(vals):
    m = [[0.0] * 3 for _ in range(3)]
    if len(vals) == 3:
        for i in range(3):
            m[i][i] = float(vals[i])
        return m
    if len(vals) != 9:
        return None
    for (i, j), v in zip(G96_IDX, vals):
        m[i][j] = float(v)
    return m


def predicate_cell(np, cp2k, rng, A, B, C, pre, per):
    """the property on the real reader: returns (signature, message) or None"""
    lines = list(pre) + [vec_line(rng, "A", A), vec_line(rng, "B", B), vec_line(rng, "C", C)]
    order = rng.sample(range(3), 3)
    lines[len(pre):] = [lines[len(pre) + i] for i in order]
    if per is not None:
        lines.insert(rng.randrange(len(lines) + 1), "PERIODIC " + per)
    try:
        box, periodic = cp2k.read_box_data(lines)
    except Exception as e:  # noqa: BLE001
        return (SIG + "cell-raises", f"read_box_data raised {err_kind(e)} on {lines!r}"), lines
    want = [[float(V[i]) for V in (A, B, C)] for i in range(3)]
    nz = sum(1 for r in want for x in r if x != 0)
    diag = all(want[i][j] == 0 for i in range(3) for j in range(3) if i != j)
    got = g96_to_matrix([float(x) for x in box])
    if (nz > 3 or diag) and got != want:
        return (SIG + "cell-vectors", f"cell A={A} B={B} C={C} (lines {lines!r}) read as {list(box)!r} = matrix {got}, wanted columns {want}"), lines
    setting = (per if per is not None else "XYZ").upper()
    if list(periodic) != [ax in setting for ax in "XYZ"]:
        return (SIG + "periodic", f"PERIODIC {per!r} read as {periodic}"), lines
    return None, lines


def cell_text(rng, cell_lines, variant):
    ind = rng.choice(("", "  "))
    body = "\n".join(ind * 3 + l for l in cell_lines)
    cell = f"{ind*2}&CELL\n{body}\n{ind*2}&END CELL\n" if variant != "nocell" else ""
    if variant == "nested":
        cell = f"{ind*2}&CELL\n{body}\n{ind*3}&CELL_REF\n{ind*4}ABC 1 1 1\n{ind*3}&END CELL_REF\n{ind*2}&END CELL\n"
    if variant == "lower":
        cell = cell.replace("&CELL", "&cell").replace("&END CELL", "&end cell")
    sub = f"{ind}&SUBSYS\n{cell}{ind*2}&COORD\n{ind*3}H 0 0 0\n{ind*2}&END COORD\n{ind}&END SUBSYS\n"
    fe = f"&FORCE_EVAL\n{ind}METHOD QS\n{sub}&END FORCE_EVAL\n"
    if variant == "elsewhere":
        fe = f"&MOTION\n&CELL\n{body}\n&END CELL\n&END MOTION\n&FORCE_EVAL\n&SUBSYS\n&END SUBSYS\n&END FORCE_EVAL\n"
    pre = rng.choice(("", "&GLOBAL\n PROJECT x\n&END GLOBAL\n", "! comment\n\n"))
    return pre + fe


def run_part(ctx):
    np, cp2k = _imports()
    rng = ctx.rng
    tmp = tempfile.mkdtemp(prefix="c19boxdata-", dir="/var/tmp")
    fails = {}
    lines_out, checks = [], []

    def note(r, replay):
        cur = fails.get(r[0])
        if cur is None:
            fails[r[0]] = (r[1], replay, 1)
        else:
            fails[r[0]] = (cur[0], cur[1], cur[2] + 1)

    try:
        # ------------------------------------------------ read_box_data on line lists
        cases = [[], ["A 1 0 0", "B 0 1 0", "C 0 0 1"], ["ABC 10 10 10"], ["PERIODIC NONE"], ["A 5", "B 6", "C 7"],
                 ["ABC 1 2 3", "ALPHA_BETA_GAMMA 90 90 90"], ["ABC 1 0 3", "ALPHA_BETA_GAMMA 90 90 90"],
                 ["ABC -1 -2 -3", "ALPHA_BETA_GAMMA 90. 90.0 +90"], ["A 1 2 3", "A 4 5 6", "B 0 1 0", "C 0 0 1"],
                 ["ABC [angstrom] 10 10 10"], ["A 1 2 3 4", "B 1 2 3", "C 1 2 3"], ["A ", "B 1", "C 1"]]
        for _ in range(700 if ctx.quick else 20000):
            cases.append(gen_lines(rng))
        for ls in cases:
            code = run_real(np, cp2k, ls)
            ctx.count(1, branch="boxdata:" + ("raises" if code.startswith("err:") else "read"))
            if any(l.split() and l.split()[0] in ("A", "B", "C", "ABC", "ALPHA_BETA_GAMMA", "PERIODIC") for l in ls):
                ctx.distinct(("boxdata", tuple(ls)))
            lines_out.append(" ".join(["boxdata", str(len(ls))] + [hexs(l) for l in ls]))
            checks.append((code, {"part": PART, "fn": "read_box_data", "lines": ls}))
        # ------------------------------------------------ the property on written cells
        for _ in range(300 if ctx.quick else 6000):
            shape = rng.random()
            if shape < 0.5:
                A, B, C = ([rng.randint(-40, 40) or 3 for _ in range(3)] for _ in range(3))
            elif shape < 0.7:
                A, B, C = [rng.randint(1, 40), 0, 0], [0, rng.randint(1, 40), 0], [0, 0, rng.randint(1, 40)]
            elif shape < 0.85:   # lower / upper triangular (GROMACS, LAMMPS conventions)
                a = [rng.randint(1, 40) for _ in range(6)]
                A, B, C = [a[0], 0, 0], [a[1], a[2], 0], [a[3], a[4], a[5]]
                if rng.random() < 0.5:
                    A, B, C = [a[0], a[1], a[3]], [0, a[2], a[4]], [0, 0, a[5]]
            else:                # zero lengths / degenerate diagonal
                A, B, C = [rng.choice((0, 5)), 0, 0], [0, rng.choice((0, 5)), 0], [0, 0, rng.choice((0, 5))]
            pre = [l for l in gen_lines(rng) if not any(t in ODD_TOKENS for t in l.split())] if rng.random() < 0.4 else []
            # preceding lines must themselves be readable (no vector of a length numpy cannot take is final: A, B, C are
            # overridden; ABC / angles are not consulted when A, B and C are present)
            per = rng.choice(PERIODICS + [None, None])
            pre = [l for l in pre if not l.startswith("PERIODIC ")]
            r, lines = predicate_cell(np, cp2k, rng, A, B, C, pre, per)
            ctx.count(1, branch="boxdata:cell-predicate")
            if r is not None:
                note(r, {"part": PART, "kind": "cell", "lines": lines, "A": A, "B": B, "C": C, "periodic": per})
        for _ in range(60 if ctx.quick else 600):
            L = [rng.randint(0, 50) for _ in range(3)]
            ls = [vec_line(rng, "ABC", L)] + (["PERIODIC XYZ"] if rng.random() < 0.5 else [])
            rng.shuffle(ls)
            ctx.count(1, branch="boxdata:abc-predicate")
            try:
                box, _p = cp2k.read_box_data(ls)
                if [float(x) for x in box] != [float(x) for x in L]:
                    note((SIG + "abc-lengths", f"ABC {L} (lines {ls!r}) read as {list(box)!r}"), {"part": PART, "kind": "abc", "lines": ls, "L": L})
            except Exception as e:  # noqa: BLE001
                note((SIG + "abc-raises", f"read_box_data raised {err_kind(e)} on {ls!r}"), {"part": PART, "kind": "abc", "lines": ls, "L": L})
        # ------------------------------------------------ read_cp2k_box on files
        path = os.path.join(tmp, "t.inp")
        texts = []
        try:
            from props import c19_cp2k as CP
            texts += [t for _n, t in CP.repo_inputs()]
        except Exception:  # noqa: BLE001
            pass
        for _ in range(150 if ctx.quick else 3000):
            variant = rng.choice(("plain", "plain", "plain", "nocell", "nested", "lower", "elsewhere"))
            texts.append(cell_text(rng, gen_lines(rng), variant))
        texts += ["", "&FORCE_EVAL\n&SUBSYS\n&CELL\nABC 5 5 5\n&END\n&END\n&END\n", "&END\n", "&\n"]
        for t in texts:
            code = run_real_file(np, cp2k, path, t)
            ctx.count(1, branch="boxdata:file-" + ("fallback" if code == "fallback" else "raises" if "err:" in code else "cell"))
            lines_out.append("cp2kbox " + hexs(t))
            checks.append((code, {"part": PART, "fn": "read_cp2k_box", "template": t}))
        # ------------------------------------------------ model comparison
        if ctx._driver_ok and lines_out:
            out = ctx.driver(lines_out)
            n_out = 0
            for (code, case), ans in zip(checks, out):
                if ans == "outside":
                    n_out += 1     # a numeric token outside `[+-]digits[.0*]` or angles other than 90 90 90: not compared
                    continue
                if ans != code:
                    ctx.disagree(case, code, ans)
            ctx.hit("boxdata:model-comparisons", len(lines_out) - n_out)
            ctx.hit("boxdata:outside-the-model(not compared)", n_out)
        for sig in sorted(fails):
            what, replay, n = fails[sig]
            ctx.fail(sig, f"{what} [{n} failing inputs this run; first shown]", replay)
    finally:
        shutil.rmtree(tmp, ignore_errors=True)
    ctx.assumptions += [
        "boxdata part: numbers are integer tokens [+-]digits[.0*] with |x| ≤ 50 (exact as floats, squares exact); any other "
        "numeric token and angles other than 90 90 90 are outside the model (the model answers `outside`, nothing is "
        "compared; counted in the histogram); templates are ASCII and have at most one CELL section",
    ]
    return ("boxdata: 12 fixed + seeded random CELL sections (three cell vectors with overridden duplicates and decoys; "
            "ABC of 0–4 numbers; ABC + ALPHA_BETA_GAMMA incl. short lists and non-right angles; vectors of 0–4 numbers; "
            "PERIODIC in 10 spellings; lower-case / tab-separated / bare keys; 16 odd numeric tokens), the same inside CP2K "
            "files (CELL present / absent / nested subsection / lower case / under another parent) and every ASCII *.inp of "
            "the repo; the cell predicate on random, triangular, diagonal and degenerate cells in shuffled line order; "
            "distinct by line list")


def replay_part(ctx, obj):
    r = obj.get("replay", obj)
    if r.get("part") != PART:
        return None
    np, cp2k = _imports()
    if r.get("kind") == "cell":
        try:
            box, periodic = cp2k.read_box_data(r["lines"])
        except Exception as e:  # noqa: BLE001
            print("replay: raised", err_kind(e))
            return 1
        A, B, C = r["A"], r["B"], r["C"]
        want = [[float(V[i]) for V in (A, B, C)] for i in range(3)]
        nz = sum(1 for row in want for x in row if x != 0)
        diag = all(want[i][j] == 0 for i in range(3) for j in range(3) if i != j)
        got = g96_to_matrix([float(x) for x in box])
        per = r.get("periodic")
        setting = (per if per is not None else "XYZ").upper()
        bad = ((nz > 3 or diag) and got != want) or list(periodic) != [ax in setting for ax in "XYZ"]
        print("replay:", list(box), periodic)
        return 1 if bad else 0
    if r.get("kind") == "abc":
        try:
            box, _p = cp2k.read_box_data(r["lines"])
        except Exception:  # noqa: BLE001
            return 1
        return 0 if [float(x) for x in box] == [float(x) for x in r["L"]] else 1
    return 1
