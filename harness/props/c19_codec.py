"""C19, part "codec": the decimal fixed-point text codecs (.g96 and extended xyz).

Tie between the Lean model `Infretis.Codec` (lean/Infretis/Model/Codec.lean, ops g96*/xyz* of the
C19 driver) and the real

  gromacs.py      write_gromos96_file / read_gromos96_file / GromacsEngine._reverse_velocities
  engineparts.py  write_xyz_trajectory / read_xyz_file / convert_snapshot
  cp2k.py         CP2KEngine._extract_frame / _read_configuration / _reverse_velocities

on generated configurations: bytes written by the real writers vs the model's text, values read by the
real readers vs the model's values, and — independent of the model — the property predicates
(write→read gives back the numbers and labels that were written; reversing negates the velocities and
nothing else, twice = identity on the bytes up to the sign of zeros; extracting frame k gives the bytes of
frame k) on the real functions.  The sign of zero (`-1 * 0.0 = -0.0`, printed `-0.000000000`) is part of the
byte-level model-vs-code comparison only, so that a numerically harmless rewrite cannot produce a failing input.

Numbers are decimals (sign, mantissa) at 9 (box in xyz headers: 4) fractional digits with |x| < 10^4;
`float("<that decimal>")` formatted with `%.9f` reproduces the decimal exactly (13 significant digits),
and reading it back gives the same float, so every comparison below is exact by construction.
"""
from __future__ import annotations

import math
import os
import shutil
import tempfile
import types

from common import err_kind, hexs

PART = "codec"


# ---------------------------------------------------------------------------------------------
# numbers: (neg, mag) at precision P  <->  float, model token
def d2f(d, prec=9):
    neg, mag = d
    return float(f"{'-' if neg else ''}{mag // 10 ** prec}.{mag % 10 ** prec:0{prec}d}")


def f2d(x, prec=9):
    x = float(x)
    return (1 if math.copysign(1.0, x) < 0 else 0, int(round(abs(x) * 10 ** prec)))


def dtok(d):
    return ("n" if d[0] else "p") + str(d[1])


def lst(xs, f=str):
    return " ".join([str(len(xs))] + [f(x) for x in xs])


def flat(rows):
    return [c for r in rows for c in r]


def gen_dec(rng, prec=9, maxint=10 ** 4, neg_ok=True):
    u = rng.random()
    neg = 1 if (neg_ok and rng.random() < 0.45) else 0
    if u < 0.15:
        return (neg, 0)
    if u < 0.25:
        return (neg, rng.randint(1, 999))                      # tiny
    if u < 0.32:
        return (neg, (maxint - 1) * 10 ** prec + rng.randint(0, 10 ** prec - 1))   # widest that fits
    ip = rng.choice((0, 1, rng.randint(0, 9), rng.randint(0, 99), rng.randint(0, maxint - 1)))
    return (neg, ip * 10 ** prec + rng.randint(0, 10 ** prec - 1))


def gen_rows(rng, n):
    return [[gen_dec(rng) for _ in range(3)] for _ in range(n)]


def arr(rows, prec=9):
    import numpy as np
    if not rows:
        return np.zeros((0, 3))
    return np.array([[d2f(c, prec) for c in r] for r in rows], dtype=float)


def neg_rows(rows):
    return [[(1 - c[0], c[1]) for c in r] for r in rows]


def as_lists(rows):
    return [[[int(c[0]), int(c[1])] for c in r] for r in rows]


def _eng():
    import importlib.util  # noqa: F401
    from infretis.classes.engines import cp2k, engineparts, gromacs
    return gromacs, engineparts, cp2k


PRINTABLE = "".join(chr(c) for c in range(33, 127))


def rand_text(rng, n, blanks=True):
    alpha = PRINTABLE + ("   " if blanks else "")
    return "".join(rng.choice(alpha) for _ in range(n))


# ---------------------------------------------------------------------------------------------
# g96
G96_KEYS = ("TITLE", "POSITION", "VELOCITY", "BOX", "POSITIONRED", "VELOCITYRED", "END")


def gen_g96(rng, big=False):
    n = rng.choice((0, 1, 1, 2, 2, 3, 3, 4, 5)) if not big else rng.randint(20, 60)
    title = []
    for _ in range(rng.choice((0, 1, 1, 2))):
        t = rand_text(rng, rng.randint(0, 30)).strip()
        if t in G96_KEYS:
            t += "x"
        title.append(t)
    style = rng.random()
    txts = []
    for i in range(n):
        if style < 0.7:
            txts.append("%5d %-5s %-5s%7d" % (rng.randint(1, 99999), rng.choice(("SOL", "MOL", "LIG", "NA+")),
                                              rng.choice(("OW", "HW1", "C12", "N")), i + 1))
        elif style < 0.85:
            txts.append(rand_text(rng, 24))
        else:
            txts.append(" " * 24)
    nb = rng.choice((3, 3, 9))
    # box fields are read back by a whitespace split: every field but the first needs a leading blank,
    # i.e. at most 14 characters (negative values: |x| < 10^3) — the guard of theorem g96_read_write_roundtrip
    box = [gen_dec(rng, neg_ok=(k >= 3)) for k in range(nb)]
    box = [(b[0], b[1] % (10 ** 12)) if b[0] else b for b in box]
    return {"title": title, "txts": txts, "xyz": as_lists(gen_rows(rng, n)), "vel": as_lists(gen_rows(rng, n)),
            "box": [[int(b[0]), int(b[1])] for b in box], "mode": "full"}


def g96_canon_read(res):
    raw, xyz, vel, box = res
    import numpy as np
    xs = [f2d(v) for v in np.asarray(xyz).flatten()]
    vs = [f2d(v) for v in np.asarray(vel).flatten()]
    return ("ok T " + lst(raw["TITLE"], hexs) + " P " + lst(raw["POSITION"], hexs) + " V " + lst(raw["VELOCITY"], hexs)
            + " B " + lst(raw["BOX"], hexs) + " X " + lst(xs, dtok) + " W " + lst(vs, dtok)
            + " BOX " + ("none" if box is None else lst([f2d(v) for v in box], dtok)))


def g96_read_code(gromacs, path):
    try:
        return g96_canon_read(gromacs.read_gromos96_file(path))
    except Exception as e:  # noqa: BLE001
        return err_kind(e)


def nz(d):
    """value of a sign-magnitude decimal: +0 and −0 are the same number"""
    return (0, 0) if int(d[1]) == 0 else (int(d[0]), int(d[1]))


def rows_eq(a, rows):
    """numpy array `a` equals the decimals `rows` as numbers (exact; ±0 identified — the sign of zero is
    compared at byte level against the model, not by the property predicates)"""
    import numpy as np
    a = np.asarray(a)
    want = flat(rows)
    got = [nz(f2d(v)) for v in a.flatten()]
    return got == [nz(c) for c in want] and (a.shape == (len(rows), 3) or not rows)


def unsign_zero(b: bytes) -> bytes:
    return b.replace(b"-0.000000000", b" 0.000000000")


def g96_eval(case, d, tag="c"):
    """run the real code on one g96 case; returns (outputs for the model comparison, property failures)"""
    gromacs, _, _ = _eng()
    fails = []
    out = {}
    xyz, vel, box = arr(case["xyz"]), arr(case["vel"]), [d2f(b) for b in case["box"]]
    raw = {"TITLE": list(case["title"]), "POSITION": list(case["txts"]), "VELOCITY": list(case["txts"]),
           "BOX": ["placeholder"]}
    f1, f2, f3 = (os.path.join(d, f"{tag}{i}.g96") for i in (1, 2, 3))
    mode = case.get("mode", "full")
    try:
        if mode == "novel":
            gromacs.write_gromos96_file(f1, raw, xyz, None, box)
        elif mode == "rawbox":
            raw["BOX"] = [case["rawbox"]]
            gromacs.write_gromos96_file(f1, raw, xyz, vel, None)
        elif mode == "short":
            gromacs.write_gromos96_file(f1, raw, xyz[: case["keep"]], vel, box)
        else:
            gromacs.write_gromos96_file(f1, raw, xyz, vel, box)
        b1 = open(f1, "rb").read()
        out["write"] = "ok " + hexs(b1)
    except Exception as e:  # noqa: BLE001
        out["write"] = err_kind(e)
        return out, fails
    out["bytes"] = b1
    out["read"] = g96_read_code(gromacs, f1)
    if mode in ("full", "novel"):
        try:
            raw2, xyz2, vel2, box2 = gromacs.read_gromos96_file(f1)
            zero = [[(0, 0)] * 3 for _ in case["xyz"]]
            ok = (rows_eq(xyz2, case["xyz"]) and rows_eq(vel2, case["vel"] if mode == "full" else zero)
                  and box2 is not None and [nz(f2d(v)) for v in box2] == [nz(b) for b in case["box"]]
                  and raw2["TITLE"] == case["title"] and raw2["POSITION"] == case["txts"]
                  and raw2["VELOCITY"] == (case["txts"] if mode == "full" else []))
            what = "read_gromos96_file(write_gromos96_file(c)) differs from c"
        except Exception as e:  # noqa: BLE001
            ok, what = False, f"reading the written g96 file raised {type(e).__name__}: {e}"
        if not ok:
            fails.append(("C19:g96:roundtrip", what))
    if mode == "full":
        try:
            eng = types.SimpleNamespace(ext="g96")
            gromacs.GromacsEngine._reverse_velocities(eng, f1, f2)
            b2 = open(f2, "rb").read()
            out["rev"] = "ok " + hexs(b2)
            raw3, xyz3, vel3, box3 = gromacs.read_gromos96_file(f2)
            ok = (rows_eq(xyz3, case["xyz"]) and rows_eq(vel3, neg_rows(case["vel"]))
                  and box3 is not None and [nz(f2d(v)) for v in box3] == [nz(b) for b in case["box"]]
                  and raw3["TITLE"] == case["title"] and raw3["POSITION"] == case["txts"]
                  and raw3["VELOCITY"] == case["txts"])
            if not ok:
                fails.append(("C19:g96:reverse", "reversed g96 file is not (same positions/box/labels, negated velocities)"))
            gromacs.GromacsEngine._reverse_velocities(eng, f2, f3)
            if unsign_zero(open(f3, "rb").read()) != unsign_zero(b1):
                fails.append(("C19:g96:reverse-twice", "reversing the velocities twice does not restore the g96 file"))
        except Exception as e:  # noqa: BLE001
            out.setdefault("rev", err_kind(e))
            fails.append(("C19:g96:reverse", f"_reverse_velocities raised {type(e).__name__}: {e}"))
    return out, fails


def g96_write_line(case):
    mode = case.get("mode", "full")
    hv = "0" if mode == "novel" else "1"
    hb = "0" if mode == "rawbox" else "1"
    xyz = case["xyz"][: case["keep"]] if mode == "short" else case["xyz"]
    blines = [case["rawbox"]] if mode == "rawbox" else ["placeholder"]
    return (f"g96write {hv} {hb} {lst(case['title'], hexs)} {lst(case['txts'], hexs)} {lst(case['txts'], hexs)} "
            f"{lst(blines, hexs)} {lst(flat(xyz), dtok)} {lst(flat(case['vel']), dtok)} {lst(case['box'], dtok)}")


def fmt9(d):
    return "%15.9f" % d2f(d)


def g96_malformed(rng):
    """texts outside the writer's image (or unusual but legal): only model-vs-code agreement is compared"""
    out = []
    row = lambda txt, ds: txt + "".join(fmt9(x) for x in ds)  # noqa: E731
    t24 = "    1 SOL   OW         1"
    good = [gen_dec(rng) for _ in range(3)]
    box3 = "".join(fmt9(gen_dec(rng, neg_ok=False)) for _ in range(3))
    wide_neg = (1, 12345 * 10 ** 9 + rng.randint(0, 10 ** 9 - 1))     # 16 characters
    wide_pos = (0, 123456 * 10 ** 9 + rng.randint(0, 10 ** 9 - 1))    # 16 characters
    full = lambda prow, vrow, b: f"TITLE\nt\nEND\nPOSITION\n{prow}\nEND\nVELOCITY\n{vrow}\nEND\nBOX\n{b}\nEND\n"  # noqa: E731
    out.append(full(row(t24, [wide_neg, good[1], good[2]]), row(t24, good), box3))
    out.append(full(row(t24, [good[0], wide_pos, good[2]]), row(t24, good), box3))
    out.append(full(row(t24, [good[0], good[1], wide_neg]), row(t24, good), box3))
    out.append(full(row(t24, good), row(t24, [good[0], wide_neg, good[2]]), box3))
    # box fields that touch each other (15 characters each, no blank in between)
    touching = (1, 1234 * 10 ** 9 + 5)
    out.append(full(row(t24, good), row(t24, good), fmt9((0, 7 * 10 ** 9)) + fmt9(touching) + fmt9(good[2])))
    out.append(full(row(t24, good), row(t24, good), fmt9(touching) + fmt9((0, 5)) + fmt9((0, 6))))   # first may be wide
    out.append(full(row(t24[:-1], good), row(t24, good), box3))                    # label of 23 characters
    out.append(full(row(t24 + " ", good), row(t24, good), box3))                   # label of 25 characters
    out.append(row(t24, good) + "\nTITLE\nEND\n")                                    # data before any section
    out.append("")                                                                   # empty file
    out.append(f"TITLE\nEND\nPOSITION\n{row(t24, good)}\n{row(t24, good)}\nEND\nBOX\n{box3}\nEND\n")   # no velocities
    out.append(f"POSITION\n{row(t24, good)}\nEND\nVELOCITY\nEND\n")                 # no box
    out.append(full(row(t24, good), row(t24, good), box3 + "\n" + box3))           # two BOX lines
    out.append(f"TITLE\nBOX\nEND\nPOSITION\n{row(t24, good)}\nEND\n")               # keyword inside the title
    out.append(f"  TITLE \nx  \n END\nPOSITION\n{row(t24, good)}   \nEND\nBOX\n{box3}  \nEND")   # blanks, no final newline
    out.append(full(row(t24, good), row(t24, good), box3).replace("\n", "\r\n"))   # universal newlines
    red = "".join(fmt9(x) for x in good)
    out.append(f"TITLE\nEND\nPOSITION\n{row(t24, good)}\nEND\nPOSITIONRED\n{red}\nEND\nVELOCITYRED\n{red}\nEND\nBOX\n{box3}\nEND\n")
    out.append(full(row(t24, good)[:50], row(t24, good), box3))                    # line cut inside a field
    out.append(full(row(t24, good), row(t24, good), "1.0 abc 2.0"))
    out.append(full(row(t24, good) + "   extra", row(t24, good), box3))
    return out


# ---------------------------------------------------------------------------------------------
# xyz
ELEMENTS = ("H", "He", "Li", "C", "N", "O", "Na", "Cl", "Ar", "Fe", "Au", "U")


def gen_name(rng):
    u = rng.random()
    if u < 0.6:
        return rng.choice(ELEMENTS)
    return "".join(rng.choice(PRINTABLE) for _ in range(rng.randint(1, 7)))


def gen_xyz(rng, big=False, allow_zero=True, plain=False):
    n = (rng.choice((0, 1, 1, 2, 2, 3, 3, 4, 5)) if allow_zero else rng.randint(1, 5)) if not big else rng.randint(20, 60)
    names = [gen_name(rng) for _ in range(n)]
    rng.shuffle(names)
    if not plain and rng.random() < 0.15:
        names = None
    u = rng.random()
    box = None if u < 0.2 else [gen_dec(rng, prec=4, neg_ok=(k >= 3)) for k in range(3 if u < 0.65 else 9)]
    if not plain and rng.random() < 0.03:
        box = []
    step = None if (plain or rng.random() < 0.75) else rng.choice((0, 7, rng.randint(0, 10 ** 6), -3))
    return {"names": names, "pos": as_lists(gen_rows(rng, n)), "vel": as_lists(gen_rows(rng, n)),
            "box": None if box is None else [[int(b[0]), int(b[1])] for b in box], "step": step}


def xyz_write_code(engineparts, path, case, append=False, plain=False):
    import numpy as np
    box = None if case["box"] is None else np.array([d2f(b, 4) for b in case["box"]])
    engineparts.write_xyz_trajectory(path, arr(case["pos"]), arr(case["vel"]), case["names"], box,
                                     step=None if plain else case["step"], append=append)


def xyz_write_line(case):
    names, box, step = case["names"], case["box"], case["step"]
    return (f"xyzwrite {0 if names is None else 1} {lst(names or [], hexs)} {0 if box is None else 1} "
            f"{lst(box or [], dtok)} {'none' if step is None else step} {lst(flat(case['pos']), dtok)} "
            f"{lst(flat(case['vel']), dtok)}")


def optbox(box, prec=4):
    return "none" if box is None else lst([f2d(v, prec) for v in box], dtok)


def snap_canon(s):
    cols = " ".join(lst([f2d(v) for v in s.get(k, [])], dtok) for k in ("x", "y", "z", "vx", "vy", "vz"))
    return f"H {hexs(s['header'])} BOX {optbox(s.get('box'))} N {lst(s.get('atomname', []), hexs)} {cols}"


def xyz_read_code(engineparts, path):
    frames, err = [], "none"
    try:
        for s in engineparts.read_xyz_file(path):
            frames.append(s)
    except Exception as e:  # noqa: BLE001
        err = err_kind(e)
    return frames, "F " + " ".join([str(len(frames))] + [snap_canon(s) for s in frames]) + " E " + err


def conf_canon(res_box, xyz, vel, names):
    import numpy as np
    return ("ok BOX " + optbox(res_box) + " N " + lst(list(names), hexs) + " X "
            + lst([f2d(v) for v in np.asarray(xyz).flatten()], dtok) + " W "
            + lst([f2d(v) for v in np.asarray(vel).flatten()], dtok))


def xyz_conv_code(engineparts, frames, k):
    if k >= len(frames):
        return "noframe"
    try:
        box, xyz, vel, names = engineparts.convert_snapshot(frames[k])
        return conf_canon(box, xyz, vel, names)
    except Exception as e:  # noqa: BLE001
        return err_kind(e)


def xyz_conf_code(cp2k, path):
    try:
        xyz, vel, box, names = cp2k.CP2KEngine._read_configuration(path)
        return conf_canon(box, xyz, vel, names)
    except Exception as e:  # noqa: BLE001
        return err_kind(e)


def cp2k_ns(cp2k):
    return types.SimpleNamespace(_read_configuration=cp2k.CP2KEngine._read_configuration)


def conf_equals(res, case, vel_rows):
    """(xyz, vel, box, names) as returned by _read_configuration equals the case (vel = vel_rows)"""
    xyz, vel, box, names = res
    n = len(case["pos"])
    want_names = case["names"] if case["names"] is not None else ["X"] * n
    box_ok = (box is None) if case["box"] is None else (
        box is not None and [nz(f2d(v, 4)) for v in box] == [nz(b) for b in case["box"]])
    return rows_eq(xyz, case["pos"]) and rows_eq(vel, vel_rows) and box_ok and list(names) == list(want_names)


def xyz_eval(case, d, tag="x"):
    _, engineparts, cp2k = _eng()
    fails, out = [], {}
    f1, f2, f3, f4 = (os.path.join(d, f"{tag}{i}.xyz") for i in (1, 2, 3, 4))
    try:
        xyz_write_code(engineparts, f1, case)
        b1 = open(f1, "rb").read()
        out["write"] = "ok " + hexs(b1)
    except Exception as e:  # noqa: BLE001
        out["write"] = err_kind(e)
        return out, fails
    out["bytes"] = b1
    frames, out["read"] = xyz_read_code(engineparts, f1)
    out["conv"] = xyz_conv_code(engineparts, frames, 0)
    out["conf"] = xyz_conf_code(cp2k, f1)
    n = len(case["pos"])
    if n >= 1:
        try:
            ok = len(frames) == 1 and conf_equals(cp2k.CP2KEngine._read_configuration(f1), case, case["vel"])
            box, xyz, vel, names = engineparts.convert_snapshot(frames[0])
            ok = ok and conf_equals((xyz, vel, box, names), case, case["vel"])
            what = "convert_snapshot(read_xyz_file(write_xyz_trajectory(c))) differs from c"
        except Exception as e:  # noqa: BLE001
            ok, what = False, f"reading the written xyz file raised {type(e).__name__}: {e}"
        if not ok:
            fails.append(("C19:xyz:roundtrip", what))
        try:
            ns = cp2k_ns(cp2k)
            cp2k.CP2KEngine._reverse_velocities(ns, f1, f2)
            b2 = open(f2, "rb").read()
            out["rev"] = "ok " + hexs(b2)
            if not conf_equals(cp2k.CP2KEngine._read_configuration(f2), case, neg_rows(case["vel"])):
                fails.append(("C19:xyz:reverse", "reversed xyz file is not (same positions/box/names, negated velocities)"))
            cp2k.CP2KEngine._reverse_velocities(ns, f2, f3)
            xyz_write_code(engineparts, f4, dict(case, names=case["names"] if case["names"] is not None else ["X"] * n),
                           plain=True)
            if unsign_zero(open(f3, "rb").read()) != unsign_zero(open(f4, "rb").read()):
                fails.append(("C19:xyz:reverse-twice", "reversing the velocities twice does not restore the xyz file"))
        except Exception as e:  # noqa: BLE001
            out.setdefault("rev", err_kind(e))
            fails.append(("C19:xyz:reverse", f"_reverse_velocities raised {type(e).__name__}: {e}"))
    return out, fails


def traj_eval(case, d, tag="t"):
    """case = {"frames": [xyz cases with ≥ 1 atom], ...}: extract every k in 0..m+1"""
    _, engineparts, cp2k = _eng()
    fails, out = [], {}
    traj = os.path.join(d, f"{tag}.xyz")
    if os.path.exists(traj):
        os.remove(traj)
    open(traj, "w").close()
    for fr in case["frames"]:
        xyz_write_code(engineparts, traj, fr, append=True)
    out["bytes"] = open(traj, "rb").read()
    out["extract"] = []
    ns = cp2k_ns(cp2k)
    m = len(case["frames"])
    for k in range(m + 2):
        o = os.path.join(d, f"{tag}_out{k}.xyz")
        if os.path.exists(o):
            os.remove(o)
        try:
            cp2k.CP2KEngine._extract_frame(ns, traj, k, o)
            got = open(o, "rb").read() if os.path.exists(o) else None
            out["extract"].append("ok none" if got is None else "ok " + hexs(got))
        except Exception as e:  # noqa: BLE001
            got = e
            out["extract"].append(err_kind(e))
        if k < m:
            fr = case["frames"][k]
            ref = os.path.join(d, f"{tag}_ref{k}.xyz")
            xyz_write_code(engineparts, ref, dict(fr, names=fr["names"] if fr["names"] is not None else ["X"] * len(fr["pos"])),
                           plain=True)
            if got != open(ref, "rb").read():
                fails.append(("C19:xyz:extract-frame", f"_extract_frame(idx={k}) of a {m}-frame trajectory is not frame {k}"))
        elif got is not None:
            fails.append(("C19:xyz:extract-frame", f"_extract_frame(idx={k}) of a {m}-frame trajectory wrote/raised something"))
    return out, fails


def xyz_malformed(rng):
    out = []
    num = lambda d: " %15.9f" % d2f(d)  # noqa: E731
    a = [gen_dec(rng) for _ in range(6)]
    b = [gen_dec(rng) for _ in range(6)]
    la = "O    " + "".join(num(x) for x in a)
    lb = "Hx   " + "".join(num(x) for x in b)
    hdr = "# Box:    1.0000    2.0000    3.5000 "
    out.append(f"2\n{hdr}\n{la}\n{lb}")                                   # no final newline
    out.append(f"2\n{hdr}\n{la}\n")                                        # one atom line missing
    out.append(f"2\n{hdr}\n{la}\nHx   {num(b[0])}{num(b[1])}\n")          # last line cut after a token
    out.append(f"two\n{hdr}\n{la}\n{lb}\n")                                # bad count
    out.append(f"1\n{hdr}\n{la}\nx\n{hdr}\n{la}\n")                        # good frame, then a bad count line
    out.append(f"2\n{hdr}\nO\nHx\n")                                       # names only
    out.append(f"3\n{hdr}\nO   {num(a[0])}{num(a[1])}{num(a[2])}\nH\nH\n")   # columns of length 1: broadcast
    out.append(f"3\n{hdr}\nO   {num(a[0])}{num(a[1])}{num(a[2])}\nH   {num(b[0])}{num(b[1])}{num(b[2])}\nH\n")   # length 2 of 3
    out.append(f"2\n{hdr}\nO   {num(a[0])}{num(a[1])}{num(a[2])}\nH   {num(b[0])}{num(b[1])}{num(b[2])}\n")       # no velocities
    out.append(f"2\n{hdr}\nO   {num(a[0])}{num(a[1])}\nH   {num(b[0])}{num(b[1])}\n")                             # no z
    out.append(f"2\n{hdr}\n{la}{num(b[0])}\n{lb} tail\n")                  # 8th token
    out.append(f"5\n{hdr}\n{la}\n{lb}\n")                                  # count too large
    out.append("")                                                          # empty file
    out.append("2\n")                                                       # count only
    out.append(f"2\n{hdr}\n{la}\n\n1\n{hdr}\n{lb}\n")                      # blank line as an atom line
    out.append(f"0\n{hdr}\n0\n# \n")                                       # two frames without atoms
    out.append(f" 2 \n#\n{la}\n{lb}\n")                                    # no box, blanks around the count
    out.append(f"1\n# box: 1.0000 box: 2.0000\n{la}\n")                    # second 'box:' ends the list
    out.append(f"1\n# Step: 3 BOX:    1.0000   -0.0000\n{la}\n")
    out.append(f"1\n# Box: 1.0000 wide\n{la}\n")                           # bad box token
    out.append(f"1\n{hdr}\nO    abc\n")                                    # bad number
    out.append(f"2\r\n{hdr}\r\n{la}\r\n{lb}\r\n")                          # universal newlines
    out.append(f"1\n{hdr}\n{la}\n1\n{hdr}\nO    abc\n")                    # error in the second frame
    return out


# ---------------------------------------------------------------------------------------------
def domain_ok(code, model):
    """model's readers accept a subset of Python's float()/int() spellings: where the model answers
    err:value but the code parsed something, the input is outside the modelled domain"""
    return "err:value" in model and "err:value" not in code


def run_part(ctx):
    gromacs, engineparts, cp2k = _eng()
    rng = ctx.rng
    scale = float(os.environ.get("C19_CODEC_SCALE", "1.0")) * (1 if ctx.quick else 8)
    n_g96, n_xyz, n_traj = int(260 * scale), int(300 * scale), int(50 * scale)
    n_big = max(1, int(4 * scale))
    have = ctx._driver_ok
    lines, expect = [], []     # model requests and the code-side answers to compare with

    def ask(line, code, case, domain=False):
        lines.append(line)
        expect.append((code, case, domain))

    d = tempfile.mkdtemp(dir="/var/tmp", prefix="c19codec-")
    try:
        # ---------------- g96
        for i in range(n_g96 + n_big):
            case = gen_g96(rng, big=i >= n_g96)
            u = rng.random()
            n = len(case["txts"])
            if i < n_g96 and u < 0.08:
                case["mode"] = "novel"
            elif i < n_g96 and u < 0.16:
                case["mode"] = "rawbox"
                case["rawbox"] = "".join(fmt9(b) for b in case["box"][:3])
                case["box"] = case["box"][:3]
            elif i < n_g96 and u < 0.22 and n >= 1:
                case["mode"] = "short"
                case["keep"] = rng.randint(0, n - 1)
            out, fails = g96_eval(case, d)
            ctx.count(1, branch=f"g96-{case['mode']}")
            if n >= 1:
                ctx.distinct(("g96", repr(case)))
            for sig, what in fails:
                ctx.fail(sig, what, {"part": PART, "kind": "g96", "case": case})
            ask(g96_write_line(case), out["write"], {"op": "g96write", "case": case})
            if "bytes" in out:
                ask("g96read " + hexs(out["bytes"]), out["read"], {"op": "g96read", "case": case})
            if "rev" in out:
                ask("g96rev " + hexs(out["bytes"]), out["rev"], {"op": "g96rev", "case": case})
            if i % 97 == 0:
                ctx.sample({"fmt": "g96", "atoms": n, "mode": case["mode"], "file": out.get("bytes", b"").decode()[:400]})
        for r in range(max(1, int(3 * scale))):
            for j, text in enumerate(g96_malformed(rng)):
                p = os.path.join(d, "mal.g96")
                with open(p, "wb") as fh:
                    fh.write(text.encode())
                ctx.count(1, branch="g96-malformed")
                ask("g96read " + hexs(text), g96_read_code(gromacs, p), {"op": "g96read", "text": text}, domain=True)
        # ---------------- xyz single frames
        for i in range(n_xyz + n_big):
            case = gen_xyz(rng, big=i >= n_xyz)
            out, fails = xyz_eval(case, d)
            n = len(case["pos"])
            ctx.count(1, branch="xyz-frame" if n else "xyz-zero-atoms")
            if n >= 1:
                ctx.distinct(("xyz", repr(case)))
            for sig, what in fails:
                ctx.fail(sig, what, {"part": PART, "kind": "xyz", "case": case})
            ask(xyz_write_line(case), out["write"], {"op": "xyzwrite", "case": case})
            if "bytes" in out:
                hx = hexs(out["bytes"])
                ask("xyzread " + hx, out["read"], {"op": "xyzread", "case": case})
                ask("xyzconv 0 " + hx, out["conv"], {"op": "xyzconv", "case": case})
                ask("xyzconf " + hx, out["conf"], {"op": "xyzconf", "case": case})
                if "rev" in out:
                    ask("xyzrev " + hx, out["rev"], {"op": "xyzrev", "case": case})
            if i % 101 == 0:
                ctx.sample({"fmt": "xyz", "atoms": n, "file": out.get("bytes", b"").decode()[:400]})
        # names shorter than the positions → IndexError in the writer
        for _ in range(max(2, int(6 * scale))):
            case = gen_xyz(rng, allow_zero=False, plain=True)
            case["names"] = case["names"][:-1]
            out, _ = xyz_eval(case, d)
            ctx.count(1, branch="xyz-write-indexerror")
            ask(xyz_write_line(case), out["write"], {"op": "xyzwrite", "case": case})
        # ---------------- trajectories
        for i in range(n_traj):
            m = rng.randint(1, 4 if ctx.quick else 8)
            case = {"frames": [gen_xyz(rng, allow_zero=False) for _ in range(m)]}
            out, fails = traj_eval(case, d)
            ctx.count(m + 2, branch="xyz-extract")
            ctx.distinct(("traj", repr(case)))
            for sig, what in fails:
                ctx.fail(sig, what, {"part": PART, "kind": "traj", "case": case})
            hx = hexs(out["bytes"])
            for k, code in enumerate(out["extract"]):
                ask(f"xyzextract {k} {hx}", code, {"op": "xyzextract", "k": k, "case": case})
        for r in range(max(1, int(3 * scale))):
            for text in xyz_malformed(rng):
                p = os.path.join(d, "mal.xyz")
                with open(p, "wb") as fh:
                    fh.write(text.encode())
                ctx.count(1, branch="xyz-malformed")
                frames, rd = xyz_read_code(engineparts, p)
                hx = hexs(text)
                ask("xyzread " + hx, rd, {"op": "xyzread", "text": text}, domain=True)
                ask("xyzconv 0 " + hx, xyz_conv_code(engineparts, frames, 0), {"op": "xyzconv", "text": text}, domain=True)
                ask("xyzconf " + hx, xyz_conf_code(cp2k, p), {"op": "xyzconf", "text": text}, domain=True)
                for k in (0, 1):
                    o = os.path.join(d, "mal_out.xyz")
                    if os.path.exists(o):
                        os.remove(o)
                    try:
                        cp2k.CP2KEngine._extract_frame(cp2k_ns(cp2k), p, k, o)
                        code = "ok " + hexs(open(o, "rb").read()) if os.path.exists(o) else "ok none"
                    except Exception as e:  # noqa: BLE001
                        code = err_kind(e)
                    ask(f"xyzextract {k} {hx}", code, {"op": "xyzextract", "k": k, "text": text}, domain=True)
    finally:
        shutil.rmtree(d, ignore_errors=True)

    # ---------------- model side
    if have:
        answers = ctx.driver(lines)
        for (code, case, domain), model in zip(expect, answers):
            if code == model:
                continue
            if domain and domain_ok(code, model):
                ctx.hit("branch=malformed-outside-model-domain")
                continue
            ctx.disagree(case, code[:600], model[:600], note="part codec")
        ctx.hit("codec-model-requests", len(lines))
    ctx.assumptions += [
        "codec: texts are ASCII; numbers are decimals with 9 (header box: 4) fractional digits and |x| < 10^4, "
        "for which float(text) ↔ '%.9f' is exact; IEEE rounding float→decimal is outside the model",
        "codec: spellings accepted by Python's float()/int() outside the writers' image (exponents, '+', inf, other "
        "digit counts) are not modelled: the model answers ValueError there and the tie skips those malformed inputs",
        "codec: on an IndexError inside write_gromos96_file the truncated file left behind is not modelled",
    ]
    return ("codec: seeded g96 configurations (0–5 and 20–60 atoms, titles, 24-column labels, 3/9-component boxes, ±0.0, "
            "vel=None / raw box / short xyz variants), xyz frames (names incl. None and >5 chars, box none/3/9, step), "
            "multi-frame trajectories with every extraction index 0..m+1, and a malformed stream (over-wide fields, "
            "touching box fields, missing/extra sections, short/long lines, CRLF); distinct = distinct generated case with ≥ 1 atom")


def replay_part(ctx, obj):
    r = obj.get("replay", {})
    if r.get("part") != PART:
        return None
    d = tempfile.mkdtemp(dir="/var/tmp", prefix="c19codec-")
    try:
        kind, case = r.get("kind"), r.get("case")
        if kind == "g96":
            _, fails = g96_eval(case, d)
        elif kind == "xyz":
            _, fails = xyz_eval(case, d)
        elif kind == "traj":
            _, fails = traj_eval(case, d)
        else:
            print("unknown codec replay kind", kind)
            return 1
        for sig, what in fails:
            print("still failing:", sig, what)
        if not fails:
            print("codec replay: property holds on this input now")
        return 1 if fails else 0
    finally:
        shutil.rmtree(d, ignore_errors=True)
