"""C19, part "cp2k" — the CP2K input editor (infretis/classes/engines/cp2k.py:66-380).

Tie: the real read_cp2k_input / set_parents / update_cp2k_input / remove_node / update_node against the
Lean model Infretis.Cp2k (ops cp2kread / cp2krefkeys / cp2kupdate of the driver), and the property
predicates (exactly the requested entries change, requested values present, idempotent) evaluated on
the real code only.

Set-order rule.  `SectionNode.children` is a `set` hashed by identity: its iteration order is arbitrary.
 * every comparison of texts is done on section trees with children sorted recursively (canonical form);
 * the model is deterministic (children in insertion order).  For the update comparison the model is fed
   the template re-serialised with each node's children in the set order OBSERVED in this very run (a
   pass-through wrapper around read_cp2k_input records `list(node.children)` right after the real read,
   before set_parents iterates the same unmodified sets), so model and code traverse in the same order;
 * the property predicates track nodes by Python object identity (same wrapper), never by print order, and
   skip update targets whose address is ambiguous (several nodes answer to the same key by the
   addressing rule title-path / title-path->settings).
"""
from __future__ import annotations

import copy
import glob
import os
import shutil
import tempfile

from common import REPO, err_kind, hexs

PART = "cp2k"


def _mod():
    import importlib.util  # noqa: F401
    from infretis.classes.engines import cp2k as C
    return C


# --------------------------------------------------------------------------- canonical trees
def canon_node(n, strip=False):
    """`strip`: data lines as the reader would hand them back (stripped, blank ones dropped) — used only
    where an in-memory forest is compared with a re-read text"""
    kids = sorted(canon_node(c, strip) for c in n.children)
    data = [d.strip() for d in n.data if d.strip()] if strip else list(n.data)
    return ("(" + hexs(n.title) + " " + " ".join([str(len(n.settings or []))] + [hexs(s) for s in (n.settings or [])])
            + " " + " ".join([str(len(data))] + [hexs(d) for d in data])
            + " " + str(len(kids)) + "".join(" " + k for k in kids) + ")")


def canon_forest(nodes, strip=False):
    return str(len(nodes)) + "".join(" " + canon_node(n, strip) for n in nodes)


def ordered_text(nodes, order):
    """re-serialise a parsed forest, children in the observed set order (reader-proof rendering)"""
    out = []

    def rec(n):
        t = n.title
        head = ("& " if t.lower().startswith("end") else "&") + t
        if n.settings:
            head += " " + " ".join(n.settings)
        out.append(head)
        out.extend(n.data)
        for c in order[id(n)]:
            rec(c)
        out.append("&END")

    for r in nodes:
        rec(r)
    return "\n".join(out) + "\n"


def all_nodes(roots):
    seen, stack = [], list(roots)
    ids = set()
    while stack:
        n = stack.pop()
        if id(n) in ids:
            continue
        ids.add(id(n))
        seen.append(n)
        stack.extend(n.children)
    return seen


def title_path(n):
    p = []
    while n is not None:
        p.append(n.title)
        n = n.parent
    return "->".join(reversed(p))


# --------------------------------------------------------------------------- wire format
def upd_tokens(update):
    toks = [str(len(update))]
    for tgt, val in update.items():
        data = val.get("data", {})
        is_list = isinstance(data, list)
        toks += [hexs(tgt), "1" if val.get("replace", False) else "0", "1" if is_list else "0"]
        if "settings" in val:        # 's' list | 'n' = no "settings" entry (value.get("settings", None))
            toks += ["s", str(len(val["settings"]))] + [hexs(s) for s in val["settings"]]
        else:
            toks.append("n")
        items = [(k, None) for k in data] if is_list else list(data.items())
        toks.append(str(len(items)))
        for k, v in items:
            toks += [hexs(str(k)), "N" if v is None else "V" + hexs(str(v))]
    return toks


def enc_update(update):
    """JSON-safe, order-preserving form of an update dict (replay files are written with sort_keys)"""
    if update is None:
        return None
    out = []
    for tgt, val in update.items():
        v = {k: val[k] for k in ("replace", "settings") if k in val}
        if "data" in val:
            d = val["data"]
            v["data"] = {"list": list(d)} if isinstance(d, list) else {"pairs": [[k, x] for k, x in d.items()]}
        out.append([tgt, v])
    return out


def dec_update(enc):
    if enc is None:
        return None
    upd = {}
    for tgt, v in enc:
        val = {k: v[k] for k in ("replace", "settings") if k in v}
        if "data" in v:
            val["data"] = list(v["data"]["list"]) if "list" in v["data"] else {k: x for k, x in v["data"]["pairs"]}
        upd[tgt] = val
    return upd


def edit_line(op, text, update, remove):
    return " ".join([op, hexs(text)] + upd_tokens(update or {}) + [str(len(remove or []))] + [hexs(r) for r in (remove or [])])


# --------------------------------------------------------------------------- running the real code
class Real:
    """one run of the real update_cp2k_input with identity tracking"""

    def __init__(self, C, tmp, text, update, remove, call=None):
        """`call(tpl, out)`: the real function to run instead of update_cp2k_input (e.g. write_for_run_vel)"""
        self.err = None
        self.read_err = None
        tpl = os.path.join(tmp, "t.inp")
        out = os.path.join(tmp, "o.inp")
        with open(tpl, "w", encoding="utf-8", newline="") as f:
            f.write(text)
        # plain read (reader tie)
        try:
            self.read_canon = canon_forest(C.read_cp2k_input(tpl))
        except Exception as e:  # noqa: BLE001
            self.read_canon = err_kind(e)
        rec = {}
        orig = C.read_cp2k_input

        def wrap(fn):
            nodes = orig(fn)
            rec["nodes"] = nodes
            rec["all"] = all_nodes(nodes)
            rec["order"] = {id(n): list(n.children) for n in rec["all"]}
            rec["snap"] = {id(n): (n.title, list(n.settings), list(n.data), n.parent, title_path(n)) for n in rec["all"]}
            rec["text"] = ordered_text(nodes, rec["order"])
            return nodes

        C.read_cp2k_input = wrap
        try:
            if call is not None:
                call(tpl, out)
            else:
                C.update_cp2k_input(tpl, out, update=copy.deepcopy(update), remove=copy.deepcopy(remove))
        except Exception as e:  # noqa: BLE001
            self.err = err_kind(e)
        finally:
            C.read_cp2k_input = orig
        self.rec = rec
        self.out_text = None
        self.out_canon = None
        if self.err is None:
            with open(out, encoding="utf-8") as f:
                self.out_text = f.read()
            try:
                self.out_canon = canon_forest(orig(out))
            except Exception as e:  # noqa: BLE001
                self.out_canon = "reread-" + err_kind(e)

    def answer(self):
        return self.err if self.err is not None else self.out_canon


# --------------------------------------------------------------------------- property predicates (code only)
def resolve(snap_nodes, snap, target):
    """nodes that answer to `target` by the addressing rule: the title path, or for nodes sharing their
    title path with another node: title path + '->' + ' '.join(settings)"""
    by_path = {}
    for n in snap_nodes:
        by_path.setdefault(snap[id(n)][4], []).append(n)
    cands = list(by_path.get(target, []))
    for p, ns in by_path.items():
        if len(ns) >= 2:
            for n in ns:
                if p + "->" + " ".join(snap[id(n)][1]) == target and n not in cands:
                    cands.append(n)
    return cands


def addr_status(olds, snap, keys):
    """(ambiguous, touches_big, through_big): over every '->'-prefix of every key"""
    groups = {}
    for n in olds:
        groups.setdefault(snap[id(n)][4], []).append(n)
    big_ids = {id(n) for ns in groups.values() if len(ns) >= 3 for n in ns}
    amb = touch = through = False
    for key in keys:
        parts = key.split("->")
        if not resolve(olds, snap, key):
            # an absent target hangs below its longest resolvable prefix: that one must be unambiguous
            for k in range(len(parts) - 1, 0, -1):
                cb = resolve(olds, snap, "->".join(parts[:k]))
                if len(cb) > 1:
                    amb = True
                if cb:
                    break
        for k in range(1, len(parts) + 1):
            c = resolve(olds, snap, "->".join(parts[:k]))
            if len(c) > 1 and k == len(parts):
                amb = True
            if any(id(n) in big_ids for n in c):
                touch = True
                if k < len(parts) and any(id(n) in big_ids and snap[id(n)][4] != "->".join(parts[:k]) for n in c):
                    through = True
    return amb, touch, through


def _is_falsy_value(v):
    """a valid requested value that Python's truthiness treats like None: 0, 0.0, False, "" """
    return v is not None and not v


def classify_data_mismatch(old, data, got, created):
    """which defect class a wrong data block of a target belongs to (dict data)"""
    if isinstance(data, dict):
        if any(_is_falsy_value(v) for v in data.values()):
            as_none = {k: (None if _is_falsy_value(v) else v) for k, v in data.items()}
            if got == expected_lines(old, as_none):
                return "C19:cp2k:falsy-value-dropped"      # exactly the falsy values lost their value
        if created and got == [str(k) for k in data] and any(v is not None for v in data.values()):
            return "C19:cp2k:new-section-drops-values"     # every value dropped (the pre-fix behaviour)
        if any(v is None for v in data.values()):
            return "C19:cp2k:none-value-printed-as-None"
    return "C19:cp2k:requested-data-missing"


def expected_lines(old, data):
    """the merge law the property demands: existing keys replaced in place, new keys appended in dict
    order, None -> bare key"""
    def fmt(k, v):
        return str(k) if v is None else f"{k} {v}"
    keys_seen = set()
    new = []
    for line in old:
        k = line.split()[0]
        if k in data:
            new.append(fmt(k, data[k]))
            keys_seen.add(k)
        else:
            new.append(line)
    for k, v in data.items():
        if k not in keys_seen:
            new.append(fmt(k, v))
    return new


def expected_lines_ci(old, data):
    """the same merge law with keywords compared case-insensitively (CP2K's own reading; the repaired variant of the open
    finding C19:cp2k:wfrvel:keyword-case, Lean `mergeDataR`): the line is rewritten with the requested spelling; of
    requested keys that are equal up to case the first one names the entry"""
    def fmt(k, v):
        return str(k) if v is None else f"{k} {v}"
    wanted = {}
    for k in data:
        wanted.setdefault(str(k).upper(), k)
    done, new = set(), []
    for line in old:
        k = wanted.get(line.split()[0].upper())
        if k is not None:
            new.append(fmt(k, data[k]))
            done.add(k)
        else:
            new.append(line)
    for k, v in data.items():
        if k not in done:
            new.append(fmt(k, v))
    return new


def keys_collide_up_to_case(update):
    """a request that names the same CP2K keyword twice (`STEPS` and `steps` in one data dict): what it asks for depends
    on whether keywords are compared literally or as CP2K reads them — the point of the open finding"""
    for v in (update or {}).values():
        d = v.get("data", {})
        if isinstance(d, dict) and len({str(k).upper() for k in d}) < len(d):
            return True
    return False


def check_case(C, tmp, text, update, remove):
    """returns (Real, fails[list of (signature, what)], tags) — everything on the real code"""
    fails = []
    tags = set()
    r = Real(C, tmp, text, update, remove)
    if r.err is not None or "nodes" not in r.rec:
        tags.add("error")
        return r, fails, tags
    rec = r.rec
    snap, olds = rec["snap"], rec["all"]
    update = update or {}
    remove = remove or []
    # print / re-read round trip of the final in-memory forest
    mem = canon_forest(rec["nodes"], strip=True)      # modulo the reader's strip ("KEY " for a "" value)
    if r.out_canon != mem:
        roundtrip_ok = all(_roundtrippable(n) for n in all_nodes(rec["nodes"]))
        if roundtrip_ok:
            fails.append(("C19:cp2k:print-read-roundtrip", f"re-read output {r.out_canon} != final forest {mem}"))
        else:
            tags.add("unroundtrippable-request")
    # addressing
    targets = {}
    ambiguous = False
    for tgt in update:
        c = resolve(olds, snap, tgt)
        if len(c) > 1:
            ambiguous = True
        targets[tgt] = c
    rem_nodes = []
    for tgt in remove:
        c = resolve(olds, snap, tgt)
        if len(c) > 1:
            ambiguous = True
        rem_nodes += c
    groups = {}
    for n in olds:
        groups.setdefault(snap[id(n)][4], []).append(n)
    big = {p: ns for p, ns in groups.items() if len(ns) >= 3}
    big_ids = {id(n) for ns in big.values() for n in ns}
    amb2, _touch, through = addr_status(olds, snap, list(update) + list(remove))
    if ambiguous or amb2:
        tags.add("ambiguous-address")
        tags.add("order-dependent")
        return r, fails, tags
    if through:
        tags.add("order-dependent")
        tags.add("partial-triple")
        return r, fails, tags
    # an edit that changes the settings of a section addressed THROUGH its settings changes that address:
    # a second application cannot address it again (inherent to the addressing scheme, not evaluated)
    for tgt, c in targets.items():
        v = update[tgt]
        if c and snap[id(c[0])][4] != tgt and ((v.get("replace", False) and "settings" in v) or v.get("settings")):
            tags.add("address-changing")
    for tgt in remove:
        c = resolve(olds, snap, tgt)
        if c and snap[id(c[0])][4] != tgt:
            tags.add("address-changing")       # removing one of two duplicates renames the other
    for tgt, v in update.items():
        dd = v.get("data", {})
        if v.get("replace", False) and isinstance(dd, dict) and any(x is not None for x in dd.values()):
            # replace-mode data is documented as "already formatted" lines: a dict with values there is not a
            # meaningful request (a created section formats it, an existing one takes the keys)
            tags.add("replace-with-dict")
    addressed = {id(c[0]) for c in targets.values() if c} | {id(n) for n in rem_nodes}
    for p, ns in big.items():
        m = sum(1 for n in ns if id(n) in addressed)
        if m:
            tags.add("order-dependent")       # idempotence of such edits depends on the set order
        if 0 < m < len(ns):
            tags.add("partial-triple")         # so does exactness unless every member is addressed
    if "partial-triple" in tags:
        return r, fails, tags

    def sig3(n, sig):
        # the node, or any section it lies in, is a member of a >=3 same-path group: one member of such a
        # group is registered under the bare path, so an update/remove addressed to it (and with it to its
        # whole subtree) is not applied — which member depends on the set order, that one fails does not
        m = n
        while m is not None:
            if id(m) in big_ids:
                return "C19:cp2k:third-duplicate-bare-key"
            m = snap[id(m)][3] if id(m) in snap else m.parent
        return sig

    final_all = all_nodes(rec["nodes"])
    final_ids = {id(n) for n in final_all}
    every = all_nodes(list(rec["nodes"]) + list(olds))
    removed_ids = set()
    for n in rem_nodes:
        for m_ in all_nodes([n]):
            removed_ids.add(id(m_))
    intended = {id(c[0]): tgt for tgt, c in targets.items() if c}
    # (a) every other original node is unchanged and still in place
    for n in olds:
        if id(n) in removed_ids:
            if id(n) in final_ids:
                fails.append((sig3(n, "C19:cp2k:remove-not-applied"), f"{snap[id(n)][4]} still in the output after remove"))
            continue
        if id(n) not in final_ids:
            fails.append((sig3(n, "C19:cp2k:section-lost"), f"{snap[id(n)][4]} disappeared without being removed"))
            continue
        t, s, d, par, _ = snap[id(n)]
        if id(n) in intended:
            continue
        if (n.title, list(n.settings), list(n.data)) != (t, s, d) or n.parent is not par:
            fails.append((sig3(n, "C19:cp2k:unrequested-change"),
                          f"node {snap[id(n)][4]} {s} changed: {d} -> {n.data}, settings {n.settings}"))
    # new nodes: only the absent targets and their missing ancestors, hanging below the section that the
    # longest resolvable prefix of the target addresses
    news = [n for n in every if id(n) not in snap]
    wanted_ids = set()
    created = {}
    for tgt, c in targets.items():
        if c:
            continue
        parts = tgt.split("->")
        if any(rt == "->".join(parts[:k]) for rt in remove for k in range(1, len(parts) + 1)):
            created[tgt] = "skip"             # (part of) the new chain is removed again by the same edit
        base, rest = None, parts
        for k in range(len(parts) - 1, 0, -1):
            cb = resolve(olds, snap, "->".join(parts[:k]))
            if len(cb) > 1:
                tags.add("ambiguous-address")
                tags.add("order-dependent")
                return r, fails, tags
            if len(cb) == 1:
                base, rest = cb[0], parts[k:]
                break
        cur = base
        ok = True
        for title in rest:
            pool = list(cur.children) if cur is not None else list(rec["nodes"])
            nxt = [m for m in pool if id(m) not in snap and m.title == title]
            if not nxt:
                ok = False
                break
            cur = nxt[0]
            wanted_ids.add(id(cur))
        if created.get(tgt) != "skip":
            created[tgt] = cur if ok else None
    for n in news:
        if id(n) not in wanted_ids and not any(v == "skip" for v in created.values()):
            fails.append((sig3(n, "C19:cp2k:unrequested-section-created"),
                          f"section {title_path(n)} created although it was not requested"))
    # (c) requested values
    for tgt, val in update.items():
        c = targets[tgt]
        data = val.get("data", {})
        setts = val.get("settings", [])
        rep = val.get("replace", False)
        if c:
            n = c[0]
            if id(n) in removed_ids:
                continue
            t, s, d, par, _ = snap[id(n)]
            if rep or isinstance(data, list):
                want_d = [str(k) for k in data]
                if not rep:
                    continue      # list data without replace: not a meaningful request
            else:
                if any(not line.split() for line in d):
                    continue
                want_d = expected_lines(d, data)
            if list(n.data) != want_d and not (not rep and isinstance(data, dict) and not isinstance(data, list)
                                               and list(n.data) == expected_lines_ci(d, data)):
                if id(n) in big_ids and list(n.data) == d:
                    sig = "C19:cp2k:third-duplicate-bare-key"
                elif rep:
                    sig = "C19:cp2k:requested-data-missing"
                else:
                    sig = classify_data_mismatch(d, data, list(n.data), created=False)
                fails.append((sig, f"target {tgt}: data {list(n.data)}, requested {want_d}"))
            if id(n) in big_ids and list(n.settings) == s and list(n.data) == d:
                continue          # the bare-registered member of a >=3 group: reported above
            now = list(n.settings)
            if "settings" not in val:
                # no section parameters requested: they stay, in merge and in replace mode
                if now != s:
                    fails.append(("C19:cp2k:replace-wipes-settings" if rep else "C19:cp2k:unrequested-change",
                                  f"target {tgt}: settings {s} -> {now} although no settings were requested"))
            elif rep:
                if now != list(setts):
                    fails.append(("C19:cp2k:requested-settings-missing",
                                  f"target {tgt}: settings {now}, requested (replace) {list(setts)}"))
            else:
                # merge: the old parameters stay in front, every requested one is present afterwards, and a
                # requested parameter that was already there is not repeated
                added = now[len(s):]
                if now[:len(s)] != s or any(x not in now for x in setts) or any(x not in setts for x in added):
                    fails.append(("C19:cp2k:requested-settings-missing",
                                  f"target {tgt}: settings {s} -> {now}, requested {list(setts)}"))
                elif any(x in s for x in added):
                    fails.append(("C19:cp2k:settings-appended-twice",
                                  f"target {tgt}: settings {s} -> {now}: {[x for x in added if x in s]} repeated"))
        else:
            # a section to create: title = last segment, requested lines, requested settings
            n = created.get(tgt)
            if n == "skip":
                continue
            if n is None:
                fails.append(("C19:cp2k:new-section-missing", f"target {tgt} was not created"))
                continue
            # a created section carries the requested lines: `KEY value` (bare KEY for None) for a dict, the
            # lines themselves for a list — also in replace mode (nothing to replace yet)
            want_d = [str(k) for k in data] if isinstance(data, list) else expected_lines([], data)
            rep_dict = rep and isinstance(data, dict) and any(x is not None for x in data.values())
            # (replace + dict with values is not a meaningful request: the section may already have been
            #  created as a missing parent by an earlier entry, and replace then stores the keys)
            if list(n.data) != want_d and not rep_dict:
                sig = classify_data_mismatch([], data, list(n.data), created=True)
                fails.append((sig, f"new section {tgt}: data {list(n.data)}, requested {want_d}"))
            want_s = list(val["settings"]) if val.get("settings") else []
            if list(n.settings or []) != want_s:
                fails.append(("C19:cp2k:requested-settings-missing",
                              f"new section {tgt}: settings {n.settings}, requested {want_s}"))
    return r, fails, tags


def _roundtrippable(n):
    """tokens for which print followed by read is the identity (guards of cp2k_print_read_roundtrip)"""
    ws = lambda s: any(ch.isspace() for ch in s)  # noqa: E731
    if not n.title or ws(n.title) or n.title.upper() != n.title or n.title.lower().startswith("end"):
        return False
    if any((not s) or ws(s) for s in (n.settings or [])):
        return False
    return all((not d.strip()) or (not d.strip().startswith("&") and "\n" not in d and "\r" not in d) for d in n.data)


def _order_dependent(rec, update, remove):
    """the edit addresses (or passes through) a key that several nodes answer to, or a >=3 same-path group"""
    amb, touch, _ = addr_status(rec["all"], rec["snap"], list(update or {}) + list(remove or []))
    return amb or touch


def _through_suffixed(rec, update):
    """some target passes THROUGH a settings-suffixed duplicate address (descendants of disambiguated
    duplicates are registered without the disambiguating suffix)"""
    olds, snap = rec["all"], rec["snap"]
    paths = {}
    for n in olds:
        paths.setdefault(snap[id(n)][4], []).append(n)
    suff = {p + "->" + " ".join(snap[id(n)][1]) for p, ns in paths.items() if len(ns) >= 2 for n in ns}
    for tgt in update:
        parts = tgt.split("->")
        for k in range(1, len(parts)):
            if "->".join(parts[:k]) in suff:
                return True
    return False


def _entry_signature(rec, rec2, tgt, v):
    """the defect class an update entry that is not idempotent ON ITS OWN belongs to"""
    one = {tgt: v}
    if _through_suffixed(rec, one) or (rec2 is not None and _through_suffixed(rec2, one)):
        return "C19:cp2k:duplicate-children-unaddressable"
    rep = v.get("replace", False)
    d = v.get("data", {})
    if v.get("settings") and not rep:
        return "C19:cp2k:settings-appended-twice"
    if rep and "settings" not in v:
        return "C19:cp2k:replace-wipes-settings"
    if isinstance(d, dict) and any(x is None for x in d.values()) and not rep:
        return "C19:cp2k:none-value-printed-as-None"
    if isinstance(d, dict) and d and not rep:
        return "C19:cp2k:new-section-drops-values"
    return "C19:cp2k:not-idempotent"


def check_idempotent(C, tmp, r, update, remove, tags=()):
    """(b): applying the same edit to the output gives an equivalent tree; returns (Real2, fails)"""
    fails = []
    if r.err is not None or r.out_canon is None or r.out_canon.startswith("reread-"):
        return None, fails
    r2 = Real(C, tmp, r.out_text, update, remove)
    a2 = r2.answer()
    if ("order-dependent" in tags or "address-changing" in tags or "unroundtrippable-request" in tags
            or "replace-with-dict" in tags or "nodes" not in r2.rec
            or _order_dependent(r2.rec, update, remove)):
        return r2, fails
    if a2 != r.out_canon:
        upd = update or {}
        # which entries are not idempotent on their own (on the same template)?  classify by those
        sigs = []
        for tgt, v in upd.items():
            one = {tgt: copy.deepcopy(v)}
            ra = Real(C, tmp, r.rec["text"] if "text" in r.rec else r.out_text, one, None)
            if ra.err is not None or ra.out_canon is None or ra.out_canon.startswith("reread-"):
                continue
            rb = Real(C, tmp, ra.out_text, one, None)
            if rb.answer() != ra.out_canon:
                d = v.get("data", {})
                if isinstance(d, dict) and any(_is_falsy_value(x) for x in d.values()):
                    # is it the falsy values?  the same entry with them made truthy must then be idempotent
                    v2 = copy.deepcopy(v)
                    v2["data"] = {k: ("x1" if _is_falsy_value(x) else x) for k, x in d.items()}
                    rc_ = Real(C, tmp, r.rec["text"] if "text" in r.rec else r.out_text, {tgt: v2}, None)
                    if rc_.err is None and rc_.out_canon is not None and not rc_.out_canon.startswith("reread-"):
                        rd_ = Real(C, tmp, rc_.out_text, {tgt: copy.deepcopy(v2)}, None)
                        if rd_.answer() == rc_.out_canon:
                            sigs.append("C19:cp2k:falsy-value-dropped")
                            continue
                sigs.append(_entry_signature(ra.rec, rb.rec if "all" in rb.rec else None, tgt, v))
        if not sigs:
            sigs = ["C19:cp2k:not-idempotent"]
        for sig in dict.fromkeys(sigs):
            fails.append((sig, f"second application changes the output: {r.out_canon} -> {a2}"))
    return r2, fails


def check_removed_children(C, tmp, text):
    """API level: after remove_node(P) a key of node_ref must not address a section that is no longer in
    the forest (docstring of update_node: a non-existing target is created)"""
    tpl = os.path.join(tmp, "r.inp")
    with open(tpl, "w", encoding="utf-8", newline="") as f:
        f.write(text)
    try:
        nodes = C.read_cp2k_input(tpl)
        ref = C.set_parents(nodes)
    except Exception:  # noqa: BLE001
        return []
    fails = []
    parents = sorted(k for k, n in ref.items() if n.children)
    for k in parents[:2]:
        nodes2 = C.read_cp2k_input(tpl)
        ref2 = C.set_parents(nodes2)
        if k not in ref2:
            continue
        C.remove_node(k, ref2, nodes2)
        live = {id(n) for n in all_nodes(nodes2)}
        stale = sorted(key for key, n in ref2.items() if id(n) not in live)
        if stale:
            fails.append(("C19:cp2k:removed-children-stay-addressable",
                          f"after remove_node({k!r}) node_ref still maps {stale[:3]} to detached sections", k))
            break
    return fails


# --------------------------------------------------------------------------- generators
TITLES = ["A", "B", "K", "KIND", "MD", "EACH", "PRINT", "kind", "Each", "SUBSYS", "ENERGY"]
SETTS = ["X", "Y", "H", "O", "OFF", "ON", "#c"]
# incl. keys that are a prefix / an extension of another key (STEP ⊂ STEPS, TEMP ⊂ TEMPERATURE): a request for one
# must leave a line of the other alone (whole-keyword matching, the CP2K analogue of C19:lammps:unrequested-word-edited)
KEYS = ["STEPS", "TEMP", "FILE", "MD", "A", "K", "steps", "STEP", "TEMPERATURE"]
VALS = ["5", "0.5", "a b", "[fs] 2", "x"]
# requested values of every Python kind, incl. the falsy-but-valid ones (0, 0.0, False, "") and "0"
ODD_VALS = [None, 7, 0, 0.0, False, "", "0", True, -1.5]


def gen_tree(rng, depth, maxdepth):
    n = {"title": rng.choice(TITLES), "settings": [rng.choice(SETTS) for _ in range(rng.choice((0, 0, 1, 1, 2)))],
         "data": [], "children": []}
    for _ in range(rng.choice((0, 1, 2, 3))):
        kind = rng.random()
        if kind < 0.7:
            n["data"].append(rng.choice(KEYS) + rng.choice((" ", "  ", "\t")) + rng.choice(VALS))
        elif kind < 0.8:
            n["data"].append(rng.choice(KEYS))
        else:
            n["data"].append(rng.choice(("# a comment", "! note &x", "#", "@SET V 1")))
    if depth < maxdepth:
        k = rng.choice((0, 1, 1, 2, 2, 3))
        while len(n["children"]) < k:
            c = gen_tree(rng, depth + 1, maxdepth)
            n["children"].append(c)
            d = rng.random()
            if d < 0.30:    # a duplicate-title group: 2 or 3 members, equal or distinct settings
                m = rng.choice((1, 1, 2))
                for j in range(m):
                    c2 = gen_tree(rng, depth + 1, maxdepth)
                    c2["title"] = c["title"]
                    mode = rng.random()
                    if mode < 0.25:
                        c2["settings"] = list(c["settings"])
                    else:
                        c2["settings"] = [SETTS[(SETTS.index(c["settings"][0]) + 1 + j) % len(SETTS)]] if c["settings"] else [SETTS[j]]
                    n["children"].append(c2)
    return n


def render(rng, roots, malformed):
    lines = []

    def rec(n, lvl):
        ind = rng.choice(("", " " * lvl, "  " * lvl, "\t"))
        t = n["title"]
        t = rng.choice((t, t, t.lower(), t.capitalize()))
        sep = rng.choice((" ", "  ", "\t"))
        lines.append(ind + "&" + t + "".join(sep + s for s in n["settings"]) + rng.choice(("", " ", "")))
        for d in n["data"]:
            lines.append(ind + rng.choice(("", " ", "  ")) + d + rng.choice(("", " ")))
            if rng.random() < 0.1:
                lines.append(rng.choice(("", "   ")))
        for c in n["children"]:
            rec(c, lvl + 1)
        lines.append(ind + rng.choice(("&END", "&END " + n["title"], "&end", "&End " + n["title"].lower(), "&END WRONG", "&ENDSECTION")))

    for i, r in enumerate(roots):
        if i and rng.random() < 0.7:
            lines.append("")
        rec(r, 0)
    if malformed:
        k = rng.randrange(8)
        pos = rng.randrange(len(lines) + 1)
        if k == 0:
            lines.insert(pos, "&")
        elif k == 1:
            lines.insert(pos, "&END")
        elif k == 2:
            ends = [i for i, l in enumerate(lines) if l.strip().lower().startswith("&end")]
            del lines[rng.choice(ends)]
        elif k == 3:
            lines.insert(pos, "&ENDPOINT X")
        elif k == 4:
            lines.insert(pos, "& X Y")
        elif k == 5:
            lines.insert(0, "STRAY 1")
        elif k == 6:
            lines.insert(0, "&END")
        else:
            lines.insert(pos, "& END")
    nl = rng.choice(("\n", "\n", "\n", "\r\n"))
    return nl.join(lines) + rng.choice(("\n", "", "\n\n"))


def spec_addresses(roots):
    """addresses by the addressing rule, from the generated (pre-noise) tree"""
    paths = {}

    def rec(n, pre):
        p = (pre + "->" if pre else "") + n["title"].upper()
        paths.setdefault(p, []).append(n)
        for c in n["children"]:
            rec(c, p)

    for r in roots:
        rec(r, "")
    present, bare_dups = [], []
    for p, ns in paths.items():
        if len(ns) == 1:
            present.append(p)
        else:
            bare_dups.append(p)
            for n in ns:
                present.append(p + "->" + " ".join(n["settings"]))
    return present, bare_dups


def triple_groups(roots):
    paths = {}

    def rec(n, pre):
        p = (pre + "->" if pre else "") + n["title"].upper()
        paths.setdefault(p, []).append(n)
        for c in n["children"]:
            rec(c, p)

    for r in roots:
        rec(r, "")
    return [[p + "->" + " ".join(n["settings"]) for n in ns] for p, ns in paths.items() if len(ns) >= 3]


def gen_update(rng, roots):
    present, bare = spec_addresses(roots)
    upd = {}
    g3 = triple_groups(roots)
    if g3 and rng.random() < 0.35:      # address every member of a >=3 group (order-independent verdict)
        for a in rng.choice(g3):
            upd[a] = {"data": {"V": "9"}}
    for _ in range(rng.choice((0, 1, 1, 2, 3))):
        kind = rng.random()
        if kind < 0.55 and present:
            tgt = rng.choice(present)
        elif kind < 0.65 and bare:
            tgt = rng.choice(bare)
        elif kind < 0.85 and present:
            tgt = rng.choice(present) + "->" + "->".join(rng.choice(("NEW", "PRINT", "Z")) for _ in range(rng.choice((1, 1, 2, 3))))
        else:
            tgt = "->".join(rng.choice(("NEWROOT", "GLOBAL", "Q")) for _ in range(rng.choice((1, 1, 2))))
        val = {}
        rep = rng.random() < 0.3
        if rep or rng.random() < 0.2:
            val["replace"] = rep
        if rng.random() < 0.35:
            val["settings"] = [rng.choice(SETTS) for _ in range(rng.choice((0, 1, 2)))]
        if rng.random() < 0.85:
            if rep and rng.random() < 0.6:
                val["data"] = [rng.choice(KEYS) + " " + rng.choice(VALS) for _ in range(rng.choice((0, 1, 2)))]
            else:
                d = {}
                for _ in range(rng.choice((0, 1, 1, 2, 3))):
                    v = rng.choice(ODD_VALS) if rng.random() < 0.5 else rng.choice(VALS)
                    d[rng.choice(KEYS + ["NEWKEY", "Z"])] = v
                val["data"] = d
        upd[tgt] = val
    rem = []
    for _ in range(rng.choice((0, 0, 1, 1, 2))):
        if rng.random() < 0.8 and present:
            rem.append(rng.choice(present))
        else:
            rem.append(rng.choice(("NOPE", "A->NOPE", "")))
    choice = rng.random()
    if choice < 0.1:
        return None, rem or None
    if choice < 0.2:
        return upd, None
    return upd, rem


def repo_inputs():
    files = sorted(set(glob.glob(str(REPO / "examples" / "**" / "*.inp"), recursive=True)
                       + glob.glob(str(REPO / "test" / "**" / "*.inp"), recursive=True)))
    out = []
    for f in files:
        try:
            t = open(f, encoding="utf-8").read()
        except Exception:  # noqa: BLE001
            continue
        if all(ord(c) < 128 for c in t):
            out.append((os.path.relpath(f, REPO), t))
    return out


def engine_like_update(rng):
    """the update/remove that write_for_run_vel builds (cp2k.py:611-642), with small numbers"""
    upd = {
        "GLOBAL": {"data": ["PROJECT md_step", "RUN_TYPE MD", "PRINT_LEVEL LOW"], "replace": True},
        "MOTION->MD": {"data": {"STEPS": rng.randint(1, 50), "TIMESTEP": rng.choice((0.5, 0.25, 2))}},
        "MOTION->PRINT->RESTART": {"data": ["BACKUP_COPIES 0"], "replace": True},
        "MOTION->PRINT->RESTART->EACH": {"data": {"MD": 3}},
        "MOTION->PRINT->VELOCITIES->EACH": {"data": {"MD": 3}},
        "MOTION->PRINT->TRAJECTORY->EACH": {"data": {"MD": 3}},
        "FORCE_EVAL->SUBSYS->TOPOLOGY": {"data": {"COORD_FILE_NAME": "conf.xyz", "COORD_FILE_FORMAT": "xyz"}},
        "FORCE_EVAL->SUBSYS->VELOCITY": {"data": ["0.5 0.25 -1.0", "0.0 0.0 0.0"], "replace": True},
        "FORCE_EVAL->DFT->SCF->PRINT->RESTART": {"data": ["BACKUP_COPIES 0"], "replace": True},
    }
    return upd, ["EXT_RESTART", "FORCE_EVAL->SUBSYS->COORD"]


def engine_like_update_dict(rng):
    """the same request written with dicts (no replace), incl. zero / False / empty values, for sections that
    exist in a template and for sections (and parents) that have to be created"""
    upd = {
        "GLOBAL": {"data": {"PROJECT": "md_step", "PRINT_LEVEL": "LOW", "TRACE": False}},
        "MOTION->MD": {"data": {"STEPS": rng.randint(0, 3), "TIMESTEP": rng.choice((0.5, 0.0, 2)), "TEMPERATURE": 0}},
        "MOTION->PRINT->RESTART": {"data": {"BACKUP_COPIES": 0}},
        "MOTION->PRINT->RESTART->EACH": {"data": {"MD": 0}},
        "MOTION->MD->THERMOSTAT->CSVR": {"data": {"TIMECON": 0.0}},
        "MOTION->PRINT->TRAJECTORY": {"data": {"APPEND": False, "FILENAME": ""}},
        "FORCE_EVAL->DFT->SCF->PRINT->RESTART": {"data": {"BACKUP_COPIES": 0, "ADD_LAST": "0"}},
        "EXT_RESTART": {"data": {"RESTART_COUNTERS": False, "RESTART_FILE_NAME": ""}},
    }
    return upd, ["FORCE_EVAL->SUBSYS->COORD"]


FIXED = [
    # (template, update, remove) boundary cases
    ("&MOTION\n &MD\n  STEPS 10\n &END MD\n&END MOTION\n", {"MOTION->MD": {"settings": ["X"]}}, None),
    ("&MOTION\n &MD\n  STEPS 10\n &END MD\n&END MOTION\n", {"MOTION->MD": {"data": {"FOO": None}}}, None),
    ("&MOTION\n &MD\n  STEPS 10\n &END MD\n&END MOTION\n", {"MOTION->MD": {"data": {"STEPS": None}}}, None),
    ("&MOTION\n &MD\n  STEPS 10\n &END MD\n&END MOTION\n", {"MOTION->PRINT->EACH": {"data": {"MD": "5"}}}, None),
    ("&MOTION\n &MD\n  STEPS 10\n &END MD\n&END MOTION\n", {"MOTION->MD": {"data": {"STEPS": "99"}}}, ["MOTION"]),
    ("&A\n &K X\n  V 1\n &END K\n &K Y\n  V 2\n &END K\n &K Z\n  V 3\n &END K\n&END A\n",
     {"A->K->X": {"data": {"V": "9"}}, "A->K->Y": {"data": {"V": "9"}}, "A->K->Z": {"data": {"V": "9"}}}, None),
    ("&A\n &K X\n  V 1\n &END K\n &K Y\n  V 2\n &END K\n&END A\n",
     {"A->K->X": {"data": {"V": "9"}}, "A->K->Y": {"data": {"W": "9"}, "replace": True}}, None),
    ("&A\n &K X\n &END K\n &K X\n &END K\n&END A\n", {"A->K->X": {"data": {"V": "9"}}}, ["A->K"]),
    ("&A\n &K X\n &END K\n &K Y\n &END K\n&END A\n", {"A->K->X->NEW": {"data": {}}}, None),
    ("&A\n&END\n\n&B\n&END\n", {"A": {"data": ["L 1", "L 1"], "replace": True, "settings": []}}, ["B", "B"]),
    ("&A\n &K Y\n  V 2\n &END K\n&END A\n", {"A->K": {"replace": True, "data": ["W 9"]}}, None),
    ("&A\n &K Y\n  V 2\n &END K\n&END A\n", {"A->K": {"settings": ["Y", "Z", "Z"], "data": {"V": None, "W": None}}}, None),
    ("&A\n &K Y\n  V 2\n &END K\n&END A\n", {"A->K": {"replace": True, "settings": [], "data": {"V": None}}}, None),
    ("&A\n&END A\n", {"A->NEW": {"replace": True, "settings": ["S"], "data": {"V": "1", "W": None}}}, None),
    # falsy-but-valid values (0, 0.0, False, "") and "0": created leaf / created with missing parent / created root /
    # existing section; merge mode; replace + list for comparison
    ("&MOTION\n &MD\n  STEPS 10\n &END MD\n&END MOTION\n", {"MOTION->MD->THERMOSTAT": {"data": {"K": 0}}}, None),
    ("&MOTION\n &MD\n  STEPS 10\n &END MD\n&END MOTION\n", {"MOTION->PRINT->RESTART": {"data": {"BACKUP_COPIES": 0}}}, None),
    ("&MOTION\n &MD\n  STEPS 10\n &END MD\n&END MOTION\n", {"MOTION->MD->THERMOSTAT->CSVR": {"data": {"TIMECON": 0.0, "FLAG": None, "APPEND": False}}}, None),
    ("&MOTION\n &MD\n  STEPS 10\n &END MD\n&END MOTION\n", {"EXT": {"data": {"K": 0, "F": False, "E": "", "Z": "0", "R": 0.0}}}, None),
    ("&MOTION\n &MD\n  STEPS 10\n &END MD\n&END MOTION\n", {"MOTION->MD": {"data": {"STEPS": 0}}}, None),
    ("&MOTION\n &MD\n  STEPS 10\n &END MD\n&END MOTION\n", {"MOTION->MD": {"data": {"K": ""}}}, None),
    ("&MOTION\n &MD\n  STEPS 10\n &END MD\n&END MOTION\n", {"MOTION->MD": {"data": {"STEPS": "", "K": False, "Z": "0", "R": 0.0}}}, None),
    ("&MOTION\n &MD\n  STEPS 10\n &END MD\n&END MOTION\n", {"MOTION->MD": {"data": {"K": False}}, "MOTION->NEW": {"data": {"K": False}, "settings": ["S"]}}, None),
    ("&MOTION\n &MD\n  STEPS 10\n &END MD\n&END MOTION\n", {"MOTION->PRINT->RESTART": {"data": ["BACKUP_COPIES 0"], "replace": True}}, None),
    ("", {"ROOT": {"data": {"K": 0}}}, None),
    ("&\n", None, None), ("&END\n", None, None), ("&A\n&ENDPOINT\n X 1\n&END\n", None, None), ("& END\n&END\n", None, None),
    ("", {"NEW->SUB": {"data": {"K": "1"}}}, None), ("X 1\n", {}, []),
]


DEFERRED: list = []


# --------------------------------------------------------------------------- run / replay
def _one(C, tmp, ctx, text, update, remove, lines, pending, origin):
    r, fails, tags = check_case(C, tmp, text, update, remove)
    r2, fails_b = check_idempotent(C, tmp, r, update, remove, tags)
    rep = {"part": PART, "template": text, "update": enc_update(update), "remove": remove}
    if keys_collide_up_to_case(update) and (fails or fails_b):
        # judged after the model comparison: dropped iff the code is the repaired variant on this very input
        DEFERRED.append((len(pending) if "text" in r.rec else None, fails + fails_b, rep, 3))
    else:
        for sig, what in fails + fails_b:
            ctx.fail(sig, what, rep)
    branch = "error" if r.err else ("ambiguous" if "ambiguous-address" in tags else
                                    "partial-triple" if "partial-triple" in tags else "edited")
    ctx.count(1, branch=f"cp2k-{origin}-{branch}")
    if r.err is None and (update or remove):
        ctx.distinct(("cp2k", text, repr(update), repr(remove)))
    # model requests
    lines.append("cp2kread " + hexs(text))
    pending.append(({"fn": "read_cp2k_input", "template": text}, r.read_canon))
    # hypothesis of Lean cp2k_print_read_roundtrip, discharged on every text seen: the trees the reader builds are
    # `Tree.ok`, and the arena printer agrees with the tree printer on the state that was read
    if isinstance(r.read_canon, str) and not r.read_canon.startswith("err:"):
        lines.append("cp2kspec " + hexs(text))
        pending.append(({"fn": "read_cp2k_input: parsed trees are Tree.ok, printText = printForest", "template": text},
                        spec_expected(text)))
        if r.err is None and r.out_text is not None and isinstance(r.out_canon, str) and not r.out_canon.startswith("reread-"):
            lines.append("cp2kspec " + hexs(r.out_text))
            pending.append(({"fn": "update_cp2k_input output: parsed trees are Tree.ok, printText = printForest",
                             "template": r.out_text}, spec_expected(r.out_text)))
    if "text" in r.rec:
        lines.append(edit_line("cp2kupdate", r.rec["text"], update, remove))
        pending.append(({"fn": "update_cp2k_input", "template(observed sibling order)": r.rec["text"],
                         "update": enc_update(update), "remove": remove}, r.answer()))
    if r2 is not None and "text" in r2.rec:
        lines.append(edit_line("cp2kupdate", r2.rec["text"], update, remove))
        pending.append(({"fn": "update_cp2k_input(second application)", "template(observed sibling order)": r2.rec["text"],
                         "update": enc_update(update), "remove": remove}, r2.answer()))
    return r


def spec_expected(text):
    """what op cp2kspec must answer for a text that parses: every tree the reader builds is `Tree.ok` — except when a
    section header is written with white space after the '&' and a name that starts with "end" (`& END`, `& Endpoint`):
    the reader then opens a section whose printed header `&END…` reads back as a section END (malformed input; the
    round-trip theorem does not speak about it)"""
    import re
    for line in re.split(r"\r\n|\r|\n", text):
        st = line.strip()
        if st.startswith("&") and not st[1:].lower().startswith("end"):
            toks = st[1:].split()
            if toks and toks[0].lower().startswith("end"):
                return "not-ok same"
    return "ok same"


def _refkeys(C, tmp, text, lines, pending):
    tpl = os.path.join(tmp, "k.inp")
    with open(tpl, "w", encoding="utf-8", newline="") as f:
        f.write(text)
    try:
        nodes = C.read_cp2k_input(tpl)
    except Exception:  # noqa: BLE001
        return
    alln = all_nodes(nodes)
    order = {id(n): list(n.children) for n in alln}
    otext = ordered_text(nodes, order)
    ref = C.set_parents(nodes)
    items = sorted(hexs(k) + "=" + canon_node(n) for k, n in ref.items())
    lines.append("cp2krefkeys " + hexs(otext))
    pending.append(({"fn": "set_parents", "template(observed sibling order)": otext}, " ".join([str(len(items))] + items)))


def run_part(ctx):
    C = _mod()
    rng = ctx.rng
    tmp = tempfile.mkdtemp(prefix="c19cp2k-", dir="/var/tmp")
    lines, pending = [], []
    try:
        cases = [(t, u, rm, "fixed") for (t, u, rm) in FIXED]
        for name, text in repo_inputs():
            cases.append((text, None, None, "repo"))
            cases.append((text, *engine_like_update(rng), "repo"))
            cases.append((text, *engine_like_update_dict(rng), "repo"))
            for _ in range(20 if ctx.quick else 200):
                # random edits addressed to the file's own sections
                try:
                    p = os.path.join(tmp, "g.inp")
                    open(p, "w").write(text)
                    keys = sorted(C.set_parents(C.read_cp2k_input(p)))
                except Exception:  # noqa: BLE001
                    keys = []
                upd = {}
                for _k in range(rng.randint(1, 3)):
                    tgt = rng.choice(keys) if keys and rng.random() < 0.7 else rng.choice(keys or ["X"]) + "->NEW"
                    upd[tgt] = {"data": {rng.choice(KEYS + ["ABC", "GAMMA", "MD"]): rng.choice(VALS + ODD_VALS)},
                                "replace": rng.random() < 0.3}
                rem = [rng.choice(keys)] if keys and rng.random() < 0.5 else None
                cases.append((text, upd, rem, "repo"))
        n_rand = 700 if ctx.quick else 9000
        for _ in range(n_rand):
            roots = [gen_tree(rng, 0, rng.choice((0, 1, 2, 2, 3))) for _ in range(rng.choice((1, 1, 2, 3)))]
            text = render(rng, roots, malformed=rng.random() < 0.15)
            upd, rem = gen_update(rng, roots)
            cases.append((text, upd, rem, "random"))
        for k, (text, upd, rem, origin) in enumerate(cases):
            r = _one(C, tmp, ctx, text, upd, rem, lines, pending, origin)
            if k % 7 == 0:
                _refkeys(C, tmp, text, lines, pending)
            if k % 5 == 0:
                # internal-state observation only (stale node_ref keys after remove_node): update_cp2k_input
                # removes after all updates, so the edited FILE cannot show it — not a property failure.
                for sig, what, key in check_removed_children(C, tmp, text):
                    ctx.hit("cp2k:note:removed-children-stay-addressable(api-level,not-a-violation)")
                ctx.count(1, branch="cp2k-remove-api")
            if k % 197 == 3:
                ctx.sample({"part": PART, "template": text, "update": upd, "remove": rem, "code": r.answer()})
        if ctx._driver_ok:
            out = ctx.driver(lines)
            from props import c19_variant as V
            # which error a re-read of a malformed OUTPUT hits first depends on the printed sibling
            # order (Python set order in the code, insertion order in the model): compare the fact only.
            # ops that run the editor are compared with the asIs AND the repaired variant (open finding keyword-case)
            status = V.settle(ctx, PART, [(case, code, line, model) for (case, code), line, model in zip(pending, lines, out)],
                              same=lambda c, m: c == m or (str(c).startswith("reread-err:") and str(m).startswith("reread-err:")))
        else:
            status = {}
        for idx, fl, rep, _ in DEFERRED:
            # position of this case's `cp2kupdate` line among the requests: after cp2kread (+ up to two cp2kspec)
            sts = []
            for j in range(idx, min(idx + 5, len(lines))) if idx is not None else ():
                if j > idx and lines[j].startswith(("cp2kread ", "cp2krefkeys ")):
                    break                                  # the next case
                if lines[j].startswith("cp2kupdate "):   # first and second application of this case
                    sts.append(status.get(j))
            if "repaired" in sts and all(x in ("repaired", "same") for x in sts):
                ctx.hit("cp2k:ambiguous-request(keys equal up to case):repaired-variant")
                continue
            for sig, what in fl:
                ctx.fail(sig, what, rep)
        DEFERRED.clear()
        if ctx._driver_ok:
            ctx.hit("cp2k-model-comparisons", len(lines))
    finally:
        shutil.rmtree(tmp, ignore_errors=True)
    ctx.assumptions += [
        "cp2k part: ASCII templates; update values are sent to the model as str(value); settings lists are fresh objects "
        "(no aliasing between update entries); an update entry either has no \"settings\" key or a list",
        "cp2k part: replace=True together with dict data carrying values is excluded from the idempotence predicate "
        "(replace-mode data is documented as already formatted lines)",
        "cp2k part: sibling order of a SectionNode's children (a Python set) is observed at run time and handed to the "
        "model; all outputs are compared as section trees with children sorted recursively",
    ]
    return ("cp2k: 30 fixed boundary templates (incl. zero / False / empty-string values for created and existing sections); every ASCII *.inp under /repo/examples and /repo/test unchanged, with the "
            "engine's own update dict and with random edits of its sections; seeded random templates from a section grammar "
            "(depth ≤ 3, 2- and 3-member duplicate-title groups with equal/distinct settings, comment/data lines, blank "
            "lines, mixed case, CRLF, 15 % malformed: lone '&', stray/missing &END, &ENDPOINT, '& X', stray data) with "
            "random update dicts (present / duplicate-suffixed / bare-duplicate / absent targets with missing parents, "
            "replace, settings, dict data with None / int / 0 / 0.0 / False / \"\" / \"0\" values, list data) and remove lists; distinct by "
            "(template, update, remove) of the edits that did not raise; targets with an ambiguous address are excluded "
            "from the exactness predicates")


def replay_part(ctx, obj):
    r = obj.get("replay", obj)
    if r.get("part") != PART:
        return None
    C = _mod()
    tmp = tempfile.mkdtemp(prefix="c19cp2k-", dir="/var/tmp")
    try:
        if r.get("api") == "remove_node":
            fails = check_removed_children(C, tmp, r["template"])
            for f in fails:
                print(f[0], f[1])
            return 1 if fails else 0
        upd = dec_update(r.get("update"))
        res, fails, tags = check_case(C, tmp, r["template"], upd, r.get("remove"))
        _, fb = check_idempotent(C, tmp, res, upd, r.get("remove"), tags)
        print("code:", res.answer())
        for sig, what in fails + fb:
            print(sig, what)
        want = obj.get("signature")
        sigs = [s for s, _ in fails + fb]
        if want:
            return 1 if want in sigs else 0
        return 1 if sigs else 0
    finally:
        shutil.rmtree(tmp, ignore_errors=True)
