"""C19, part "hard" — call history, purity/aliasing, boundaries (HARDENING.md a–e), tie-only.

The Lean models are functions of the current bytes / arguments, so "no hidden state" is a statement about the code
only: every codec / reader / editor is called in SEQUENCES — the same file NAME rewritten with different content
(precision, atom count, frame count, box form, with/without velocities), two files interleaved, output path == input
path — and each answer is compared with (1) the same call on a fresh, never-used path, (2) the model applied to the
current bytes (driver ops trrframe, g96read, xyzread, lmpread, mdpmodify, wfr), (3) the values that were written.
Arguments are deep-compared before/after each call, results are mutated and the call repeated.

Signatures:  C19:state:<fn>            an answer depends on earlier calls / on the file name
             C19:purity:<fn>           an argument was modified, or a result aliases an argument / a module buffer
             C19:boundary:<what>       last frame, beyond-end, widest fields, zero components, empty title, ...
"""
from __future__ import annotations

import copy
import os
import shutil
import tempfile
import types
import warnings

from common import err_kind, hexs

from props import c19_box, c19_codec as CC, c19_lmp as CL, c19_tmpl as CT

PART = "hard"


def _np():
    import numpy as np
    return np


class Rec:
    """per-signature smallest failing input"""

    def __init__(self):
        self.fails = {}

    def add(self, sig, what, replay, size=0):
        cur = self.fails.get(sig)
        if cur is None or size < cur[0]:
            self.fails[sig] = (size, what, replay, (cur[3] if cur else 0) + 1)
        else:
            self.fails[sig] = (cur[0], cur[1], cur[2], cur[3] + 1)

    def flush(self, ctx):
        for sig in sorted(self.fails):
            size, what, replay, n = self.fails[sig]
            ctx.fail(sig, f"{what} [{n} failing inputs this run; smallest shown]", replay)


def fresh(d, ext, counter=[0]):
    counter[0] += 1
    return os.path.join(d, f"fresh{counter[0]}{ext}")


def put(path, data):
    with open(path, "wb") as f:
        f.write(data)


def same_arr(np, a, b):
    if a is None or b is None:
        return a is None and b is None
    a, b = np.asarray(a), np.asarray(b)
    return a.shape == b.shape and a.dtype == b.dtype and a.tobytes() == b.tobytes()


# ------------------------------------------------------------------------------------------------ TRR
def trr_sequences(ctx, rec, d, lines, checks):
    np, lammps, gromacs = CL._imports()
    rng = ctx.rng
    P = [os.path.join(d, "same.trr"), os.path.join(d, "other.trr")]
    content = [None, None]
    rounds = 10 if ctx.quick else 120
    for r in range(rounds):
        which = r % 2 if r % 3 else 0
        nfr = rng.choice((1, 1, 2, 3, 4))
        frames = []
        for _ in range(nfr):
            lf = CL._gen_lframe(rng)
            frames.append((lf, rng.choice("<>"), rng.random() < 0.5))
        blob = b"".join(CL._pack_frame(lf, e, dbl) for lf, e, dbl in frames)
        put(P[which], blob)
        content[which] = (frames, blob)
        # interleave: query both files alternately, including index 0, the last frame and one beyond the end
        for w in (which, 1 - which, which):
            if content[w] is None:
                continue
            fr, bl = content[w]
            for k in sorted({0, len(fr) - 1, len(fr)}):
                got, h, data = CL._code_frame(np, gromacs, P[w], k)
                fp = fresh(d, ".trr")
                put(fp, bl)
                want, _, _ = CL._code_frame(np, gromacs, fp, k)
                os.remove(fp)
                replay = {"part": PART, "kind": "trr-seq", "round": r, "index": k, "nframes": len(fr)}
                ctx.count(1, branch="hard:trr-same-name")
                if got != want:
                    rec.add("C19:state:read_trr_frame", f"frame {k} of a file name rewritten with new content: {got[:120]} "
                            f"but a fresh path with the same bytes gives {want[:120]}", replay, len(bl))
                if k < len(fr):
                    if not CL._matches_logical(np, fr[k][0], h, data):
                        rec.add("C19:state:read_trr_frame", f"frame {k} read from a rewritten file name is not frame {k} "
                                "of its current content", replay, len(bl))
                elif got != "none":
                    rec.add("C19:boundary:trr-beyond-end", f"index {k} == number of frames gives {got[:80]}, expected (None, None)",
                            replay, len(bl))
                lines.append(f"trrframe {k} {hexs(bl)}")
                checks.append((got, {"fn": "read_trr_frame(same name)", **replay}))
                if data is not None and "x" in data and k < len(fr):   # result must not alias a module buffer
                    data["x"][...] = 12345.0
                    again, _, _ = CL._code_frame(np, gromacs, P[w], k)
                    if again != got:
                        rec.add("C19:purity:read_trr_frame", "mutating the returned positions changes the next read", replay, len(bl))
    # _extract_frame: same TRR name and same g96 output name, rewritten; forces present, velocities optional
    T, O = os.path.join(d, "ext.trr"), os.path.join(d, "ext.g96")
    for r in range(8 if ctx.quick else 80):
        n = rng.choice((1, 1, 2, 3))
        nfr = rng.choice((1, 2, 3))
        frames = []
        for _ in range(nfr):
            box = [rng.choice((0, rng.randint(1, 99))) * 0.125 for _ in range(9)]
            x = [rng.randint(-400, 400) * 0.125 for _ in range(3 * n)]
            v = [rng.choice((0.0, -0.0, rng.randint(-400, 400) * 0.125)) for _ in range(3 * n)] if rng.random() < 0.6 else None
            f = [rng.randint(-400, 400) * 0.125 for _ in range(3 * n)] if rng.random() < 0.5 else None   # forces present
            frames.append((box, x, v, f))
        endian, dbl = rng.choice("<>"), rng.random() < 0.5
        blob = c19_box.pack_trr(frames, endian, dbl)
        put(T, blob)
        raw = {"TITLE": [""] if r % 2 else ["t"], "POSITION": ["%5d SOL   OW%9d" % (i + 1, i + 1) for i in range(n)],
               "VELOCITY": ["%5d SOL   OW%9d" % (i + 1, i + 1) for i in range(n)], "BOX": ["b"]}
        raw0 = copy.deepcopy(raw)
        for k in sorted({0, nfr - 1}):
            replay = {"part": PART, "kind": "trr-extract", "frames": frames, "endian": endian, "double": dbl, "index": k}
            ctx.count(1, branch="hard:trr-extract-same-name")
            try:
                gromacs.GromacsEngine._extract_frame(types.SimpleNamespace(top=raw), T, k, O)
                got = open(O, "rb").read()
                ft, fo = fresh(d, ".trr"), fresh(d, ".g96")
                put(ft, blob)
                gromacs.GromacsEngine._extract_frame(types.SimpleNamespace(top=copy.deepcopy(raw0)), ft, k, fo)
                want = open(fo, "rb").read()
                _, xyz, vel, gbox = gromacs.read_gromos96_file(O)
            except Exception as e:  # noqa: BLE001
                rec.add("C19:state:_extract_frame", f"extraction raised {type(e).__name__}: {e}", replay, len(blob))
                continue
            box, x, v = frames[k][0], frames[k][1], frames[k][2]
            if got != want:
                rec.add("C19:state:_extract_frame", "extraction into a reused output name differs from a fresh one", replay, len(blob))
            if [float(a) for a in np.asarray(xyz).ravel()] != x or c19_box.g96_to_matrix([float(b) for b in gbox]) != \
                    c19_box.rows([box[0:3], box[3:6], box[6:9]]) or (v is not None and [float(a) for a in np.asarray(vel).ravel()] != v):
                rec.add("C19:state:_extract_frame", f"frame {k} extracted from a rewritten TRR name is not frame {k}", replay, len(blob))
            if raw != raw0:
                rec.add("C19:purity:_extract_frame", "the topology dict (self.top) was modified", replay, len(blob))
        # beyond the end: defined error (ValueError), never a stale frame
        try:
            gromacs.GromacsEngine._extract_frame(types.SimpleNamespace(top=raw), T, nfr, O)
            rec.add("C19:boundary:trr-beyond-end", f"_extract_frame index {nfr} of {nfr} frames did not raise",
                    {"part": PART, "kind": "trr-extract", "frames": frames, "endian": endian, "double": dbl, "index": nfr}, len(blob))
        except ValueError:
            pass
        except Exception as e:  # noqa: BLE001
            rec.add("C19:boundary:trr-beyond-end", f"_extract_frame beyond the end raised {type(e).__name__}", {"part": PART}, len(blob))


# ------------------------------------------------------------------------------------------------ g96 / xyz
def text_sequences(ctx, rec, d, lines, checks):
    np = _np()
    gromacs, engineparts, cp2k = CC._eng()
    rng = ctx.rng
    G, X = os.path.join(d, "same.g96"), os.path.join(d, "same.xyz")
    for r in range(12 if ctx.quick else 150):
        case = CC.gen_g96(rng)
        if r % 4 == 0:      # boundaries: widest fields, zero components, empty title line
            n = len(case["xyz"])
            wide = [[0, 99999999999999], [1, 9999999999999], [0, 0]]
            case["xyz"] = [[list(rng.choice(wide)) for _ in range(3)] for _ in range(n)]
            case["vel"] = [[[rng.choice((0, 1)), 0] for _ in range(3)] for _ in range(n)]
            case["box"] = [[0, 0] if i % 2 else [0, 9999999999999] for i in range(len(case["box"]))]
            case["title"] = [""]
        xyz, vel, box = CC.arr(case["xyz"]), CC.arr(case["vel"]), np.array([CC.d2f(b) for b in case["box"]])
        raw = {"TITLE": list(case["title"]), "POSITION": list(case["txts"]), "VELOCITY": list(case["txts"]), "BOX": ["b"]}
        keep = (copy.deepcopy(raw), xyz.copy(), vel.copy(), box.copy())
        replay = {"part": PART, "kind": "g96-seq", "case": case}
        ctx.count(1, branch="hard:g96-same-name")
        try:
            gromacs.write_gromos96_file(G, raw, xyz, vel, box)
            data = open(G, "rb").read()
            got = CC.g96_read_code(gromacs, G)
            fp = fresh(d, ".g96")
            put(fp, data)
            want = CC.g96_read_code(gromacs, fp)
            res = gromacs.read_gromos96_file(G)
        except Exception as e:  # noqa: BLE001
            rec.add("C19:state:g96", f"write/read raised {type(e).__name__}: {e}", replay, len(case["xyz"]))
            continue
        if not (raw == keep[0] and same_arr(np, xyz, keep[1]) and same_arr(np, vel, keep[2]) and same_arr(np, box, keep[3])):
            rec.add("C19:purity:write_gromos96_file", "an argument of the writer was modified", replay, len(case["xyz"]))
        if got != want:
            rec.add("C19:state:g96", "reading a rewritten file name differs from reading a fresh path with the same bytes", replay, len(case["xyz"]))
        # (labels are compared through the model: the reader rstrips lines, an all-blank label cannot come back padded)
        if not (CC.rows_eq(res[1], case["xyz"]) and CC.rows_eq(res[2], case["vel"]) and res[3] is not None
                and [CC.nz(CC.f2d(b)) for b in res[3]] == [CC.nz(tuple(b)) for b in case["box"]]
                and res[0]["TITLE"] == case["title"]):
            rec.add("C19:boundary:g96-roundtrip" if r % 4 == 0 else "C19:state:g96",
                    "values read back from the rewritten file name are not the values just written", replay, len(case["xyz"]))
        lines.append("g96read " + hexs(data))
        checks.append((got, {"fn": "read_gromos96_file(same name)", **{"part": PART, "kind": "g96-seq"}}))
        if len(case["xyz"]):
            res[1][...] = 4321.0
            if CC.g96_read_code(gromacs, G) != got:
                rec.add("C19:purity:read_gromos96_file", "mutating the returned positions changes the next read", replay, len(case["xyz"]))
        # ---- xyz on the same name: number of frames, atoms, box form all vary
        nfr = rng.choice((1, 1, 2, 3))
        cases = [CC.gen_xyz(rng, allow_zero=False, plain=True) for _ in range(nfr)]
        if r % 4 == 1:
            for c in cases:
                c["box"] = [[0, 0], [0, 10000], [1, 0]] if c["box"] is None else [[0, 0] for _ in c["box"]]
                c["vel"] = [[[1, 0], [0, 0], [1, 0]] for _ in c["pos"]]
        replayx = {"part": PART, "kind": "xyz-seq", "cases": cases}
        ctx.count(1, branch="hard:xyz-same-name")
        try:
            for i, c in enumerate(cases):
                pos, velx = CC.arr(c["pos"]), CC.arr(c["vel"])
                bx = None if c["box"] is None else np.array([CC.d2f(b, 4) for b in c["box"]])
                names = None if c["names"] is None else list(c["names"])
                k0 = (pos.copy(), velx.copy(), None if bx is None else bx.copy(), None if names is None else list(names))
                engineparts.write_xyz_trajectory(X, pos, velx, names, bx, step=None, append=(i > 0))
                if not (same_arr(np, pos, k0[0]) and same_arr(np, velx, k0[1]) and same_arr(np, bx, k0[2]) and names == k0[3]):
                    rec.add("C19:purity:write_xyz_trajectory", "an argument of the writer was modified", replayx, len(pos))
            datax = open(X, "rb").read()
            frames, gotx = CC.xyz_read_code(engineparts, X)
            fp = fresh(d, ".xyz")
            put(fp, datax)
            _, wantx = CC.xyz_read_code(engineparts, fp)
        except Exception as e:  # noqa: BLE001
            rec.add("C19:state:xyz", f"write/read raised {type(e).__name__}: {e}", replayx, 0)
            continue
        if gotx != wantx or len(frames) != nfr:
            rec.add("C19:state:xyz", f"{len(frames)} frames read from a file name rewritten with {nfr} frames, or the answer "
                    "differs from a fresh path with the same bytes", replayx, len(datax))
        else:
            try:
                for k in sorted({0, nfr - 1}):
                    bx, xyzr, velr, namesr = engineparts.convert_snapshot(frames[k])
                    c = cases[k]
                    if not (CC.rows_eq(xyzr, c["pos"]) and CC.rows_eq(velr, c["vel"]) and list(namesr) == list(c["names"])
                            and ((bx is None) == (c["box"] is None))
                            and (bx is None or [CC.nz(CC.f2d(b, 4)) for b in bx] == [CC.nz(tuple(b)) for b in c["box"]])):
                        rec.add("C19:state:xyz", f"frame {k} of the rewritten file name is not frame {k} as written", replayx, len(datax))
                    xyzr[...] = 77.0   # the snapshot must still convert to the same values
                    bx2, xyz2, _, _ = engineparts.convert_snapshot(frames[k])
                    if not CC.rows_eq(xyz2, c["pos"]):
                        rec.add("C19:purity:convert_snapshot", "mutating a converted snapshot changes the next conversion", replayx, len(datax))
                # extraction of the last frame and beyond the end through the engine method (same output name)
                O = os.path.join(d, "ext.xyz")
                ns = CC.cp2k_ns(cp2k)
                for k in (nfr - 1, nfr):
                    if os.path.exists(O):
                        os.remove(O)
                    cp2k.CP2KEngine._extract_frame(ns, X, k, O)
                    if k == nfr:
                        if os.path.exists(O):
                            rec.add("C19:boundary:xyz-beyond-end", f"index {k} == number of frames wrote a file", replayx, len(datax))
                    else:
                        one = fresh(d, ".xyz")
                        CC.xyz_write_code(engineparts, one, cases[k], append=False, plain=True)
                        if open(O, "rb").read() != open(one, "rb").read():
                            rec.add("C19:boundary:xyz-last-frame", f"extracting the last frame ({k}) does not give the bytes of that frame", replayx, len(datax))
            except Exception as e:  # noqa: BLE001
                rec.add("C19:state:xyz", f"convert/extract after re-reading raised {type(e).__name__}: {e}", replayx, len(datax))
        lines.append("xyzread " + hexs(datax))
        checks.append((gotx, {"fn": "read_xyz_file(same name)", "part": PART, "kind": "xyz-seq"}))


# ------------------------------------------------------------------------------------------------ lammpstrj
def lmp_sequences(ctx, rec, d, lines, checks):
    np, lammps, gromacs = CL._imports()
    rng = ctx.rng
    L = os.path.join(d, "same.lammpstrj")
    for r in range(10 if ctx.quick else 120):
        n = rng.randint(2, 5)
        nfr = rng.choice((1, 2, 3))
        frames = [CL._gen_frame(rng, n, True) for _ in range(nfr)]
        if r % 3 == 0:
            for fr in frames:      # zero components and signed zeros
                fr["atoms"] = [(a[0], a[1], [0.0, a[2][1], 0.0], [0.0, -0.0, 0.0]) for a in fr["atoms"]]
                fr["box"] = [[0.0, b[1] - b[0]] for b in fr["box"]]
        replay = {"part": PART, "kind": "lmp-seq", "n": n, "frames": frames}
        ctx.count(1, branch="hard:lmp-same-name")
        try:
            for k, fr in enumerate(frames):
                it, pos, vel, box = CL._frame_arrays(np, fr)
                k0 = (it.copy(), pos.copy(), vel.copy(), box.copy())
                lammps.write_lammpstrj(L, it, pos, vel, box, append=(k > 0))
                if not (same_arr(np, it, k0[0]) and same_arr(np, pos, k0[1]) and same_arr(np, vel, k0[2]) and same_arr(np, box, k0[3])):
                    rec.add("C19:purity:write_lammpstrj", "an argument of the writer was modified (id order, positions, box)", replay, n)
            data = open(L, "rb").read()
        except Exception as e:  # noqa: BLE001
            rec.add("C19:state:lammpstrj", f"write raised {type(e).__name__}: {e}", replay, n)
            continue
        fp = fresh(d, ".lammpstrj")
        put(fp, data)
        for k in sorted({0, nfr - 1, nfr}):
            got, arrs = CL._read_code(np, lammps, L, k, n)
            want, _ = CL._read_code(np, lammps, fp, k, n)
            if got != want:
                rec.add("C19:state:lammpstrj", f"frame {k} of a rewritten file name differs from a fresh path with the same bytes", replay, n)
            if k < nfr:
                it, pos, vel, box = arrs
                exp = {a[0]: (a[1], a[2], a[3]) for a in frames[k]["atoms"]}
                ok = [int(i) for i in it[:, 0]] == sorted(exp) and all(
                    int(t[1]) == exp[int(t[0])][0] and [float(v) for v in x] == [float(v) for v in exp[int(t[0])][1]]
                    and [float(v) for v in w] == [float(v) for v in exp[int(t[0])][2]] for t, x, w in zip(it, pos, vel))
                ok = ok and [[float(a), float(b)] for a, b in box] == [[float(a), float(b)] for a, b in frames[k]["box"]]
                if not ok:
                    rec.add("C19:state:lammpstrj", f"frame {k} of the rewritten file name is not frame {k} as written", replay, n)
                lines.append(f"lmpread {n} {k} {hexs(data)}")
                checks.append((got, {"fn": "read_lammpstrj(same name)", "part": PART, "kind": "lmp-seq", "index": k}))
                pos[...] = 9.0
                if CL._read_code(np, lammps, L, k, n)[0] != got:
                    rec.add("C19:purity:read_lammpstrj", "mutating the returned positions changes the next read", replay, n)
            elif got.startswith("ok"):
                rec.add("C19:boundary:lammpstrj-beyond-end", f"index {k} == number of frames returned a frame", replay, n)
        # _read_configuration twice: shift_boxbounds works on the freshly read arrays only
        ns = types.SimpleNamespace(n_atoms=n)
        try:
            with warnings.catch_warnings():
                warnings.simplefilter("ignore")
                a = lammps.LAMMPSEngine._read_configuration(ns, L)
                b = lammps.LAMMPSEngine._read_configuration(ns, L)
            if not (same_arr(np, a[0], b[0]) and same_arr(np, a[1], b[1]) and same_arr(np, a[2], b[2])):
                rec.add("C19:state:lammpstrj", "_read_configuration twice on the same file gives different arrays", replay, n)
        except Exception as e:  # noqa: BLE001
            rec.add("C19:state:lammpstrj", f"_read_configuration raised {type(e).__name__}: {e}", replay, n)
        # extra columns (the repo's own dump format ends with a second id column): same values
        fr = frames[0]
        text = f"ITEM: TIMESTEP\n0\nITEM: NUMBER OF ATOMS\n{n}\nITEM: BOX BOUNDS pp pp pp\n"
        text += "".join(f"{CL._tok(b[0])} {CL._tok(b[1])}\n" for b in fr["box"]) + "ITEM: ATOMS id type x y z vx vy vz id\n"
        for a in fr["atoms"]:
            text += " ".join([str(a[0]), str(a[1])] + [CL._tok(v) for v in a[2]] + [CL._tok(v) for v in a[3]] + [str(a[0])]) + "\n"
        put(L, text.encode())
        got, arrs = CL._read_code(np, lammps, L, 0, n)
        ctx.count(1, branch="hard:lmp-extra-column")
        if arrs is None or [int(i) for i in arrs[0][:, 0]] != sorted(a[0] for a in fr["atoms"]) or \
                sorted([float(v) for v in x] for x in arrs[1]) != sorted([float(v) for v in a[2]] for a in fr["atoms"]):
            rec.add("C19:boundary:lammpstrj-extra-column", "a dump with a trailing id column is not read back with the same ids/positions",
                    {"part": PART, "kind": "lmp-extra", "text": text, "n": n}, n)


# ------------------------------------------------------------------------------------------------ editors
def canon_cp2k(nodes):
    def c(n):
        return (n.title, tuple(n.settings), tuple(n.data), tuple(sorted(c(k) for k in n.children)))
    return sorted(c(n) for n in nodes)


def editor_sequences(ctx, rec, d, lines, checks):
    EngineBase, write_for_run = CT._imports()
    _, _, cp2k = CC._eng()
    rng = ctx.rng
    P, O = os.path.join(d, "tmpl.in"), os.path.join(d, "tmpl.out")

    def text_of(p):
        with open(p, encoding="utf-8", newline="") as f:
            return f.read()

    def wtext(p, t):
        with open(p, "w", encoding="utf-8", newline="") as f:
            f.write(t)

    for r in range(40 if ctx.quick else 600):
        # --- mdp: same template name and same output name, different content and requests
        t = "".join(rng.choice(CT.MDP_LINES) for _ in range(rng.randint(0, 6)))
        if t and rng.random() < 0.3:
            t = t[:-1]
        s = {k: rng.choice(CT.MDP_VALS) for k in rng.sample([k for k in CT.MDP_KEYS if k], rng.randint(0, 3))}
        s0 = copy.deepcopy(s)
        wtext(P, t)
        ctx.count(1, branch="hard:mdp-same-name")
        replay = {"part": PART, "kind": "mdp-seq", "template": t, "settings": {k: repr(v) for k, v in s.items()}}
        try:
            EngineBase._modify_input(P, O, s, delim="=")
            got = text_of(O)
            fp, fo = fresh(d, ".in"), fresh(d, ".out")
            wtext(fp, t)
            EngineBase._modify_input(fp, fo, copy.deepcopy(s0), delim="=")
            want = text_of(fo)
            EngineBase._modify_input(fp, fo, s, delim="=")      # the same dict object reused
            again = text_of(fo)
        except Exception as e:  # noqa: BLE001
            rec.add("C19:state:_modify_input", f"raised {type(e).__name__}: {e}", replay, len(t))
            continue
        if s != s0 or [type(v) for v in s.values()] != [type(v) for v in s0.values()]:
            rec.add("C19:purity:_modify_input", "the settings dict was modified", replay, len(t))
        if got != want or again != want or text_of(P) != t:
            rec.add("C19:state:_modify_input", "editing a rewritten template name / reusing the settings dict gives a different file, "
                    "or the template itself was changed", replay, len(t))
        if CT.mdp_clean_settings(s0):
            pr = CT.mdp_predicates(_box(d), EngineBase, t, s0, out=got)
            if pr is not None:
                rec.add(pr[0], pr[1] + " (same-name sequence)", {"part": "tmpl", "fn": "mdp", "template": t,
                                                                 "settings": {a: str(b) for a, b in s0.items()}}, len(t))
        lines.append(f"mdpmodify {CT.hexs(t)} {CT.sett_tokens(s0)}")
        checks.append((CT.hexs(got), {"fn": "_modify_input(same name)", "part": PART, "kind": "mdp-seq", "template": t}))
        # --- LAMMPS
        t2 = "".join(rng.choice(CT.LMP_LINES) for _ in range(rng.randint(0, 6)))
        s2 = {k: rng.choice(CT.LMP_VALS) for k in rng.sample(CT.LMP_KEYS, rng.randint(0, 4))}
        s20 = copy.deepcopy(s2)
        wtext(P, t2)
        ctx.count(1, branch="hard:lammps-same-name")
        replay2 = {"part": PART, "kind": "lmp-edit-seq", "template": t2, "settings": {k: repr(v) for k, v in s2.items()}}

        def run_wfr(src, out, sett):
            if os.path.exists(out):
                os.remove(out)
            try:
                write_for_run(src, out, sett)
                st = "ok"
            except Exception as e:  # noqa: BLE001
                st = err_kind(e)
            return st, (text_of(out) if os.path.exists(out) else None)

        got2 = run_wfr(P, O, s2)
        fp, fo = fresh(d, ".in"), fresh(d, ".out")
        wtext(fp, t2)
        want2 = run_wfr(fp, fo, copy.deepcopy(s20))
        again2 = run_wfr(fp, fo, s2)
        if s2 != s20 or [type(v) for v in s2.values()] != [type(v) for v in s20.values()]:
            rec.add("C19:purity:write_for_run", "the settings dict was modified", replay2, len(t2))
        if got2 != want2 or again2 != want2 or text_of(P) != t2:
            rec.add("C19:state:write_for_run", "editing a rewritten template name / reusing the settings dict gives a different result, "
                    "or the template itself was changed", replay2, len(t2))
        lines.append(f"wfr {CT.hexs(t2)} {CT.sett_tokens(s20)}")
        checks.append((f"{got2[0]} {CT.hexs(got2[1] or '')}", {"fn": "write_for_run(same name)", "part": PART, "kind": "lmp-edit-seq", "template": t2}))
    # --- CP2K: same template name edited twice with different requests; output path == input path; dict purity
    tpls = ["&MOTION\n &MD\n  STEPS 10\n &END MD\n&END MOTION\n", "&A X\n K 1\n &B\n  V 2\n &END B\n&END A\n&G\n P q\n&END G\n", ""]
    upds = [{"MOTION->MD": {"data": {"STEPS": 0, "TIMESTEP": 0.0}}, "MOTION->PRINT->RESTART": {"data": {"BACKUP_COPIES": 0}}},
            {"A": {"settings": ["Y"], "data": {"K": "", "NEW": None}}, "G": {"data": ["R s"], "replace": True}},
            {"NEWROOT": {"data": {"F": False}}, "A->B": {"data": {"V": "0"}}}]
    for r in range(9 if ctx.quick else 60):
        t = tpls[r % 3] if r < 9 else rng.choice(tpls)
        u = upds[(r // 3) % 3] if r < 9 else rng.choice(upds)
        rem = ["G"] if r % 4 == 3 else None
        u0 = copy.deepcopy(u)
        wtext(P, t)
        replay = {"part": PART, "kind": "cp2k-seq", "template": t, "update": repr(u), "remove": rem}
        ctx.count(1, branch="hard:cp2k-same-name")
        try:
            cp2k.update_cp2k_input(P, O, update=u, remove=rem)
            got = canon_cp2k(cp2k.read_cp2k_input(O))
            fp, fo = fresh(d, ".inp"), fresh(d, ".out")
            wtext(fp, t)
            cp2k.update_cp2k_input(fp, fo, update=copy.deepcopy(u0), remove=rem)
            want = canon_cp2k(cp2k.read_cp2k_input(fo))
            cp2k.update_cp2k_input(fp, fo, update=u, remove=rem)           # same dict object reused
            again = canon_cp2k(cp2k.read_cp2k_input(fo))
            cp2k.update_cp2k_input(fp, fp, update=copy.deepcopy(u0), remove=rem)   # output path == input path
            inplace = canon_cp2k(cp2k.read_cp2k_input(fp))
        except Exception as e:  # noqa: BLE001
            rec.add("C19:state:update_cp2k_input", f"raised {type(e).__name__}: {e}", replay, len(t))
            continue
        if u != u0:
            rec.add("C19:purity:update_cp2k_input", f"the update dict was modified: {u!r} (was {u0!r})", replay, len(t))
        if not (got == want == again == inplace):
            rec.add("C19:state:update_cp2k_input", "same request on a rewritten template name / reused dict / in place gives different trees",
                    replay, len(t))
    # output path == input path for the two line editors: the code opens the output for writing before it has read the
    # input, so the template is lost. Recorded (INPLACE note), not judged here: see the report / coordinator decision.
    wtext(P, "a = 1\nb = 2\n")
    try:
        EngineBase._modify_input(P, P, {"b": 3}, delim="=")
        ctx.hit("hard:note:_modify_input(in==out) gives " + repr(text_of(P)))
    except Exception as e:  # noqa: BLE001
        ctx.hit("hard:note:_modify_input(in==out) raises " + type(e).__name__)


_BOX = {}


def _box(d):
    b = _BOX.get(d)
    if b is None:
        b = CT.Box.__new__(CT.Box)
        b.dir = d
        b.src, b.out, b.out2 = (os.path.join(d, n) for n in ("p_in.txt", "p_out.txt", "p_out2.txt"))
        _BOX.clear()
        _BOX[d] = b
    return b


def run_part(ctx):
    d = tempfile.mkdtemp(prefix="c19hard-", dir="/var/tmp")
    rec = Rec()
    lines, checks = [], []
    try:
        for fn in (trr_sequences, text_sequences, lmp_sequences, editor_sequences):
            try:
                fn(ctx, rec, d, lines, checks)
            except Exception as e:  # noqa: BLE001  (a harness exception must not hide the other scenarios)
                import traceback
                ctx.disagree({"part": PART, "scenario": fn.__name__, "exception": f"{type(e).__name__}: {e}",
                              "trace": traceback.format_exc()[-600:]}, "scenario raised", "no exception")
        if ctx._driver_ok and lines:
            out = ctx.driver(lines)
            for len_seen, ((code, case), ans) in enumerate(zip(checks, out)):
                a = ans
                if case["fn"].startswith("_modify_input"):
                    # asIs or repaired variant of the open finding C19:mdp:dash-underscore-key (see c19_variant.py)
                    ok = a == code or ctx.driver(["mdpmodifyR " + lines[len_seen].split(" ", 1)[1]])[0] == code
                elif case["fn"].startswith("write_for_run"):
                    ok = a == code
                elif case["fn"].startswith("read_trr_frame"):
                    ok = a == code or CL._quiet_nans(a) == CL._quiet_nans(code)
                else:
                    ok = a == code or (a == "err:value" and not str(code).startswith("err"))  # reader model's domain = writer's image
                if not ok:
                    ctx.disagree(case, code, a, note="model applied to the current bytes of a rewritten file name")
        rec.flush(ctx)
    finally:
        shutil.rmtree(d, ignore_errors=True)
        _BOX.clear()
    ctx.assumptions += [
        "part hard is tie-only: the Lean models are functions of the current bytes/arguments, so absence of hidden state "
        "(file-name keyed caches, module buffers, argument mutation) is checked on the real code by call sequences, "
        "fresh-path comparison and the model applied to the current bytes",
        "output path == input path is judged for update_cp2k_input (reads everything before writing); for _modify_input and "
        "write_for_run it is only recorded (the code truncates the file it is reading)",
    ]
    return ("hard: call sequences on ONE file name rewritten with different content (TRR, g96, xyz, lammpstrj, mdp/LAMMPS/CP2K "
            "templates), two TRR files interleaved, reused output names, reused settings dicts, argument deep-compare, result "
            "mutation; indices 0 / last / n_frames; widest g96 fields, zero components, signed zeros, empty title line, "
            "lammpstrj with a trailing column")


def replay_part(ctx, obj):
    r = obj.get("replay", {})
    if r.get("part") != PART:
        return None
    # the sequence scenarios are regenerated from the seed; a recorded failure is re-evaluated by re-running the part
    sub = types.SimpleNamespace(**{k: getattr(ctx, k) for k in ("rng", "quick", "_driver_ok", "seed")})
    fails = []
    sub.count = lambda *a, **k: None
    sub.hit = lambda *a, **k: None
    sub.disagree = lambda *a, **k: None
    sub.fail = lambda sig, what, rp: fails.append(sig)
    sub.driver = ctx.driver
    sub.assumptions = []
    import random
    sub.rng = random.Random(f"C19:c19_hard:{obj.get('seed', 0)}")
    sub.quick = obj.get("tier", "quick") == "quick"
    run_part(sub)
    print("replay: signatures now failing:", sorted(set(fails)))
    return 1 if obj.get("signature") in fails else 0
