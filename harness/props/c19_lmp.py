"""C19, parts "lmp" (LAMMPS dump codec) and "trr" (TRR binary layout).

Tie of the Lean models in lean/Infretis/Model/CodecLmp.lean (namespaces Infretis.Lmp / Infretis.Trr,
ops `lmp…` / `trr…` of the driver) to the real code:

  lammps.py   write_lammpstrj, read_lammpstrj, shift_boxbounds,
              LAMMPSEngine._extract_frame / _read_configuration / _reverse_velocities
  gromacs.py  read_trr_header, read_trr_data, read_trr_frame, skip_trr_data, is_double,
              swap_integer, swap_endian

`run_part(ctx)` returns a rule-string fragment; `replay_part(ctx, obj)` returns 0/1, or None when the
recorded input belongs to another part.
"""
from __future__ import annotations

import io
import math
import os
import shutil
import struct
import tempfile
import types
import warnings
from fractions import Fraction

from common import err_kind, frac_token, hexs


# --------------------------------------------------------------------------------------------
#  helpers
# --------------------------------------------------------------------------------------------
def _imports():
    import numpy as np
    from infretis.classes.engines import gromacs, lammps
    return np, lammps, gromacs


def _bits(x) -> str:
    """exact identity of a float64 (distinguishes 0.0 and -0.0)"""
    return struct.pack(">d", float(x)).hex()


def _kind(e: BaseException) -> str:
    if isinstance(e, EOFError):
        return "err:eof"
    if isinstance(e, struct.error):
        return "err:struct"
    return err_kind(e)


class _Tmp:
    def __enter__(self):
        self.d = tempfile.mkdtemp(prefix="c19lmp-", dir="/var/tmp")
        return self.d

    def __exit__(self, *a):
        shutil.rmtree(self.d, ignore_errors=True)


# ---- LAMMPS ---------------------------------------------------------------------------------
def _tok(x) -> str:
    """the text numpy's astype(str) gives for one float64"""
    import numpy as np
    return str(np.array([x], dtype=float).astype(str)[0])


def _nums(row) -> str:
    row = list(row)
    return " ".join([str(len(row))] + [_tok(v) for v in row])


def _conf_tokens(id_type, pos, vel, box) -> str:
    """the driver's `conf` grammar for arrays as handed to / returned by the real functions"""
    out = [str(len(pos))]
    for t, x, v in zip(id_type, pos, vel):
        out += [str(int(t[0])), str(int(t[1])), _nums(x), _nums(v)]
    if box is None:
        out.append("none")
    else:
        out.append(str(len(box)))
        out += [_nums(r) for r in box]
    return " ".join(out)


def _frame_arrays(np, fr):
    it = np.array([[a[0], a[1]] for a in fr["atoms"]], dtype=float)
    pos = np.array([a[2] for a in fr["atoms"]], dtype=float).reshape(len(fr["atoms"]), 3)
    vel = np.array([a[3] for a in fr["atoms"]], dtype=float).reshape(len(fr["atoms"]), 3)
    box = None if fr["box"] is None else np.array(fr["box"], dtype=float)
    return it, pos, vel, box


def _write_file(np, lammps, path, frames):
    for k, fr in enumerate(frames):
        it, pos, vel, box = _frame_arrays(np, fr)
        lammps.write_lammpstrj(path, it, pos, vel, box, append=(k > 0))


def _read_code(np, lammps, path, frame, n):
    """canonical answer of read_lammpstrj: 'ok <conf>' | err kind; plus the raw arrays"""
    with warnings.catch_warnings():
        warnings.simplefilter("ignore")
        try:
            it, pos, vel, box = lammps.read_lammpstrj(path, frame, n)
        except Exception as e:  # noqa: BLE001
            return err_kind(e), None
    try:
        if box.ndim != 2 or it.ndim != 2 or it.shape[1] != 2 or not np.all(np.isfinite(it)) \
                or not np.all(it == np.floor(it)) or not (np.all(np.isfinite(pos)) and np.all(np.isfinite(vel))
                                                         and np.all(np.isfinite(box))):
            return "unscoped", (it, pos, vel, box)
        return "ok " + _conf_tokens(it, pos, vel, box), (it, pos, vel, box)
    except Exception:  # noqa: BLE001
        return "unscoped", (it, pos, vel, box)


def _atoms_by_id(it, pos, vel):
    return {int(t[0]): (int(t[1]), tuple(_bits(v) for v in x), tuple(_bits(v) for v in w))
            for t, x, w in zip(it, pos, vel)}


_DEC = [0.0, -0.0, 0.5, -1.25, 3.0, 1e-05, -2.5e-07, 123.456, -7.0e10, 0.1, 1e16, 1e22, -0.001, 17.0, 2.0 ** -20]


def _val(rng, dyadic):
    if dyadic:
        return rng.randint(-4000, 4000) / 8.0
    r = rng.random()
    if r < 0.35:
        return rng.choice(_DEC)
    if r < 0.8:
        return round(rng.uniform(-50, 50), rng.randint(0, 6))
    return rng.uniform(-1, 1) * 10.0 ** rng.randint(-12, 12)


def _gen_frame(rng, n, dyadic, sorted_ids=False):
    ids = rng.sample(range(1, 40), n)
    if sorted_ids:
        ids.sort()
    atoms = []
    for i in ids:
        pos = [_val(rng, dyadic) for _ in range(3)]
        vel = [rng.choice([0.0, -0.0]) if rng.random() < 0.25 else _val(rng, dyadic) for _ in range(3)]
        atoms.append((i, rng.randint(1, 3), pos, vel))
    box = []
    for _ in range(3):
        lo = rng.randint(-40, 40) / 4.0 if (dyadic or rng.random() < 0.5) else _val(rng, False)
        hi = lo + rng.randint(1, 400) / 4.0
        box.append([lo, hi])
    return {"atoms": atoms, "box": box}


def _lmp_case(ctx, np, lammps, d, frames, label, lines, checks):
    """run the real code on one multi-frame file and queue the model requests"""
    n = len(frames[0]["atoms"])
    m = len(frames)
    path = os.path.join(d, "t.lammpstrj")
    _write_file(np, lammps, path, frames)
    data = open(path, "rb").read()
    hx = hexs(data)
    me = types.SimpleNamespace(n_atoms=n)
    replay = {"part": "lmp", "kind": label, "n": n, "frames": frames}

    # 1. the written text
    for k, fr in enumerate(frames):
        it, pos, vel, box = _frame_arrays(np, fr)
        lines.append("lmpwrite " + _conf_tokens(it, pos, vel, box))
    checks.append(("write", m, data, replay))
    # tokens are what the property expects: they read back to exactly the value written
    for fr in frames:
        for a in fr["atoms"]:
            for v in list(a[2]) + list(a[3]):
                t = _tok(v)
                if t != repr(float(v)):
                    ctx.hit("lmp-token-differs-from-python-repr")
                if _bits(float(t)) != _bits(v):
                    ctx.fail("C19:lammpstrj:token-not-exact", f"value {v!r} is written as {t!r}", replay)

    # 2. every frame read back
    for k in range(m):
        canon, arr = _read_code(np, lammps, path, k, n)
        lines.append(f"lmpread {n} {k} {hx}")
        checks.append(("read", canon, {**replay, "frame": k}))
        ctx.count(1, branch="lmp-read")
        if arr is None:
            ctx.fail("C19:lammpstrj:roundtrip-raises", f"reading frame {k} of a written file raised {canon}",
                     {**replay, "frame": k})
            continue
        it, pos, vel, box = arr
        want = {a[0]: (a[1], tuple(_bits(v) for v in a[2]), tuple(_bits(v) for v in a[3])) for a in frames[k]["atoms"]}
        got = _atoms_by_id(it, pos, vel)
        ids = [int(t[0]) for t in it]
        if got != want or len(ids) != n:
            ctx.fail("C19:lammpstrj:frame-k-differs" if m > 1 else "C19:lammpstrj:roundtrip-differs",
                     f"frame {k}: atoms read back differ from the atoms written", {**replay, "frame": k})
        if ids != sorted(ids):
            ctx.fail("C19:lammpstrj:not-sorted-by-id", f"frame {k}: ids {ids}", {**replay, "frame": k})
        if [[_bits(v) for v in r] for r in box] != [[_bits(v) for v in r] for r in frames[k]["box"]]:
            ctx.fail("C19:lammpstrj:box-differs", f"frame {k}: box read back differs", {**replay, "frame": k})
        ctx.distinct(("lmp", label, n, m, k, tuple(ids)))

    # 3. frame extraction
    k = ctx.rng.randrange(m)
    out = os.path.join(d, "x.lammpstrj")
    try:
        lammps.LAMMPSEngine._extract_frame(me, path, k, out)
        xdata = open(out, "rb").read()
        canon = "ok " + hexs(xdata)
    except Exception as e:  # noqa: BLE001
        xdata, canon = None, err_kind(e)
    lines.append(f"lmpextract {n} {k} {hx}")
    checks.append(("extract", canon, {**replay, "frame": k}))
    ctx.count(1, branch="lmp-extract")
    if xdata is None:
        ctx.fail("C19:lammpstrj:extract-raises", f"extracting frame {k} raised {canon}", {**replay, "frame": k})
    else:
        a = _read_code(np, lammps, out, 0, n)[0]
        b = _read_code(np, lammps, path, k, n)[0]
        if a != b:
            ctx.fail("C19:lammpstrj:extract-frame-k", f"extracted frame {k} reads as another configuration",
                     {**replay, "frame": k})
        # canonical text: the sorted frame as the writer writes it
        srt = {"atoms": sorted(frames[k]["atoms"], key=lambda t: t[0]), "box": frames[k]["box"]}
        can = os.path.join(d, "c.lammpstrj")
        _write_file(np, lammps, can, [srt])
        if open(can, "rb").read() != xdata:
            ctx.fail("C19:lammpstrj:extract-not-canonical", f"extracted frame {k} is not the frame's own text",
                     {**replay, "frame": k})

    # 4. velocity reversal (works on frame 0 of its input)
    rev = os.path.join(d, "r.lammpstrj")
    rev2 = os.path.join(d, "r2.lammpstrj")
    try:
        lammps.LAMMPSEngine._reverse_velocities(me, path, rev)
        rdata = open(rev, "rb").read()
        canon = "ok " + hexs(rdata)
    except Exception as e:  # noqa: BLE001
        rdata, canon = None, err_kind(e)
    lines.append(f"lmprev {n} {hx}")
    checks.append(("reverse", canon, replay))
    ctx.count(1, branch="lmp-reverse")
    if rdata is None:
        ctx.fail("C19:lammpstrj:reverse-raises", f"reversing raised {canon}", replay)
    else:
        _, a0 = _read_code(np, lammps, path, 0, n)
        _, a1 = _read_code(np, lammps, rev, 0, n)
        ok = a0 is not None and a1 is not None
        if ok:
            it0, p0, v0, b0 = a0
            it1, p1, v1, b1 = a1
            same = (it0.tolist() == it1.tolist() and [_bits(x) for x in p0.ravel()] == [_bits(x) for x in p1.ravel()]
                    and [_bits(x) for x in b0.ravel()] == [_bits(x) for x in b1.ravel()])
            neg = all(abs(x) == abs(y) and (math.copysign(1, x) == -math.copysign(1, y))
                      for x, y in zip(v0.ravel().tolist(), v1.ravel().tolist()))
            if not same:
                ctx.fail("C19:lammpstrj:reverse-changes-more", "reversal changed ids, types, positions or box", replay)
            if not neg:
                ctx.fail("C19:lammpstrj:reverse-not-negated", "reversal did not negate every velocity", replay)
        else:
            ctx.fail("C19:lammpstrj:reverse-unreadable", "reversed file cannot be read", replay)
        lammps.LAMMPSEngine._reverse_velocities(me, rev, rev2)
        can = os.path.join(d, "c0.lammpstrj")
        lammps.LAMMPSEngine._extract_frame(me, path, 0, can)
        if open(rev2, "rb").read() != open(can, "rb").read():
            ctx.fail("C19:lammpstrj:reverse-twice", "reversing twice is not the canonical text of the frame", replay)
    return path


def _shift_case(ctx, np, lammps, d, fr, lines, checks):
    """_read_configuration = read frame 0 + shift_boxbounds, dyadic values (exact in both worlds)"""
    n = len(fr["atoms"])
    path = os.path.join(d, "s.lammpstrj")
    _write_file(np, lammps, path, [fr])
    me = types.SimpleNamespace(n_atoms=n)
    replay = {"part": "lmp", "kind": "shift", "n": n, "frames": [fr]}
    try:
        pos, vel, box, extra = lammps.LAMMPSEngine._read_configuration(me, path)
        canon = ("ok " + str(len(pos)) + "".join(" " + " ".join([str(len(r))] + [frac_token(float(v)) for v in r]) for r in pos)
                 + " " + " ".join([str(len(box))] + [frac_token(float(v)) for v in box]))
    except Exception as e:  # noqa: BLE001
        pos = None
        canon = err_kind(e)
    srt = sorted(fr["atoms"], key=lambda t: t[0])
    xyz = [[Fraction(v) for v in a[2]] for a in srt]
    bx = [[Fraction(v) for v in r] for r in fr["box"]]
    lines.append("lmpshift " + str(len(xyz)) + "".join(" " + " ".join([str(len(r))] + [frac_token(v) for v in r]) for r in xyz)
                 + " " + str(len(bx)) + "".join(" " + " ".join([str(len(r))] + [frac_token(v) for v in r]) for r in bx))
    checks.append(("shift", canon, replay))
    ctx.count(1, branch="lmp-readconf")
    if pos is None:
        ctx.fail("C19:lammpstrj:read-configuration-raises", canon, replay)
        return
    ok = extra is None and [_bits(v) for a in srt for v in a[3]] == [_bits(v) for v in vel.ravel()]
    ok = ok and all(Fraction(float(pos[i][j])) + bx[j][0] == xyz[i][j] for i in range(n) for j in range(3))
    ok = ok and all(Fraction(float(box[j])) == bx[j][1] - bx[j][0] for j in range(3))
    if not ok:
        ctx.fail("C19:lammpstrj:read-configuration", "positions/box not shifted by the lower bounds, or velocities changed", replay)


def _lmp_malformed(ctx, np, lammps, d, lines, checks):
    rng = ctx.rng
    path = os.path.join(d, "m.lammpstrj")
    cases = []
    for _ in range(12 if ctx.quick else 120):
        n = rng.randint(1, 4)
        m = rng.randint(1, 3)
        nobox = rng.random() < 0.25
        frames = [_gen_frame(rng, n, True) for _ in range(m)]
        if nobox:
            for fr in frames:
                fr["box"] = None
        reads = {(n, m), (n, m + 1), (1, 0), (n + 1, 0), (n + 1, 1), (max(1, n - 1), 1), (n, -1), (0, 0), (n + 2, m - 1)}
        cases.append((frames, sorted(reads)))
    for frames, reads in cases:
        _write_file(np, lammps, path, frames)
        hx = hexs(open(path, "rb").read())
        for (na, fr) in reads:
            canon, _ = _read_code(np, lammps, path, fr, na)
            lines.append(f"lmpread {na} {fr} {hx}")
            checks.append(("read-malformed", canon, {"part": "lmp", "kind": "malformed", "n": na, "frame": fr, "frames": frames}))
            ctx.count(1, branch="lmp-malformed")


def _run_lmp(ctx):
    np, lammps, _ = _imports()
    rng = ctx.rng
    lines, checks = [], []
    with _Tmp() as d:
        nfiles = 40 if ctx.quick else 600
        for c in range(nfiles):
            n = rng.randint(2, 5) if (ctx.quick or rng.random() < 0.8) else rng.randint(6, 20)
            m = 1 if c % 3 == 0 else rng.randint(2, 4)
            dyadic = c % 2 == 0
            frames = [_gen_frame(rng, n, dyadic, sorted_ids=(rng.random() < 0.15)) for _ in range(m)]
            _lmp_case(ctx, np, lammps, d, frames, "dyadic" if dyadic else "decimal", lines, checks)
            if c < 4:
                ctx.sample({"part": "lmp", "n": n, "frames": m, "ids": [[a[0] for a in fr["atoms"]] for fr in frames],
                            "first_atom": list(frames[0]["atoms"][0][2]) + list(frames[0]["atoms"][0][3])})
        for c in range(15 if ctx.quick else 200):
            _shift_case(ctx, np, lammps, d, _gen_frame(rng, rng.randint(2, 5), True), lines, checks)
        _lmp_malformed(ctx, np, lammps, d, lines, checks)
    # sort op: the model's order of ids = sorted()
    sort_cases = [rng.sample(range(-20, 60), rng.randint(0, 9)) for _ in range(30 if ctx.quick else 300)]
    for ids in sort_cases:
        lines.append("lmpsort " + " ".join([str(len(ids))] + [str(i) for i in ids]))
        checks.append(("sort", " ".join([str(len(ids))] + [str(i) for i in sorted(ids)]), {"part": "lmp", "kind": "sort", "ids": ids}))

    if not ctx._driver_ok:
        return
    out = ctx.driver(lines)
    pos = 0
    scope = 0
    for chk in checks:
        if chk[0] == "write":
            _, m, data, replay = chk
            parts = out[pos:pos + m]
            pos += m
            try:
                model = b"".join(bytes.fromhex(p) if p != "-" else b"" for p in parts)
            except ValueError:
                model = repr(parts).encode()
            if model != data:
                ctx.disagree({"fn": "write_lammpstrj", **replay}, data.decode(errors="replace"), model.decode(errors="replace"))
            continue
        kind, canon, replay = chk
        ans = out[pos]
        pos += 1
        if ans == "scope" or canon == "unscoped":
            scope += 1
            ctx.hit("lmp-model-out-of-scope")
            if kind != "read-malformed":
                ctx.disagree({"fn": kind, **replay}, canon, ans, note="model declined a well-formed case")
            continue
        if ans != canon:
            ctx.disagree({"fn": kind, **replay}, canon, ans)


# ---- TRR -------------------------------------------------------------------------------------
_KEYS = ("box", "vir", "pres", "x", "v", "f")
_F32 = [0.0, 1.0, -1.0, 0.5, -2.75, 1024.0, 3.0e-5, 1.5e10, -0.0, 12345.678]


def _f32(x: float) -> float:
    return struct.unpack(">f", struct.pack(">f", x))[0]


def _gen_lframe(rng, allow_empty=False):
    natoms = rng.randint(0, 5)
    lf = {"ir": 0, "e": 0, "top": 0, "sym": 0, "step": rng.randint(-5, 10 ** 6), "nre": rng.randint(0, 40),
          "natoms": natoms, "time": _f32(rng.choice(_F32)), "lam": _f32(rng.random())}
    if rng.random() < 0.2:
        lf.update(ir=rng.randint(-9, 9), e=rng.randint(0, 99), top=rng.randint(0, 99), sym=rng.randint(-2 ** 31, 2 ** 31 - 1))
    for k in _KEYS:
        cnt = 9 if k in ("box", "vir", "pres") else natoms * 3
        lf[k] = [_f32(rng.choice(_F32) if rng.random() < 0.5 else rng.uniform(-100, 100)) for _ in range(cnt)] \
            if rng.random() < 0.6 else None
    if not allow_empty and all(lf[k] is None or len(lf[k]) == 0 for k in ("box", "x", "v", "f")):
        lf["box"] = [_f32(float(i)) for i in range(9)]
    return lf


def _pack_frame(lf, e, dbl, magic=1993, version=b"GMX_trn_file"):
    """independent TRR writer (GROMACS layout) with struct.pack"""
    r = "d" if dbl else "f"
    w = 8 if dbl else 4
    size = {k: (0 if lf[k] is None else len(lf[k]) * w) for k in _KEYS}
    b = struct.pack(e + "i", magic) + struct.pack(e + "2i", len(version) + 1, len(version)) + version
    b += struct.pack(e + "13i", lf["ir"], lf["e"], size["box"], size["vir"], size["pres"], lf["top"], lf["sym"],
                     size["x"], size["v"], size["f"], lf["natoms"], lf["step"], lf["nre"])
    b += struct.pack(e + "2" + r, lf["time"], lf["lam"])
    for k in _KEYS:
        if lf[k] is not None:
            b += struct.pack(e + str(len(lf[k])) + r, *lf[k])
    return b


def _quiet_nans(line):
    """a float32 signalling NaN read by struct.unpack becomes a quiet NaN on its way through a Python float
    (the payload's top bit is set by the hardware conversion); IEEE decoding is outside the model, which carries
    the raw field bytes — so 8-digit hex fields that are NaN patterns are compared with the quiet bit set.
    Only random bytes of the malformed stream can contain such patterns."""
    out = []
    for t in line.split():
        if len(t) == 8 and all(c in "0123456789abcdef" for c in t):
            x = int(t, 16)
            if (x & 0x7F800000) == 0x7F800000 and (x & 0x007FFFFF):
                t = f"{x | 0x00400000:08x}"
        out.append(t)
    return " ".join(out)


def _field(v, dbl):
    return struct.pack(">d" if dbl else ">f", v).hex()


def _sec(vals, dbl):
    if vals is None:
        return "none"
    return " ".join([str(len(vals))] + [_field(v, dbl) for v in vals])


def _enc_line(lf, e, dbl):
    return (f"trrenc {'B' if e == '>' else 'L'} {8 if dbl else 4} {lf['ir']} {lf['e']} {lf['top']} {lf['sym']} {lf['step']} "
            f"{lf['nre']} {lf['natoms']} {_field(lf['time'], dbl)} {_field(lf['lam'], dbl)} "
            + " ".join(_sec(lf[k], dbl) for k in _KEYS))


_HEAD_ORDER = ("ir_size", "e_size", "box_size", "vir_size", "pres_size", "top_size", "sym_size", "x_size", "v_size",
               "f_size", "natoms", "step", "nre")


def _show_header(h):
    dbl = h["double"]
    return (" ".join(str(h[k]) for k in _HEAD_ORDER) + " " + _field(h["time"], dbl) + " " + _field(h["lambda"], dbl)
            + " " + ("B" if h["endian"] == ">" else "L") + " " + ("1" if dbl else "0"))


def _show_data(np, data, dbl):
    return " ".join(_sec(None if k not in data else [float(v) for v in np.asarray(data[k]).ravel()], dbl) for k in _KEYS)


def _code_head(gromacs, blob):
    try:
        h, n = gromacs.read_trr_header(io.BytesIO(blob))
        return "ok " + _show_header(h) + " " + str(n)
    except Exception as e:  # noqa: BLE001
        return _kind(e)


def _code_decode(np, gromacs, blob):
    fh = io.BytesIO(blob)
    try:
        h, n = gromacs.read_trr_header(fh)
        data = gromacs.read_trr_data(fh, h)
        rest = len(blob) - fh.tell()
        return "ok " + _show_header(h) + " " + _show_data(np, data, h["double"]) + " " + str(max(rest, 0)), h, data
    except Exception as e:  # noqa: BLE001
        return _kind(e), None, None


def _code_frame(np, gromacs, path, idx):
    try:
        h, data = gromacs.read_trr_frame(path, idx)
    except Exception as e:  # noqa: BLE001
        return _kind(e), None, None
    if h is None:
        return "none", None, None
    return "ok " + _show_header(h) + " " + _show_data(np, data, h["double"]), h, data


def _matches_logical(np, lf, h, data):
    """decoded header entries and arrays are the logical frame's"""
    if h is None:
        return False
    ok = (h["natoms"] == lf["natoms"] and h["step"] == lf["step"] and h["nre"] == lf["nre"] and h["ir_size"] == lf["ir"]
          and h["e_size"] == lf["e"] and h["top_size"] == lf["top"] and h["sym_size"] == lf["sym"]
          and _bits(h["time"]) == _bits(lf["time"]) and _bits(h["lambda"]) == _bits(lf["lam"]))
    for k in _KEYS:
        present = lf[k] is not None and len(lf[k]) > 0
        if present != (k in data):
            return False
        if present:
            shape = (3, 3) if k in ("box", "vir", "pres") else (lf["natoms"], 3)
            arr = np.asarray(data[k])
            ok = ok and arr.shape == shape and [_bits(v) for v in arr.ravel()] == [_bits(v) for v in lf[k]]
    return ok


def _run_trr(ctx):
    np, _, gromacs = _imports()
    rng = ctx.rng
    lines, checks = [], []
    encs = [(">", False), ("<", False), (">", True), ("<", True)]

    # 1. single frames, all four encodings of the same logical frame
    for c in range(60 if ctx.quick else 1500):
        lf = _gen_lframe(rng)
        results = []
        for (e, dbl) in encs:
            blob = _pack_frame(lf, e, dbl) + bytes(rng.randrange(256) for _ in range(rng.choice((0, 0, 3, 17))))
            frame_len = len(_pack_frame(lf, e, dbl))
            replay = {"part": "trr", "kind": "single", "lframe": lf, "endian": e, "double": dbl, "bytes": blob.hex()}
            lines.append(_enc_line(lf, e, dbl))
            checks.append((blob[:frame_len].hex() or "-", replay, "encodeFrame vs struct.pack writer"))
            lines.append("trrhead " + hexs(blob))
            checks.append((_code_head(gromacs, blob), replay, "read_trr_header"))
            canon, h, data = _code_decode(np, gromacs, blob)
            lines.append("trrdecode " + hexs(blob))
            checks.append((canon, replay, "read_trr_header+read_trr_data"))
            ctx.count(1, branch="trr-decode")
            results.append((e, dbl, h, data))
            if not _matches_logical(np, lf, h, data) or h["endian"] != e or h["double"] != dbl:
                ctx.fail("C19:trr:decode-differs", f"frame encoded {e}{'d' if dbl else 'f'} does not decode to the values written ({canon[:40]})", replay)
        # identical decoding for both byte orders and precisions
        ref = results[0]
        for (e, dbl, h, data) in results[1:]:
            if h is None or ref[2] is None:
                continue
            same = set(data) == set(ref[3]) and all(np.array_equal(data[k], ref[3][k]) for k in data)
            same = same and all(h[k] == ref[2][k] for k in ("natoms", "step", "nre", "ir_size", "e_size", "top_size", "sym_size", "time", "lambda"))
            if not same:
                ctx.fail("C19:trr:endian-precision-differ", f"decoding {e}{'d' if dbl else 'f'} differs from >f",
                         {"part": "trr", "kind": "single", "lframe": lf, "endian": e, "double": dbl, "bytes": _pack_frame(lf, e, dbl).hex()})
        ctx.distinct(("trr", lf["natoms"], tuple(k for k in _KEYS if lf[k] is not None), lf["step"]))
        if c < 2:
            ctx.sample({"part": "trr", "natoms": lf["natoms"], "sections": [k for k in _KEYS if lf[k] is not None], "step": lf["step"]})

    # 2. multi-frame files mixing encodings; frame k is frame k
    with _Tmp() as d:
        path = os.path.join(d, "t.trr")
        for c in range(25 if ctx.quick else 400):
            m = rng.randint(1, 5)
            lfs = [_gen_lframe(rng) for _ in range(m)]
            es = [rng.choice(encs) for _ in range(m)]
            blob = b"".join(_pack_frame(lf, e, dbl) for lf, (e, dbl) in zip(lfs, es))
            cut = None
            if c % 4 == 3:   # malformed: truncated somewhere
                cut = rng.randrange(len(blob))
                blob = blob[:cut]
            open(path, "wb").write(blob)
            for k in list(range(m + 2)) + ([-1] if c % 5 == 0 else []):
                canon, h, data = _code_frame(np, gromacs, path, k)
                replay = {"part": "trr", "kind": "multi", "lframes": lfs, "enc": es, "index": k, "cut": cut, "bytes": blob.hex()}
                lines.append(f"trrframe {k} {hexs(blob)}")
                checks.append((canon, replay, "read_trr_frame"))
                ctx.count(1, branch="trr-frame" if cut is None else "trr-frame-truncated")
                if cut is None:
                    if 0 <= k < m:
                        if not _matches_logical(np, lfs[k], h, data) or (h["endian"], h["double"]) != es[k]:
                            ctx.fail("C19:trr:frame-k", f"read_trr_frame(index={k}) does not return frame {k} ({canon[:30]})", replay)
                    elif canon != "none":
                        ctx.fail("C19:trr:frame-beyond-end", f"read_trr_frame(index={k}) of {m} frames gives {canon[:30]}", replay)
            ctx.distinct(("trrm", m, tuple(es), cut))

    # 3. malformed headers: raw integers (inconsistent sizes, odd natoms), bad magic, bad version, no precision source
    for c in range(150 if ctx.quick else 3000):
        lf = _gen_lframe(rng, allow_empty=True)
        e, dbl = rng.choice(encs)
        mode = rng.randrange(6)
        if mode == 0:
            blob = _pack_frame(lf, e, dbl, magic=rng.choice((1993, 1994, 0, -1)))
        elif mode == 1:
            v = bytearray(b"GMX_trn_file")
            v[rng.randrange(12)] = rng.choice((0, 65, 255, 0x80))
            blob = _pack_frame(lf, e, dbl, version=bytes(v))
        elif mode == 2:
            blob = _pack_frame(lf, e, dbl)
            blob = blob[:rng.randrange(len(blob) + 1)]
        elif mode == 3:
            blob = _pack_frame(lf, e, dbl, version=rng.choice((b"", b"GMX", b"GMX_trn_file\0\0", b"GMX_trn_fileX")))
        else:
            ints = [rng.choice((0, 0, 4, 8, 12, 24, 36, 72, -4, 5, rng.randint(-50, 200))) for _ in range(13)]
            ints[10] = rng.choice((0, 1, 2, 3, -1, rng.randint(-3, 6)))
            blob = (struct.pack(e + "i", 1993) + struct.pack(e + "2i", 13, 12) + b"GMX_trn_file" + struct.pack(e + "13i", *ints)
                    + bytes(rng.randrange(256) for _ in range(rng.randint(0, 120))))
        replay = {"part": "trr", "kind": "malformed", "bytes": blob.hex()}
        lines.append("trrhead " + hexs(blob))
        checks.append((_code_head(gromacs, blob), replay, "read_trr_header"))
        lines.append("trrdecode " + hexs(blob))
        checks.append((_code_decode(np, gromacs, blob)[0], replay, "read_trr_header+read_trr_data"))
        ctx.count(1, branch="trr-malformed")
    with _Tmp() as d:
        path = os.path.join(d, "m.trr")
        for c in range(40 if ctx.quick else 600):
            blob = b""
            for _ in range(rng.randint(1, 3)):
                e, dbl = rng.choice(encs)
                ints = [rng.choice((0, 0, 4, 8, 12, 24, 36, 72, -8, -36, 5, rng.randint(-60, 120))) for _ in range(13)]
                ints[10] = rng.choice((0, 1, 2, 3, -1))
                blob += (struct.pack(e + "i", 1993) + struct.pack(e + "2i", 13, 12) + b"GMX_trn_file" + struct.pack(e + "13i", *ints)
                         + bytes(rng.randrange(256) for _ in range(rng.choice((8, 16, 16, 52, 100)))))
            open(path, "wb").write(blob)
            for k in (0, 1, 2):
                replay = {"part": "trr", "kind": "malformed-file", "index": k, "bytes": blob.hex()}
                lines.append(f"trrframe {k} {hexs(blob)}")
                checks.append((_code_frame(np, gromacs, path, k)[0], replay, "read_trr_frame"))
                ctx.count(1, branch="trr-malformed-file")

    # 4. swap_integer / swap_endian
    swaps = [0, 1, -1, 1993, -2 ** 31, 2 ** 31 - 1, 0x01020304] + [rng.randint(-2 ** 31, 2 ** 31 - 1) for _ in range(100 if ctx.quick else 2000)]
    for i in swaps:
        got = gromacs.swap_integer(i)
        lines.append(f"trrswap {i}")
        checks.append((str(got), {"part": "trr", "kind": "swap", "value": i}, "swap_integer"))
        ctx.count(1, branch="trr-swap")
        four = struct.pack(">i", i)
        if got != struct.unpack("<I", four)[0] or gromacs.swap_integer(got) != struct.unpack(">I", four)[0]:
            ctx.fail("C19:trr:swap-integer", f"swap_integer({i}) = {got}", {"part": "trr", "kind": "swap", "value": i})
    if gromacs.swap_endian(">") != "<" or gromacs.swap_endian("<") != ">":
        ctx.fail("C19:trr:swap-endian", "swap_endian is not the exchange of '>' and '<'", {"part": "trr", "kind": "swap-endian"})

    if not ctx._driver_ok:
        return
    out = ctx.driver(lines)
    for (canon, replay, fn), ans in zip(checks, out):
        if ans != canon and _quiet_nans(ans) != _quiet_nans(canon):
            ctx.disagree({"fn": fn, **{k: v for k, v in replay.items() if k != "lframes"}}, canon, ans)


# --------------------------------------------------------------------------------------------
def run_part(ctx):
    _run_lmp(ctx)
    _run_trr(ctx)
    ctx.assumptions += [
        "lammpstrj: arrays handed to write_lammpstrj are float64 (numpy astype(str) = shortest repr, which float() reads back exactly); "
        "number tokens are opaque in the model, float()/str()/np.genfromtxt's tokenizer are not modelled",
        "lammpstrj: ids are distinct integers (np.argsort's algorithm is then irrelevant: lmp_sort_perm_sorted); "
        "id_type/pos/vel have equal row counts; a box of 3 rows lo/hi (box=None is shown to fail: lmp_no_box_value_error)",
        "lammpstrj: _read_configuration is compared on dyadic values only (float subtraction exact)",
        "trr: decoding of IEEE reals (struct.unpack) is outside the model: a real is its bytes in big-endian order; "
        "values used are exactly representable in float32; header integers |i| < 2^31; slen/natoms small enough that "
        "no read request exceeds memory",
    ]
    return ("lammpstrj: seeded random files of 1-4 appended frames with 2-5 (thorough: up to 20) atoms, shuffled distinct ids, "
            "dyadic or short-decimal values incl. ±0.0, every frame read/extracted/reversed, byte comparison of all written files "
            "with the model text, plus malformed reads (n_atoms=1, wrong n_atoms, frame past the end, no box) compared by error kind; "
            "trr: logical frames (natoms 0-5, random presence of box/vir/pres/x/v/f) written by an independent struct.pack writer in "
            "both byte orders and precisions, multi-frame files mixing encodings, truncated files, bad magic/version, raw inconsistent "
            "size fields; distinct = (format, atom count, frame count, ids / sections)")


def replay_part(ctx, obj):
    r = obj.get("replay", {})
    part = r.get("part")
    if part not in ("lmp", "trr"):
        return None
    np, lammps, gromacs = _imports()
    before = len(ctx.fails)
    if part == "lmp":
        frames = [{"atoms": [tuple(a) for a in fr["atoms"]], "box": fr["box"]} for fr in r.get("frames", [])]
        with _Tmp() as d:
            if r.get("kind") == "shift":
                _shift_case(ctx, np, lammps, d, frames[0], [], [])
            elif r.get("kind") in ("dyadic", "decimal"):
                _lmp_case(ctx, np, lammps, d, frames, r["kind"], [], [])
            else:
                print("replay: nothing to evaluate for", r.get("kind"))
                return 1
    else:
        kind = r.get("kind")
        if kind == "single":
            lf, e, dbl = r["lframe"], r["endian"], r["double"]
            blob = _pack_frame(lf, e, dbl)
            canon, h, data = _code_decode(np, gromacs, blob)
            ref = _code_decode(np, gromacs, _pack_frame(lf, ">", False))
            ok = _matches_logical(np, lf, h, data) and h["endian"] == e and h["double"] == dbl and _matches_logical(np, lf, ref[1], ref[2])
            print("decode:", canon[:200])
            return 0 if ok else 1
        if kind == "multi":
            lfs, es, k = r["lframes"], [tuple(x) for x in r["enc"]], r["index"]
            with _Tmp() as d:
                path = os.path.join(d, "t.trr")
                open(path, "wb").write(bytes.fromhex(r["bytes"]))
                canon, h, data = _code_frame(np, gromacs, path, k)
            print("frame:", canon[:200])
            if r.get("cut") is not None:
                return 1
            if 0 <= k < len(lfs):
                return 0 if (_matches_logical(np, lfs[k], h, data) and (h["endian"], h["double"]) == es[k]) else 1
            return 0 if canon == "none" else 1
        if kind == "swap":
            i = r["value"]
            four = struct.pack(">i", i)
            got = gromacs.swap_integer(i)
            print("swap_integer:", got)
            return 0 if (got == struct.unpack("<I", four)[0] and gromacs.swap_integer(got) == struct.unpack(">I", four)[0]) else 1
        if kind == "swap-endian":
            return 0 if (gromacs.swap_endian(">") == "<" and gromacs.swap_endian("<") == ">") else 1
        print("replay: nothing to evaluate for", kind)
        return 1
    for f in ctx.fails[before:]:
        print("still failing:", f["signature"], "-", f["what"])
    return 1 if len(ctx.fails) > before else 0
