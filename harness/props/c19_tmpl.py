"""C19, part "tmpl" — the two line-based template editors.

  EngineBase._modify_input / _read_input_settings   (mdp style `keyword = value`)
  lammps.write_for_run                              (`infretis_*` variable substitution)

Tie against Infretis.Template.modifyInput / readSettings / writeForRun (ops mdpmodify, mdpread, wfr = the code
after the repairs eaf64e1 / f746fff / 48a6c1e; mdpmodifyA, wfrA (before f746fff), wfrS (substring str.replace, before
48a6c1e) = the code before them, only used to NAME a regression by its old signature) and direct evaluation of the
property predicates (only requested entries change; requested entries get the value; idempotence) on the real code.
Text goes to the driver as Latin-1 hex, or as `U` + six hex digits per code point when it has characters above U+00FF
(the model's white space is Python's str.isspace, all 29 code points).
"""
from __future__ import annotations

import itertools
import os
import re
import shutil
import tempfile
from pathlib import Path

from common import err_kind

PART = "tmpl"
SIG_MDP_NL = "C19:mdp:append-after-missing-final-newline"
SIG_LMP_2L = "C19:lammps:variable-on-two-lines"
SIG_LMP_WORD = "C19:lammps:unrequested-word-edited"
SIG_LMP_WORD_RAISES = "C19:lammps:raises-though-every-variable-is-a-word"
SIG_LMP_SAMELINE = "C19:lammps:substring-on-a-requested-line"
# behaviour of the UNCHANGED /repo that a predicate rejects and that is reported but not yet a recorded finding:
# a failure with one of these signatures is written into the evidence file instead of being a VIOLATION.
# (SIG_LMP_SAMELINE was pending until /repo 48a6c1e repaired it; it is a recorded, fixed finding now.)
# SIG_MDP_DASH was pending until 2026-09-30; it is an OPEN entry of known_findings.json now: reported through ctx.fail
# (-> KNOWN-FINDING) when the real output shows it; the model has the asIs | repaired variants (c19_variant.py)
SIG_MDP_DASH = "C19:mdp:dash-underscore-key"
PENDING_FINDINGS: set = set()


def _imports():
    from infretis.classes.engines.enginebase import EngineBase
    from infretis.classes.engines.lammps import write_for_run
    return EngineBase, write_for_run


def hexs(s):
    """text token of the Template driver ops: Latin-1 hex (one byte = one character), `-` = empty,
    `U` + 6 hex digits per code point when a character is above U+00FF"""
    if not s:
        return "-"
    if all(ord(c) < 256 for c in s):
        return s.encode("latin-1").hex()
    return "U" + "".join("%06x" % ord(c) for c in s)


def sett_tokens(d):
    return " ".join([str(len(d))] + [hexs(str(k)) + " " + hexs(str(v)) for k, v in d.items()])


def unhex(t):
    if t == "-":
        return ""
    if t.startswith("U"):
        return "".join(chr(int(t[i:i + 6], 16)) for i in range(1, len(t), 6))
    return bytes.fromhex(t).decode("latin-1")


class Box:
    """temp dir under /var/tmp, files written/read as bytes-exact ASCII text"""

    def __init__(self):
        self.dir = tempfile.mkdtemp(prefix="c19tmpl-", dir="/var/tmp")
        self.src = os.path.join(self.dir, "in.txt")
        self.out = os.path.join(self.dir, "out.txt")
        self.out2 = os.path.join(self.dir, "out2.txt")

    def put(self, path, text):
        with open(path, "w", encoding="utf-8", newline="") as f:
            f.write(text)

    def get(self, path):
        if not os.path.exists(path):
            return None
        with open(path, encoding="utf-8", newline="") as f:
            return f.read()

    def clean(self):
        shutil.rmtree(self.dir, ignore_errors=True)


# ----------------------------------------------------------------------------- mdp
def mdp_code(box, EngineBase, tmpl, settings):
    """run the real _modify_input; returns output text or an error kind"""
    box.put(box.src, tmpl)
    if os.path.exists(box.out):
        os.remove(box.out)
    try:
        EngineBase._modify_input(box.src, box.out, settings, delim="=")
    except Exception as e:  # noqa: BLE001
        return err_kind(e)
    return box.get(box.out)


def mdp_read_code(box, EngineBase, text):
    box.put(box.src, text)
    try:
        d = EngineBase._read_input_settings(box.src, delim="=")
    except Exception as e:  # noqa: BLE001
        return err_kind(e)
    return d


def lines_nl(text):
    """pieces as text-mode file iteration yields them (split after '\n' only)"""
    out = text.split("\n")
    res = [x + "\n" for x in out[:-1]]
    if out[-1]:
        res.append(out[-1])
    return res


def kw_of(line):
    """keyword of a template line as the property sees it: text before the first '=' (stripped)"""
    body = line[:-1] if line.endswith("\n") else line
    if "=" not in body:
        return None, None
    before = body.split("=", 1)[0]
    return before, before.strip()


def dash_norm(k):
    return k.replace("-", "_")


def mdp_dash_predicate(tmpl, settings, out):
    """GROMACS reads '-' and '_' in a parameter name alike (`gen_vel` = `gen-vel`; the engine itself requests `gen_vel`,
    `ref-t`, `gen-temp`).  The editor compares names literally: a requested key that the template spells the other way is
    not edited but appended, so the file defines the parameter twice.  OPEN finding C19:mdp:dash-underscore-key.  Judged on
    the real OUTPUT: the requested `key = value` line is among the lines appended after the template's lines although the
    template has the parameter under the other spelling (a tree that normalises the names appends nothing: silent)."""
    if not isinstance(out, str) or out.startswith("err:"):
        return None
    tl = lines_nl(tmpl)
    seen = {kw_of(l)[1] for l in tl} - {None}
    norm = {dash_norm(k) for k in seen}
    tail = lines_nl(out)[len(tl):]
    for k in settings:
        if k and k not in seen and dash_norm(k) in norm and f"{k} = {settings[k]}\n" in tail:
            other = sorted(x for x in seen if dash_norm(x) == dash_norm(k))
            return (SIG_MDP_DASH, f"requested {k!r} is appended although the template has {other!r} (the same GROMACS "
                    "parameter): the edited file defines it twice and the template's entry keeps its old value")
    return None


def mdp_clean_settings(settings):
    for k, v in settings.items():
        v = str(v)
        if not k or k != k.strip() or "=" in k or "\n" in k or "\n" in v:
            return False
    return True


def mdp_predicates(box, EngineBase, tmpl, settings, out=None):
    """the property on the real code. Returns (signature, message) or None.
    Stated for well-formed settings (keys without '=', newline, outer blanks; values without newline).
    Which template entry a requested key names is the one point the open finding C19:mdp:dash-underscore-key is about:
    the predicates are evaluated with names compared literally (the code as it is) and, if that fails, with names
    compared up to '-'/'_' (the repaired variant: the template's line is rewritten, nothing is appended); the code
    passes when it satisfies either reading — the finding itself is reported by mdp_dash_predicate."""
    if out is None:
        out = mdp_code(box, EngineBase, tmpl, settings)
    if not isinstance(out, str) or out.startswith("err:"):
        return ("C19:mdp:raises", f"_modify_input raised {out}")
    r = _mdp_predicates(box, EngineBase, tmpl, settings, out, lambda k: k)
    if r is None:
        return None
    if len({dash_norm(k) for k in settings}) == len(settings):
        if _mdp_predicates(box, EngineBase, tmpl, settings, out, dash_norm) is None:
            return None
    elif out == mdp_repaired_ref(tmpl, settings):
        # the request names one GROMACS parameter twice (`ref-t` and `ref_t`): what it asks for depends on how names are
        # compared — with names read as GROMACS reads them the first of the two names the entry
        return None
    return r


def mdp_repaired_ref(tmpl, settings):
    """the output of the repaired variant (names compared up to '-'/'_', the template's spelling kept; Lean
    `modifyInputR`) — only used for requests that name one parameter under both spellings"""
    wanted = {}
    for k in settings:
        wanted.setdefault(dash_norm(k), k)
    out, written, last = [], set(), ""
    for line in lines_nl(tmpl):
        before, kw = kw_of(line)
        last = line
        if kw is not None:
            if dash_norm(kw) in wanted:
                last = f"{before}= {settings[wanted[dash_norm(kw)]]}\n"
            written.add(dash_norm(kw))
        out.append(last)
    for k, v in settings.items():
        if dash_norm(k) not in written:
            if last and not last.endswith("\n"):
                out.append("\n")
            last = f"{k} = {v}\n"
            out.append(last)
    return "".join(out)


def _mdp_predicates(box, EngineBase, tmpl, settings, out, nrm):
    by_norm = {}
    for k in settings:
        by_norm.setdefault(nrm(k), k)
    tl = lines_nl(tmpl)
    ol = lines_nl(out)
    seen = set()
    want = []
    for line in tl:
        before, kw = kw_of(line)
        if kw is not None:
            seen.add(nrm(kw))
        if kw is not None and nrm(kw) in by_norm:
            want.append(f"{before}= {settings[by_norm[nrm(kw)]]}\n")
        else:
            want.append(line)
    app = [f"{k} = {v}\n" for k, v in settings.items() if nrm(k) not in seen]
    # the property: appended settings are entries of their own — if the last template line lacks its newline
    # it is completed before the first appended setting (a regression of repair eaf64e1 glues them together)
    glued = bool(app) and bool(want) and not want[-1].endswith("\n")
    # the old signature names exactly the old defect: the output is the glued text of before the repair
    sig = SIG_MDP_NL if glued and out == "".join(want + app) else None
    if glued:
        want[-1] = want[-1] + "\n"
    if ol != want + app:
        return (sig or "C19:mdp:edit-not-exact",
                f"output lines {ol!r} differ from template lines with requested keys set {want + app!r}")
    # requested entries read back with the value; others unchanged
    r0 = mdp_read_code(box, EngineBase, tmpl)
    r1 = mdp_read_code(box, EngineBase, out)
    if isinstance(r0, dict) and isinstance(r1, dict):
        for k, v in settings.items():
            v = str(v)
            if "=" in v:
                continue
            back = [r1[x] for x in r1 if nrm(x) == nrm(k)]
            if not back or any(b != v.strip() for b in back):
                return (sig or "C19:mdp:requested-value-not-read-back", f"{k!r} reads back as {back!r}, wanted {v.strip()!r}")
        for k in set(r0) | set(r1):
            if nrm(k) in by_norm:
                continue
            if r0.get(k) != r1.get(k):
                return (sig or "C19:mdp:unrequested-entry-changed", f"{k!r}: {r0.get(k)!r} became {r1.get(k)!r}")
    out2 = mdp_code(box, EngineBase, out, settings)
    if out2 != out:
        return (sig or "C19:mdp:not-idempotent", f"second application gives {out2!r}, first gave {out!r}")
    return None


MDP_LINES = [
    "nsteps = 10\n", "nsteps=10\n", "  nsteps   =   10 ; steps\n", "nstepsx = 7\n", "nst = 1\n",
    "; nsteps = 3\n", "; comment\n", "\n", "dt = 0.002\n", "define = -DA=1 -DB=2\n", "ref-t = 300 300\n",
    "title\n", "= 5\n", "gen_vel = yes ; c = d\n",
    # white space of other kinds around the keyword (str.strip() removes all of str.isspace), and inside it (kept)
    "nsteps\xa0= 11\n", "\u2003dt\u3000=\xa00.004\n", "\x0cnst\x1f=\t2\n", "gen\xa0vel = maybe\n", "tc-grps\x85= a b\n",
]
MDP_KEYS = ["nsteps", "nst", "dt", "gen_vel", "tc-grps", "", "ref-t", "ref_t", "gen-vel"]
MDP_VALS = [10, 0, "no", 0.002, "a b", "x = y", "", " 5 ", -1, 0.0, False, "0", -0.0]


def mdp_cases(ctx):
    rng = ctx.rng
    cases = []
    # exhaustive small scope: ≤ 3 lines over a 7-line alphabet × final newline × 4 settings
    alpha = ["nsteps = 10\n", "  nst= 1 ; c\n", "; nsteps = 3\n", "\n", "dt=0.1\n", "text\n", "nstepsx = 7\n"]
    setts = [{}, {"nsteps": 0}, {"dt": 0.5, "nsteps": 5}, {"gen_vel": "no"}, {"nst": "2", "gen_vel": False, "dt": 0.0}]
    maxl = 3 if ctx.quick else 4
    for n in range(0, maxl + 1):
        for ls in itertools.product(alpha, repeat=n):
            t = "".join(ls)
            for s in setts:
                cases.append((t, dict(s)))
                if t:
                    cases.append((t[:-1], dict(s)))   # no final newline
    nrand = 1500 if ctx.quick else 30000
    for _ in range(nrand):
        n = rng.randint(0, 9)
        t = "".join(rng.choice(MDP_LINES) for _ in range(n))
        if t and rng.random() < 0.3:
            t = t[:-1]
        ks = rng.sample(MDP_KEYS, rng.randint(0, 4))
        s = {k: rng.choice(MDP_VALS) for k in ks}
        cases.append((t, s))
    for f in sorted(Path("/repo/examples").rglob("*.mdp")) + sorted(Path("/repo/test").rglob("*.mdp")):
        t = f.read_text()
        if "\r" in t or not t.isascii():
            continue
        for s in ({"nsteps": 1000, "gen_vel": "no", "continuation": "no"},
                  {"dt": 0.002, "nstxout": 3, "nstvout": 3, "nstfout": 0, "nstlog": 3, "nstenergy": 3,
                   "nstcalcenergy": 3, "nstxout-compressed": 0},
                  {"gen_vel": "yes", "gen_seed": 17, "nsteps": 0, "continuation": "no"}):
            cases.append((t, dict(s)))
            cases.append((t.rstrip("\n"), dict(s)))
    return cases


def mdp_malformed(ctx):
    """settings outside the stated domain: only model-vs-code is compared"""
    rng = ctx.rng
    bad_keys = [" nsteps", "nsteps ", "a=b", "k\nl", "\tdt"]
    out = []
    for _ in range(150 if ctx.quick else 1500):
        n = rng.randint(0, 5)
        t = "".join(rng.choice(MDP_LINES) for _ in range(n))
        if t and rng.random() < 0.3:
            t = t[:-1]
        s = {rng.choice(bad_keys): rng.choice(MDP_VALS)}
        if rng.random() < 0.5:
            s[rng.choice(MDP_KEYS)] = rng.choice(["v\nw", "1\n", 3])
        out.append((t, s))
    return out


# ----------------------------------------------------------------------------- LAMMPS
def wfr_code(box, write_for_run, tmpl, settings, src=None, out=None):
    src = src or box.src
    out = out or box.out
    box.put(src, tmpl)
    if os.path.exists(out):
        os.remove(out)
    try:
        write_for_run(src, out, settings)
        st = "ok"
    except Exception as e:  # noqa: BLE001
        st = err_kind(e)
    return st, box.get(out)


def lmp_tokens(line):
    return line.split()


def lmp_clean(tmpl, settings):
    """the domain on which the whole property (exact edit, no variable remains, second application) is stated for the
    LAMMPS editor: every variable is one white-space free word and a word of the template, and no value has a variable
    among its WORDS (Lean: lammps_edit_words + lammps_no_var_remains_partial, guard G1).  Variables inside longer
    words of the template or of a value are inside the domain since /repo 48a6c1e."""
    toks = set(tmpl.split())
    keys = list(settings)
    for k in keys:
        if not k or k.split() != [k]:
            return False
        if k not in toks:
            return False
    for v in settings.values():
        vw = str(v).split()
        if any(k in vw for k in keys):
            return False
    return True


def lmp_expected(tmpl, settings):
    """independent statement of `exactly the requested entries change`: tokens equal to a variable
    are replaced by str(value), every other byte is kept"""
    out = []
    for line in lines_nl(tmpl):
        parts = re.split(r"(\s+)", line)
        out.append("".join(str(settings[p]) if p in settings else p for p in parts))
    return "".join(out)


def lmp_predicates(box, write_for_run, tmpl, settings, first=None):
    st, out = first if first is not None else wfr_code(box, write_for_run, tmpl, settings)
    want = lmp_expected(tmpl, settings)
    if st != "ok":
        two = any(sum(1 for l in lines_nl(tmpl) if k in l.split()) > 1 for k in settings)
        return (SIG_LMP_2L if (st == "err:key" and two) else "C19:lammps:raises",
                f"write_for_run raised {st} on a template containing every variable; file so far {out!r}")
    if out != want:
        old = "".join(lmp_substring_line(l, settings) for l in lines_nl(tmpl))
        return (SIG_LMP_SAMELINE if out == old else "C19:lammps:edit-not-exact", f"output {out!r}, expected {want!r}")
    # no variable remains; a second application copies every byte and ends in the ValueError branch
    if any(k in l.split() for l in lines_nl(out) for k in settings):
        return ("C19:lammps:variable-remains", f"a variable is still a token of {out!r}")
    st2, out2 = wfr_code(box, write_for_run, out, settings, src=box.out2 + ".in", out=box.out2)
    exp2 = "err:value" if settings else "ok"
    if st2 != exp2 or out2 != out:
        return ("C19:lammps:second-application", f"second application: {st2}, {out2!r} (first output {out!r})")
    return None


def lmp_word_keys(settings):
    """domain of the whole-word predicate: every requested variable is one non-empty white-space free word"""
    return all(isinstance(k, str) and k and k.split() == [k] for k in settings)


def lmp_guard_line(line, settings):
    """the guard of Lean `lammps_edit_words` on one line: of two variables that are both words of the line, the LATER
    one in dict order is no word of the EARLIER one's value (the substitutions of a line act one after the other on
    the current line, so such a word would be replaced in turn; Lean: lammps_edit_words_guard_counterexample)"""
    toks = line.split()
    on = [k for k in settings if k in toks]
    for i, k in enumerate(on):
        vw = str(settings[k]).split()
        if any(k2 in vw for k2 in on[i + 1:]):
            return False
    return True


def lmp_substring_line(line, settings):
    """what the code BEFORE 48a6c1e made of a line (str.replace of every variable that is a word of the line): only
    used to give a regression of that repair its recorded signature"""
    toks = line.split()
    for k in settings:
        if k in toks:
            line = line.replace(k, str(settings[k]))
    return line


def lmp_word_predicate(tmpl, settings, first):
    """`editing changes exactly the requested entries`, stated word by word on the real output and independent of the
    model: every white-space delimited word of the template is kept unless the word IS a requested variable, then it
    is the requested value; all white space (line structure) is kept; a call with every requested variable present
    as a whole word does not raise.  A word that merely CONTAINS a variable name stays untouched.
    Returns (signature, message) or None.  Domain: lmp_word_keys(settings); lines on which lmp_guard_line fails
    (a value has a later variable of the same line among its words) are compared with the model only."""
    st, out = first
    tl = lines_nl(tmpl)
    toks = set(tmpl.split())
    if all(k in toks for k in settings) and st != "ok":
        two = any(sum(1 for l in tl if k in l.split()) > 1 for k in settings)
        return (SIG_LMP_2L if (st == "err:key" and two) else SIG_LMP_WORD_RAISES,
                f"write_for_run raised {st} although every requested variable is a word of the template; "
                f"file so far {out!r}")
    if out is None:
        return None          # the call raised before writing (some variable is no word of the template)
    want = [lmp_expected(l, settings) for l in tl]
    if out == "".join(want):
        return None
    guard = [lmp_guard_line(l, settings) for l in tl]
    if any("\n" in str(v) for v in settings.values()):
        # a value with a newline changes the line structure of the output: only the whole text can be compared
        if all(guard):
            return (SIG_LMP_WORD, f"output {out!r}; with only the words that ARE requested variables set it is "
                    f"{''.join(want)!r}")
        return None
    ol = lines_nl(out)
    if len(ol) != len(want):
        return (SIG_LMP_WORD, f"line structure changed: {len(tl)} template lines, {len(ol)} output lines: {out!r}")
    bad = [i for i in range(len(want)) if ol[i] != want[i] and guard[i]]
    if not bad:
        return None
    i = bad[0]
    if ol[i] == lmp_substring_line(tl[i], settings):
        return (SIG_LMP_SAMELINE, f"template line {i} {tl[i]!r} became {ol[i]!r}, word by word it is {want[i]!r}: the "
                "variable is a word of the line and was also replaced inside a longer word / an earlier value on the "
                "same line (the substring replacement of before 48a6c1e)")
    return (SIG_LMP_WORD, f"template line {i} {tl[i]!r} became {ol[i]!r}; with only the words that ARE requested "
            f"variables {sorted(k for k in settings if k in tl[i].split())} set it is {want[i]!r}")


LMP_LINES = [
    "variable\tsubcycles index infretis_subcycles\n", "variable timestep index infretis_timestep\n",
    "variable nsteps index infretis_nsteps\n", "run infretis_nsteps\n", "# infretis_nsteps is replaced\n",
    "units real\n", "\n", "dump 1 all custom ${subcycles} infretis_name.lammpstrj id\n",
    "variable name index infretis_name\n", "fix 2 all langevin infretis_temperature infretis_temperature 500.0 1\n",
    "read_data infretis_lammpsdata # infretis_lammpsdata\n", "x infretis_n y\n", "timestep ${timestep} # add\n",
    "  infretis_timestep  \n",
    # a variable as a word AND inside a longer word / next to a variable it is a prefix of, on the same line
    "pair infretis_n infretis_name.data infretis_nsteps\n", "log my_infretis_seed.log # infretis_seed\n",
    "print infretis_name_eq\n", "label infretis_nsteps_eq my_infretis_seed\n",
    # several kinds of white space next to each other, also non-ASCII ones (str.split and \S treat them alike)
    "infretis_n\t\x0binfretis_name\x0c\x1c infretis_n\x1d\x1e\x1finfretis_seed\n",
    "set\xa0infretis_seed\x85infretis_n\u2003infretis_name\u3000#\u2028infretis_nsteps\u2029\n",
    # look-alikes that are NOT white space: the variable stays part of a longer word
    "zw infretis_n\u200binfretis_seed infretis_name\x00 \x7finfretis_nsteps \ufeffinfretis_seed \u00e9infretis_n\n",
    "infretis_seed infretis_seed\tinfretis_seed  infretis_seed",
    # regular-expression metacharacters next to / around a variable (re.escape, literal replacement)
    "a.b infretis_n* (infretis_n) infretis_n \\1 $infretis_n ^infretis_n\n",
]
LMP_KEYS = ["infretis_subcycles", "infretis_timestep", "infretis_nsteps", "infretis_name", "infretis_temperature",
            "infretis_lammpsdata", "infretis_n", "infretis_seed"]
LMP_VALS = [1, 0.5, 300.0, "/tmp/a b/conf.lammpstrj", "name", 1000, "", "infretis_n", "x infretis_name", 0, 0.0, False,
            "0", -0.0,
            # white space of several kinds inside / around a value
            " lead", "trail\t", "a\x0b\x0cb", "u\xa0v\u2003w", "two\nlines",
            # variable names as whole words of a value, and inside longer words of a value
            "infretis_seed", "infretis_name infretis_n", "pre_infretis_n_post", "infretis_name.dat", "my_infretis_seed q",
            # characters that are special in a regular-expression replacement template
            "\\1", "\\g<0>", "a\\nb", "$1 &"]


def lmp_ws_cases():
    """every white-space character of str.isspace (except the line terminators '\n' and '\r') and some look-alikes that
    are NOT white space, as the separator before / after / around a variable; exhaustive, independent of the seed"""
    ws = [c for c in map(chr, list(range(0x3100))) if c.isspace() and c not in "\n\r"]
    non = ["\x00", "\x08", "\x7f", "\x84", "\x86", "\u00ad", "\u180e", "\u200b", "\u200c", "\u2060", "\ufeff", "\u3001"]
    out = []
    for w in ws + non:
        for t in (f"a{w}infretis_a{w}b\n", f"infretis_a{w}\n", f"{w}infretis_a", f"x{w}{w}infretis_a infretis_a{w}infretis_b\n",
                  f"infretis_ab{w}infretis_a\n"):
            out.append((t, {"infretis_a": 4}))
            out.append((t, {"infretis_a": f"p{w}q", "infretis_b": "infretis_a"}))
            out.append((t, {"infretis_b": f"infretis_a{w}r", "infretis_a": "9"}))
    # variables with characters that are special in a regular expression (re.escape makes them literal)
    for t, s in (("x.y xzy x.y\n", {"x.y": 1}), ("a|b a b a|b\n", {"a|b": 2}), ("(k) k (k)\n", {"(k)": 3}),
                 ("k\\d k1 k\\d\n", {"k\\d": "v"}), ("v* vv v*\n", {"v*": 0}), ("[q] q [q]\n", {"[q]": "r s"}),
                 ("^a a ^a $b b $b\n", {"^a": 1, "$b": 2}), ("${x} $x ${x}\n", {"${x}": "y"}), ("p+ pp p+ p\n", {"p+": 5, "p": 6})):
        out.append((t, s))
        out.append((t[:-1], s))
    return out


def lmp_cases(ctx):
    rng = ctx.rng
    cases = []
    alpha = ["variable a index infretis_a\n", "run infretis_b\n", "# c\n", "infretis_a infretis_b\n",
             "infretis_ab x\n", "\n"]
    setts = [{}, {"infretis_a": 0}, {"infretis_a": 1, "infretis_b": "two"}, {"infretis_b": 0.0, "infretis_a": "q r"},
             {"infretis_ab": 3, "infretis_a": 4},
             # a value that has a variable among its words: before / after that variable in dict order
             {"infretis_a": "infretis_b", "infretis_b": "7"}, {"infretis_b": "7", "infretis_a": "x infretis_b"}]
    maxl = 3 if ctx.quick else 4
    for n in range(0, maxl + 1):
        for ls in itertools.product(alpha, repeat=n):
            t = "".join(ls)
            for s in setts:
                cases.append((t, dict(s)))
            if t and n <= 2:
                cases.append((t[:-1], dict(setts[2])))
    cases += lmp_ws_cases()
    nrand = 1500 if ctx.quick else 30000
    for _ in range(nrand):
        n = rng.randint(0, 9)
        t = "".join(rng.choice(LMP_LINES) for _ in range(n))
        if t and rng.random() < 0.2:
            t = t[:-1]
        ks = rng.sample(LMP_KEYS, rng.randint(0, 5))
        s = {k: rng.choice(LMP_VALS) for k in ks}
        cases.append((t, s))
    # random lines built from words and separators: variables, longer words containing them, all kinds of white space
    words = LMP_KEYS + ["infretis_name_eq", "my_infretis_seed", "infretis_n.x", "run", "#", "${a}", "infretis_", "é"]
    seps = [" ", "  ", "\t", " \t", "\x0b", "\x0c", "\x1c", "\x1f ", "\xa0", "\x85", "\u2003", "\u3000", "\u2028 "]
    for _ in range(600 if ctx.quick else 12000):
        lines = []
        for _l in range(rng.randint(1, 4)):
            line = rng.choice(["", "", " ", "\t", "\xa0"])
            for _w in range(rng.randint(0, 6)):
                line += rng.choice(words) + rng.choice(seps)
            if rng.random() < 0.3:
                line = line.rstrip() if rng.random() < 0.5 else line + rng.choice(words)
            lines.append(line + "\n")
        t = "".join(lines)
        if rng.random() < 0.2:
            t = t[:-1]
        ks = rng.sample(LMP_KEYS, rng.randint(1, 5))
        s = {k: rng.choice(LMP_VALS) for k in ks}
        cases.append((t, s))
    # the repo's own templates with the engine's key set
    full = {"infretis_timestep": 0.5, "infretis_nsteps": 1200, "infretis_subcycles": 3,
            "infretis_initconf": "/var/tmp/w/conf.lammpstrj", "infretis_name": "trajB",
            "infretis_lammpsdata": "/var/tmp/w/lammps.data", "infretis_temperature": 300.0, "infretis_seed": 12345}
    for f in sorted(Path("/repo/examples").rglob("lammps.input")) + sorted(Path("/repo/test").rglob("lammps*.input")):
        t = f.read_text()
        if "\r" in t or not t.isascii():
            continue
        cases.append((t, dict(full)))
        part = dict(list(full.items())[:3])
        cases.append((t, part))
    return cases


# ----------------------------------------------------------------------------- run
def agree(ctx, case, code, now, asis, state, older=None):
    """the code must agree with the model of the code as it is now (after the repairs); where it agrees with a
    model of the code before a repair instead (`asis`, `older`: name -> output), that repair has regressed (the
    predicates name the old signature)"""
    if code == now:
        return
    olds = {"before the repair": asis}
    olds.update(older or {})
    hit = [n for n, o in olds.items() if code == o]
    if hit:
        state["regressed"] += 1
    ctx.disagree(case, code, now, note="; ".join(f"model of the code {n}: {o}" for n, o in olds.items())
                 + (f" — the code behaves as {hit[0]}" if hit else ""))


def note_fail(fails, r, replay):
    """keep, per signature, the smallest failing input (one report per defect, not per case)"""
    size = len(replay["template"]) + sum(len(k) + len(v) for k, v in replay["settings"].items())
    cur = fails.get(r[0])
    if cur is None or size < cur[0]:
        fails[r[0]] = (size, r[1], replay, (cur[3] if cur else 0) + 1)
    else:
        fails[r[0]] = (cur[0], cur[1], cur[2], cur[3] + 1)


def run_part(ctx):
    EngineBase, write_for_run = _imports()
    box = Box()
    try:
        return _run(ctx, box, EngineBase, write_for_run)
    finally:
        box.clean()


def _run(ctx, box, EngineBase, write_for_run):
    have = ctx._driver_ok
    fails = {}
    # ------------------------------------------------ mdp
    cases = mdp_cases(ctx)
    mal = mdp_malformed(ctx)
    allc = cases + mal
    code = [mdp_code(box, EngineBase, t, s) for (t, s) in allc]
    code_rd = [mdp_read_code(box, EngineBase, c) if isinstance(c, str) and not c.startswith("err:") else None
               for c in code[: len(cases)]]
    st = {"regressed": 0}
    if have:
        outN = ctx.driver([f"mdpmodify {hexs(t)} {sett_tokens(s)}" for (t, s) in allc])
        outA = ctx.driver([f"mdpmodifyA {hexs(t)} {sett_tokens(s)}" for (t, s) in allc])
        outD = ctx.driver([f"mdpread {hexs(c)}" if isinstance(c, str) and not c.startswith("err:") else "mdpread -"
                           for c in code[: len(cases)]])
        # asIs | repaired variants of the open finding C19:mdp:dash-underscore-key (c19_variant.py): the code may agree
        # with the repaired model where the two differ; `agree` (and its regression naming) judges everything else
        from props import c19_variant as V
        outR = ctx.driver([f"mdpmodifyR {hexs(t)} {sett_tokens(s)}" for (t, s) in allc])
        vst = V._state(ctx)[SIG_MDP_DASH]
        for k, (t, s) in enumerate(allc):
            now, rep = unhex(outN[k]), unhex(outR[k])
            if now != rep:
                vst["models_differ"] += 1
                if code[k] == now:
                    vst["asIs"] += 1
                elif code[k] == rep:
                    vst["repaired"] += 1
                    continue
            agree(ctx, {"part": PART, "fn": "_modify_input", "template": t, "settings": {a: str(b) for a, b in s.items()}},
                  code[k], now, unhex(outA[k]), st)
        for k in range(len(cases)):
            if code_rd[k] is None or not isinstance(code_rd[k], dict):
                continue
            toks = outD[k].split()
            md = [(unhex(toks[1 + 2 * i]), unhex(toks[2 + 2 * i])) for i in range(int(toks[0]))]
            if md != list(code_rd[k].items()):
                ctx.disagree({"part": PART, "fn": "_read_input_settings", "text": code[k]}, list(code_rd[k].items()), md)
    for k, (t, s) in enumerate(cases):
        nontriv = any(kw_of(l)[1] in s for l in lines_nl(t))
        ctx.count(1, branch="mdp:" + ("requested-present" if nontriv else "append-only" if s else "no-settings"))
        if nontriv:
            ctx.distinct(("mdp", t, tuple(sorted((a, str(b)) for a, b in s.items()))))
        if not mdp_clean_settings(s):
            continue
        r = mdp_predicates(box, EngineBase, t, s, out=code[k])
        if r is not None:
            note_fail(fails, r, {"part": PART, "fn": "mdp", "template": t, "settings": {a: str(b) for a, b in s.items()}})
        r = mdp_dash_predicate(t, {a: str(b) for a, b in s.items()}, code[k])
        if r is not None:
            note_fail(fails, r, {"part": PART, "fn": "mdp-dash", "template": t, "settings": {a: str(b) for a, b in s.items()}})
        if k % 4001 == 0:
            ctx.sample({"fn": "_modify_input", "template": t, "settings": {a: str(b) for a, b in s.items()}, "code": code[k]})
    ctx.count(len(mal), branch="mdp:malformed-settings(model-vs-code only)")

    # ------------------------------------------------ LAMMPS
    lcases = lmp_cases(ctx)
    import locale
    utf8 = locale.getpreferredencoding(False).lower().replace("-", "") == "utf8"
    if not utf8:
        # write_for_run opens its files with the locale's encoding: non-ASCII templates would be decoded differently
        lcases = [(t, s) for (t, s) in lcases if t.isascii() and all(str(v).isascii() for v in s.values())]
        ctx.assumptions.append("preferred encoding is not UTF-8: non-ASCII LAMMPS templates were NOT compared in this run")
    lcode = [wfr_code(box, write_for_run, t, s) for (t, s) in lcases]
    st2 = {"regressed": 0}
    if have:
        outN = ctx.driver([f"wfr {hexs(t)} {sett_tokens(s)}" for (t, s) in lcases])
        outA = ctx.driver([f"wfrA {hexs(t)} {sett_tokens(s)}" for (t, s) in lcases])
        outS = ctx.driver([f"wfrS {hexs(t)} {sett_tokens(s)}" for (t, s) in lcases])
        outW = ctx.driver([f"wfrwords {hexs(t)} {sett_tokens(s)}" for (t, s) in lcases])
        for k, (t, s) in enumerate(lcases):
            a = outN[k].split()
            r = outA[k].split()
            r2 = outS[k].split()
            c = (("ok" if lcode[k][0] == "ok" else lcode[k][0]), lcode[k][1])
            case = {"part": PART, "fn": "write_for_run", "template": t, "settings": {x: str(y) for x, y in s.items()}}
            agree(ctx, case, c, (a[0], unhex(a[1])), (r[0], unhex(r[1])), st2,
                  older={"before 48a6c1e (substring replacement)": (r2[0], unhex(r2[1]))})
            # the Lean SPEC `wordsText` (right-hand side of lammps_edit_words) against the independent Python statement
            if lmp_word_keys(s) and unhex(outW[k]) != lmp_expected(t, s):
                ctx.disagree(dict(case, fn="wordsText(spec)"), lmp_expected(t, s), unhex(outW[k]))
    for k, (t, s) in enumerate(lcases):
        toks = set(t.split())
        nontriv = any(x in toks for x in s)
        ctx.count(1, branch="lammps:" + lcode[k][0])
        if nontriv:
            ctx.distinct(("lmp", t, tuple(sorted((a, str(b)) for a, b in s.items()))))
        if lmp_word_keys(s):
            ctx.hit("lammps:whole-word-predicate")
            r = lmp_word_predicate(t, s, lcode[k])
            if r is not None:
                note_fail(fails, r, {"part": PART, "fn": "lammps-word", "template": t,
                                     "settings": {a: str(b) for a, b in s.items()}})
        if not lmp_clean(t, s):
            continue
        ctx.hit("lammps:property-domain")
        r = lmp_predicates(box, write_for_run, t, s, first=lcode[k])
        if r is not None:
            note_fail(fails, r, {"part": PART, "fn": "lammps", "template": t, "settings": {a: str(b) for a, b in s.items()}})
        if k % 3001 == 0:
            ctx.sample({"fn": "write_for_run", "template": t, "settings": {a: str(b) for a, b in s.items()},
                        "code": list(lcode[k])})
    for sig in sorted(fails):
        size, what, replay, n = fails[sig]
        if sig in PENDING_FINDINGS:
            # (common.Ctx has no note(): the pending finding is written into the evidence file instead)
            ctx.extra.setdefault("pending_findings", {})[sig] = {"what": what, "inputs_this_run": n, "smallest": replay}
            ctx.hit("pending:" + sig)
            continue
        ctx.fail(sig, f"{what} [{n} failing inputs this run; smallest shown]", replay)
    ctx.extra["tmpl_cases_behaving_as_before_the_repairs"] = {"mdp": st["regressed"], "lammps": st2["regressed"]}
    ctx.assumptions += [
        "templates and values are without '\\r' (text-mode newline translation is not modelled); white space is str.isspace "
        "(all 29 code points, compared also on non-ASCII templates); files are read/written as UTF-8 (checked at start: "
        "the interpreter's preferred encoding is UTF-8, which write_for_run's open() uses)",
        "mdp delimiter is '=' (the only one the engines pass); settings values are compared through str()",
        "mdp predicates are stated for non-empty keys without '=', newline or outer blanks and values without newline; "
        "LAMMPS: the word-by-word predicate is stated for variables that are single words, on every line where no value "
        "has a LATER variable of the same line among its words (Lean lammps_edit_words; other lines model-vs-code only); "
        "the full property (no variable remains, second application) for templates where every variable is a word and "
        "no value has a variable among its words (Lean lammps_no_var_remains_partial)",
    ]
    return ("templates: all mdp/LAMMPS templates of ≤ 3 (thorough: 4) lines over a 7/6-line alphabet × final newline "
            "present/absent × 5 settings dicts, then seeded random templates of ≤ 9 lines from a grammar with comments, "
            "duplicate keys, prefix keys, several '=' per line, variables on several lines / twice on a line / inside "
            "longer tokens, values with white space / with variable names as words and inside longer words / with "
            "regex-special characters, every str.isspace character and 12 look-alikes as separator (exhaustive), random "
            "word/separator lines over ASCII and non-ASCII white space, plus the repo's own .mdp and lammps.input files; "
            "non-trivial = a requested key/variable occurs in the template; distinct by (template, settings)")


def replay_part(ctx, obj):
    r = obj.get("replay", {})
    if r.get("part") != PART:
        return None
    EngineBase, write_for_run = _imports()
    box = Box()
    try:
        if r.get("fn") == "mdp":
            res = mdp_predicates(box, EngineBase, r["template"], r["settings"])
        elif r.get("fn") == "mdp-dash":
            res = mdp_dash_predicate(r["template"], r["settings"], mdp_code(box, EngineBase, r["template"], r["settings"]))
        elif r.get("fn") == "lammps-word":
            res = lmp_word_predicate(r["template"], r["settings"],
                                     wfr_code(box, write_for_run, r["template"], r["settings"]))
            if res is not None and res[0] in PENDING_FINDINGS:
                print("replay: pending finding (not counted):", res)
                res = None
        else:
            res = lmp_predicates(box, write_for_run, r["template"], r["settings"])
    finally:
        box.clean()
    print("replay:", res)
    return 0 if res is None else 1
