"""C19, part "uni" — the text codecs and the CP2K editor on texts with NON-ASCII characters (audit of 2026-09-30).

Python's `str.split()`, `str.strip()`, `float()` and `int()` use `str.isspace`: 29 white-space code points, 19 of them
not ASCII (U+0085, U+00A0, U+1680, U+2000–200A, U+2028, U+2029, U+202F, U+205F, U+3000).  The other parts of this
package feed ASCII only (their wire format is hex of bytes), and the shared `Model/Codec.lean` knows the ten ASCII
white-space characters only.  This part compares, on texts that DO hold such characters (as separators, inside atom
names, g96 title lines and labels, CP2K data lines, keywords and values) and on texts with other non-ASCII characters
(letters, zero-width look-alikes that are NOT white space):

  engineparts.write_xyz_trajectory / read_xyz_file / convert_snapshot, CP2KEngine._read_configuration /
  _extract_frame / _reverse_velocities                     vs  Model/CodecUni.lean   (ops xyzreadU xyzconfU xyzextractU xyzrevU)
  gromacs.write_gromos96_file / read_gromos96_file / GromacsEngine._reverse_velocities
                                                          vs  Model/CodecUni.lean   (ops g96readU g96revU)
  cp2k.update_cp2k_input                                  vs  Model/TemplateCp2k.lean (op cp2ktext; Latin-1 texts,
                                                              chain-shaped templates so that set order is immaterial)

and evaluates the property on the real code, independent of the model, on the domain of the Lean theorems: names /
labels / title lines without any `str.isspace` character round-trip (also with non-ASCII letters); single-token
keywords edit idempotently.  Inputs outside that domain (white space inside a name, …) are compared model-vs-code only.
Text tokens: Latin-1 hex, or `U` + six hex digits per code point (ops `…U`); Latin-1 hex only for `cp2ktext`.
"""
from __future__ import annotations

import os
import shutil
import tempfile
import types

from common import err_kind
from props import c19_codec as CC
from props.c19_tmpl import hexs as uhex, unhex

PART = "uni"
WS_ASCII = " \t\x0b\x0c\x1c\x1d\x1e\x1f"
WS_EXOTIC = "\x85\xa0\u1680\u2000\u2003\u2009\u200a\u2028\u2029\u202f\u205f\u3000"
NOT_WS = "\u200b\u180e\ufeff\u2060\xad"          # look-alikes that are NOT white space
LETTERS = "\xe9\xc5\xdf\xb5\u6c34\u03a9"


def isws(s):
    return any(c.isspace() for c in s)


def norm_ws(s):
    """non-ASCII white space shown as a blank (what the xyz model does with the kept header string)"""
    return "".join(" " if (c.isspace() and c not in " \t\n\r\x0b\x0c\x1c\x1d\x1e\x1f") else c for c in s)


def ulst(xs):
    return " ".join([str(len(xs))] + [uhex(x) for x in xs])


def get(path):
    with open(path, encoding="utf-8", newline="") as f:
        return f.read()


def put(path, text):
    with open(path, "w", encoding="utf-8", newline="") as f:
        f.write(text)


# ----------------------------------------------------------------------------------------- xyz
def gen_name(rng):
    u = rng.random()
    base = rng.choice(["Ar", "O", "H1", "Cl", "X", "OW"])
    if u < 0.35:
        return base
    if u < 0.55:                                            # non-ASCII, no white space
        return rng.choice([base + rng.choice(LETTERS), rng.choice(LETTERS) + base, rng.choice(NOT_WS) + base,
                           base + rng.choice(NOT_WS) + "q", rng.choice(LETTERS)])
    w = rng.choice(WS_EXOTIC + WS_EXOTIC + WS_ASCII[1:])    # white space inside / before / after the name
    return rng.choice([base + w + "B", w + base, base + w, w])


def snap_canon_u(s):
    cols = " ".join(CC.lst([CC.f2d(v) for v in s.get(k, [])], CC.dtok) for k in ("x", "y", "z", "vx", "vy", "vz"))
    return f"H {uhex(norm_ws(s['header']))} BOX {CC.optbox(s.get('box'))} N {ulst(s.get('atomname', []))} {cols}"


def conf_canon_u(res_box, xyz, vel, names):
    import numpy as np
    return ("ok BOX " + CC.optbox(res_box) + " N " + ulst(list(names)) + " X "
            + CC.lst([CC.f2d(v) for v in np.asarray(xyz).flatten()], CC.dtok) + " W "
            + CC.lst([CC.f2d(v) for v in np.asarray(vel).flatten()], CC.dtok))


def xyz_read_real(engineparts, path):
    frames, err = [], "none"
    try:
        for s in engineparts.read_xyz_file(path):
            frames.append(s)
    except Exception as e:  # noqa: BLE001
        err = err_kind(e)
    return frames, "F " + " ".join([str(len(frames))] + [snap_canon_u(s) for s in frames]) + " E " + err


def xyz_conf_real(cp2k, path):
    try:
        xyz, vel, box, names = cp2k.CP2KEngine._read_configuration(path)
        return conf_canon_u(box, xyz, vel, names), (xyz, vel, box, names)
    except Exception as e:  # noqa: BLE001
        return err_kind(e), None


def text_or_err(fn, out):
    if os.path.exists(out):
        os.remove(out)
    try:
        fn()
    except Exception as e:  # noqa: BLE001
        return err_kind(e)
    return "ok " + uhex(get(out)) if os.path.exists(out) else "ok none"


def respace(rng, text):
    """replace some of the blanks BETWEEN the fields of a written frame by other white space (also non-ASCII): the
    readers split on any white space, so the frame must read the same"""
    out = []
    for ch in text:
        if ch == " " and rng.random() < 0.25:
            out.append(rng.choice(WS_EXOTIC + "\t\x0b\x1f"))
        else:
            out.append(ch)
    return "".join(out)


def xyz_block(ctx, d, fails):
    rng = ctx.rng
    gromacs, engineparts, cp2k = CC._eng()
    lines, meta = [], []
    n_cases = 140 if ctx.quick else 1500
    f = os.path.join(d, "u.xyz")
    o = os.path.join(d, "o.xyz")
    eng = CC.cp2k_ns(cp2k)
    for i in range(n_cases):
        m = rng.choice((1, 1, 2, 3))
        frames = []
        for _ in range(m):
            case = CC.gen_xyz(rng, allow_zero=False, plain=True)
            case["names"] = [gen_name(rng) for _ in case["pos"]]
            frames.append(case)
        if os.path.exists(f):
            os.remove(f)
        for k, case in enumerate(frames):
            CC.xyz_write_code(engineparts, f, case, append=k > 0, plain=True)
        text = get(f)
        kind = "written"
        if rng.random() < 0.3:
            text = respace(rng, text)
            put(f, text)
            kind = "respaced"
        _, read_c = xyz_read_real(engineparts, f)
        conf_c, conf_v = xyz_conf_real(cp2k, f)
        k = rng.randint(0, m)
        ext_c = text_or_err(lambda: cp2k.CP2KEngine._extract_frame(eng, f, k, o), o)
        rev_c = text_or_err(lambda: cp2k.CP2KEngine._reverse_velocities(eng, f, o), o)
        th = uhex(text)
        lines += [f"xyzreadU {th}", f"xyzconfU {th}", f"xyzextractU {k} {th}", f"xyzrevU {th}"]
        clean = all(not isws(nm) and nm for c in frames for nm in c["names"])
        meta.append((kind, clean, frames, text, k, (read_c, conf_c, ext_c, rev_c), conf_v))
    outs = ctx.driver(lines) if ctx._driver_ok else None
    for i, (kind, clean, frames, text, k, code, conf_v) in enumerate(meta):
        ctx.count(1, branch=f"uni:xyz-{kind}-" + ("names-without-white-space" if clean else "white-space-in-a-name"))
        if clean:
            ctx.distinct(("uni-xyz", text))
        if outs is not None:
            for j, fn in enumerate(("read_xyz_file", "_read_configuration", "_extract_frame", "_reverse_velocities")):
                if code[j] != outs[4 * i + j]:
                    ctx.disagree({"part": PART, "fn": fn, "text": text, "k": k}, code[j], outs[4 * i + j])
        # the property on the real code (domain of Lean xyz_read_write_roundtrip: no white space of ANY kind in a name)
        if clean:
            if conf_v is None or not CC.conf_equals(conf_v, frames[0], frames[0]["vel"]):
                fails.setdefault("C19:uni:xyz-roundtrip", ("names without white space (non-ASCII letters allowed): the "
                                 f"first frame does not read back as written: {code[1][:200]}",
                                 {"part": PART, "kind": "xyz", "frames": frames, "respaced": kind == "respaced",
                                  "text": text}))
    return len(meta)


# ----------------------------------------------------------------------------------------- g96
def gen_label(rng):
    base = f"{rng.randint(1, 99999):5d} {rng.choice(['SOL', 'MET', 'CL']):<5s} {rng.choice(['OW', 'HW1', 'C']):<6s}{rng.randint(1, 999999):6d}"
    assert len(base) == 24
    u = rng.random()
    if u < 0.4:
        return base
    pos = rng.randrange(24)
    ch = rng.choice(LETTERS + NOT_WS) if u < 0.7 else rng.choice(WS_EXOTIC)
    return base[:pos] + ch + base[pos + 1:]


def gen_title(rng):
    u = rng.random()
    t = rng.choice(["water box", "t= 0.5", "Generated by infretis", "x"])
    if u < 0.35:
        return t
    if u < 0.6:
        return t + rng.choice(LETTERS) + rng.choice(["", " y"])
    w = rng.choice(WS_EXOTIC)
    return rng.choice([t + w, w + t, t + w + "z", w + "END", "TITLE" + w, w + "BOX" + w, w])


def g96_block(ctx, d, fails):
    import numpy as np
    rng = ctx.rng
    gromacs, engineparts, cp2k = CC._eng()
    f = os.path.join(d, "u.g96")
    o = os.path.join(d, "o.g96")
    eng = types.SimpleNamespace(ext="g96")
    lines, meta = [], []
    for _ in range(120 if ctx.quick else 1200):
        n = rng.choice((0, 1, 2, 3))
        labels = [gen_label(rng) for _ in range(n)]
        title = [gen_title(rng) for _ in range(rng.choice((0, 1, 1, 2)))]
        pos, vel = CC.gen_rows(rng, n), CC.gen_rows(rng, n)
        box = [CC.gen_dec(rng, neg_ok=False, maxint=10 ** 3) for _ in range(rng.choice((3, 9)))]
        raw = {"TITLE": list(title), "POSITION": list(labels), "VELOCITY": list(labels), "BOX": ["x"]}
        gromacs.write_gromos96_file(f, raw, CC.arr(pos), CC.arr(vel), np.array([CC.d2f(b) for b in box]))
        text = get(f)
        try:
            res = gromacs.read_gromos96_file(f)
            read_c = ("ok T " + ulst(res[0]["TITLE"]) + " P " + ulst(res[0]["POSITION"]) + " V " + ulst(res[0]["VELOCITY"])
                      + " B " + ulst(res[0]["BOX"]) + " X " + CC.lst([CC.f2d(v) for v in np.asarray(res[1]).flatten()], CC.dtok)
                      + " W " + CC.lst([CC.f2d(v) for v in np.asarray(res[2]).flatten()], CC.dtok)
                      + " BOX " + ("none" if res[3] is None else CC.lst([CC.f2d(v) for v in res[3]], CC.dtok)))
        except Exception as e:  # noqa: BLE001
            res, read_c = None, err_kind(e)
        rev_c = text_or_err(lambda: gromacs.GromacsEngine._reverse_velocities(eng, f, o), o)
        th = uhex(text)
        lines += [f"g96readU {th}", f"g96revU {th}"]
        clean = all(not any(c.isspace() and c != " " for c in s) for s in title + labels) and \
            all(t == t.strip() and t and t.strip() not in CC.G96_KEYS for t in title)
        meta.append((clean, title, labels, pos, vel, box, text, read_c, rev_c, res))
    outs = ctx.driver(lines) if ctx._driver_ok else None
    for i, (clean, title, labels, pos, vel, box, text, read_c, rev_c, res) in enumerate(meta):
        ctx.count(1, branch="uni:g96-" + ("kept-strings-without-odd-white-space" if clean else "odd-white-space-in-title-or-label"))
        if clean:
            ctx.distinct(("uni-g96", text))
        if outs is not None:
            if read_c != outs[2 * i]:
                ctx.disagree({"part": PART, "fn": "read_gromos96_file", "text": text}, read_c, outs[2 * i])
            if rev_c != outs[2 * i + 1]:
                ctx.disagree({"part": PART, "fn": "GromacsEngine._reverse_velocities", "text": text}, rev_c, outs[2 * i + 1])
        if clean:
            okay = res is not None and res[0]["TITLE"] == title and res[0]["POSITION"] == labels and \
                res[0]["VELOCITY"] == labels and CC.rows_eq(res[1], pos) and CC.rows_eq(res[2], vel) and \
                res[3] is not None and [CC.nz(CC.f2d(v)) for v in res[3]] == [CC.nz(b) for b in box]
            if not okay:
                fails.setdefault("C19:uni:g96-roundtrip", ("title lines / labels without odd white space (non-ASCII letters "
                                 f"allowed) do not read back as written: {read_c[:200]}",
                                 {"part": PART, "kind": "g96", "title": title, "labels": labels, "pos": CC.as_lists(pos),
                                  "vel": CC.as_lists(vel), "box": [[int(b[0]), int(b[1])] for b in box]}))
    return len(meta)


# ----------------------------------------------------------------------------------------- cp2k (Latin-1)
L1_WS = "\x85\xa0"
L1_LET = "\xe9\xb5\xd8"


def l1hex(s):
    return s.encode("latin-1").hex() if s else "-"


def gen_cp2k(rng):
    """a chain-shaped template (every section has at most one sub-section), titles ASCII"""
    depth = rng.randint(1, 3)
    titles = rng.sample(["MOTION", "md", "Print", "EACH", "GLOBAL"], depth)
    lines = []

    def deco(s):
        u = rng.random()
        if u < 0.5:
            return s
        w = rng.choice(L1_WS + " \t")
        return rng.choice([s + w, w + s, w + s + w])

    for lvl, t in enumerate(titles):
        sett = rng.choice(["", "", " X", " X\xa0Y", "\x85ON", " \xe9"])
        lines.append(deco("  " * lvl + "&" + t + sett))
        for _ in range(rng.randint(0, 3)):
            kw = rng.choice(["STEPS", "steps", "TIMESTEP", "K\xa0L", "caf\xe9", "\xb5", "PROJECT"])
            val = rng.choice(["10", "0.5", "a\xa0b", "x y", "", "\xe9t\xe9", "[fs] 2"])
            sep = rng.choice([" ", "\xa0", "\x85", "\t", "  "])
            lines.append(deco("  " * (lvl + 1) + kw + (sep + val if val else "")))
        if rng.random() < 0.15:
            lines.append(rng.choice(["\xa0", "\x85\x85", " \xa0 "]))      # blank for Python, not for ASCII strip
    for lvl in reversed(range(depth)):
        lines.append(deco("  " * lvl + rng.choice(["&END", "&end " + titles[lvl], "&END" + rng.choice(L1_WS) + titles[lvl]])))
    text = "\n".join(lines) + "\n"
    path = "->".join(t.upper() for t in titles[:rng.randint(1, depth)])
    upd = {}
    u = rng.random()
    if u < 0.8:
        keys = rng.sample(["STEPS", "TIMESTEP", "K\xa0L", "caf\xe9", "NEW", "K"], rng.randint(1, 2))
        data = {k: rng.choice([21, "a\xa0b", None, "\xe9", 0.5]) for k in keys}
        upd[path] = {"data": data}
        if rng.random() < 0.3:
            upd[path]["settings"] = rng.choice([["X"], ["\xe9"], ["Y", "X"]])
    if u > 0.6:
        # under the deepest section, so that the forest stays a chain (sibling order never matters)
        upd["->".join(t.upper() for t in titles) + "->ADDED"] = {"data": {"A": 1, "B\xb5": None}}
    return text, upd


def cp2k_tokens(update):
    from props.c19_cp2k import upd_tokens
    import props.c19_cp2k as P
    old = P.hexs
    P.hexs = l1hex                       # the token builder of the cp2k part, with Latin-1 instead of UTF-8 bytes
    try:
        return upd_tokens(update)
    finally:
        P.hexs = old


def cp2k_block(ctx, d, fails):
    rng = ctx.rng
    import importlib.util  # noqa: F401
    from infretis.classes.engines import cp2k as C
    a, b, c = (os.path.join(d, x) for x in ("a.inp", "b.inp", "c.inp"))
    lines, meta = [], []
    for _ in range(160 if ctx.quick else 2000):
        text, upd = gen_cp2k(rng)
        put(a, text)
        try:
            C.update_cp2k_input(a, b, copy_upd(upd), None)
            out = get(b)
            code = l1hex(out)
        except Exception as e:  # noqa: BLE001
            out, code = None, err_kind(e)
        lines.append(" ".join(["cp2ktext", l1hex(text)] + cp2k_tokens(upd) + ["0"]))
        meta.append((text, upd, out, code))
    outs = ctx.driver(lines) if ctx._driver_ok else None
    if outs is not None:
        from props import c19_variant as V
        V.settle(ctx, PART, [({"fn": "update_cp2k_input", "text": m[0], "update": repr(m[1])}, m[3], line, o)
                             for m, line, o in zip(meta, lines, outs)])
    for i, (text, upd, out, code) in enumerate(meta):
        odd = any(ch in text for ch in L1_WS)
        ctx.count(1, branch="uni:cp2k-" + ("non-ascii-white-space" if odd else "latin-1-letters-only"))
        ctx.distinct(("uni-cp2k", text, repr(upd)))
        # the property on the real code: keywords that are single tokens (no white space of any kind) edit idempotently
        toks_ok = all(k and not isws(k) for v in upd.values() for k in v.get("data", {}))
        if out is not None and toks_ok:
            put(b, out)
            try:
                C.update_cp2k_input(b, c, copy_upd(upd), None)
                out2 = get(c)
            except Exception as e:  # noqa: BLE001
                out2 = err_kind(e)
            if out2 != out:
                fails.setdefault("C19:uni:cp2k-not-idempotent", (f"second application gives {out2!r}, first gave {out!r}",
                                 {"part": PART, "kind": "cp2k", "text": text, "update": enc(upd)}))
            put(a, text)
            put(b, out)
            bad = cp2k_requested_once(C, a, b, upd)
            if bad:
                fails.setdefault("C19:uni:cp2k-requested-entry", (bad, {"part": PART, "kind": "cp2k-entry", "text": text,
                                                                      "update": enc(upd)}))
    return len(meta)


def cp2k_requested_once(C, tmpl_path, out_path, upd):
    """`exactly the requested entries change`, on the real output and independent of the model: in every addressed
    section each requested keyword is the first word (white space = str.split) of as many lines as before — at least
    one — and each of these lines is `KEY value` (bare `KEY` for None)"""
    before = C.set_parents(C.read_cp2k_input(tmpl_path))
    after = C.set_parents(C.read_cp2k_input(out_path))
    for tgt, val in upd.items():
        if val.get("replace") or not isinstance(val.get("data", {}), dict):
            continue
        if tgt not in after:
            return f"section {tgt!r} is missing after the edit"
        for k, v in val.get("data", {}).items():
            want = str(k) if v is None else f"{k} {v}".strip()
            n0 = sum(1 for l in before[tgt].data if l.split()[:1] == [k]) if tgt in before else 0
            # CP2K reads keywords case-insensitively: a tree that does so too (repaired variant of the open finding
            # C19:cp2k:wfrvel:keyword-case) rewrites the lines that spell the keyword in another case as well
            n0ci = sum(1 for l in before[tgt].data if l.split() and l.split()[0].upper() == str(k).upper()) if tgt in before else 0
            got = [l for l in after[tgt].data if l.split()[:1] == [k]]
            if len(got) not in (max(1, n0), max(1, n0ci)) or any(g != want for g in got):
                return (f"{tgt}: requested {want!r}; lines of the section that start with the word {k!r}: {got!r} "
                        f"(the template had {n0})")
    return None


def copy_upd(upd):
    import copy
    return copy.deepcopy(upd)


def enc(upd):
    from props.c19_cp2k import enc_update
    return enc_update(upd)


# ----------------------------------------------------------------------------------------- CP2K cell lines
def boxdata_block(ctx, fails):
    """read_box_data on CELL lines whose numbers are separated by white space of every kind (`line.split()` is
    str.isspace; only the ONE blank after the keyword is literal: `startswith(f"{key} ")`).  Model: `splitPy`.
    Predicate, independent of the model: the box read from a line does not depend on WHICH white space separates the
    numbers (every separator replaced by a blank gives the same answer)."""
    import numpy as np
    from props import c19_boxdata as BD
    from infretis.classes.engines import cp2k as C
    rng = ctx.rng
    seps = [" ", "  ", "\t", "\xa0", "\x85", " \xa0", "\x1f", "\x0b"]
    lines_, meta = [], []
    for _ in range(150 if ctx.quick else 1500):
        ls = []
        for key in rng.sample(["A", "B", "C", "ABC", "ALPHA_BETA_GAMMA", "PERIODIC"], rng.randint(1, 4)):
            first = rng.choice([" ", " ", " ", "\xa0", "\t"])          # not a blank: the line is not recognised
            if key == "PERIODIC":
                body = rng.choice(["XYZ", "xy", "NONE", "x" + rng.choice(seps) + "z"])
            elif key == "ALPHA_BETA_GAMMA":
                body = rng.choice(seps).join(["90", "90", "90"][:rng.choice((2, 3, 3))])
            else:
                body = rng.choice(seps).join(str(rng.randint(-9, 30)) for _ in range(rng.choice((1, 3, 3, 3, 4))))
            ls.append(key + first + body + rng.choice(["", "", "\xa0"]))
        real = BD.run_real(np, C, ls)
        plain = BD.run_real(np, C, ["".join(" " if (ch.isspace()) else ch for ch in l) for l in ls])
        lines_.append("boxdata " + " ".join([str(len(ls))] + [l1hex(l) for l in ls]))
        meta.append((ls, real, plain))
    outs = ctx.driver(lines_) if ctx._driver_ok else None
    for i, (ls, real, plain) in enumerate(meta):
        odd = any(ch in l for l in ls for ch in "\xa0\x85\x1f\x0b")
        ctx.count(1, branch="uni:boxdata-" + ("odd-white-space" if odd else "blanks-and-tabs"))
        ctx.distinct(("uni-boxdata", tuple(ls)))
        if outs is not None and outs[i] != "outside" and real != outs[i]:
            ctx.disagree({"part": PART, "fn": "read_box_data", "lines": ls}, real, outs[i])
        # only separators AFTER the keyword's own blank may be exchanged: compare when every line keeps its `KEY ` prefix
        if all(l.split(" ", 1)[0] in ("A", "B", "C", "ABC", "ALPHA_BETA_GAMMA", "PERIODIC") and " " in l for l in ls) \
                and real != plain:
            fails.setdefault("C19:uni:boxdata-separator", (f"CELL lines {ls!r} read as {real}, with blanks as separators {plain}",
                                                            {"part": PART, "kind": "boxdata", "lines": ls}))
    return len(meta)


# ----------------------------------------------------------------------------------------- never-executed branches
def misc_block(ctx, d, fails):
    """the branches of modelled / tied functions that the audit's statement coverage showed as never executed by the
    tie: each has a one-line specification, judged here on the real code"""
    import numpy as np
    gromacs, engineparts, cp2k = CC._eng()
    from infretis.classes.engines import lammps
    bad = []
    # write_for_run(infile, outfile, None): no settings = a byte-for-byte copy, no error
    a, b = os.path.join(d, "m.in"), os.path.join(d, "m.out")
    put(a, "variable a index infretis_a\nrun 1")
    try:
        lammps.write_for_run(a, b, None)
        if get(b) != get(a):
            bad.append("write_for_run(..., None) did not copy the template")
    except Exception as e:  # noqa: BLE001
        bad.append(f"write_for_run(..., None) raised {err_kind(e)}")
    # swap_endian: the two byte orders are swapped, anything else is a ValueError
    try:
        ok = gromacs.swap_endian(">") == "<" and gromacs.swap_endian("<") == ">"
        try:
            gromacs.swap_endian("=")
            ok = False
        except ValueError:
            pass
        if not ok:
            bad.append("swap_endian does not swap '<' and '>' / accepts another string")
    except Exception as e:  # noqa: BLE001
        bad.append(f"swap_endian raised {err_kind(e)}")
    # box_matrix_to_list(None) is None
    try:
        if engineparts.box_matrix_to_list(None) is not None or engineparts.box_matrix_to_list(None, full=True) is not None:
            bad.append("box_matrix_to_list(None) is not None")
    except Exception as e:  # noqa: BLE001
        bad.append(f"box_matrix_to_list(None) raised {err_kind(e)}")
    # GromacsEngine._reverse_velocities refuses other extensions without writing anything
    o = os.path.join(d, "m.gro")
    try:
        gromacs.GromacsEngine._reverse_velocities(types.SimpleNamespace(ext="gro"), a, o)
        bad.append("GromacsEngine._reverse_velocities accepted ext='gro'")
    except ValueError:
        if os.path.exists(o):
            bad.append("GromacsEngine._reverse_velocities wrote a file before refusing ext='gro'")
    except Exception as e:  # noqa: BLE001
        bad.append(f"GromacsEngine._reverse_velocities(ext='gro') raised {err_kind(e)}, not ValueError")
    # CP2KEngine._extract_frame overwrites an existing out_file with frame k alone
    f, o = os.path.join(d, "m.xyz"), os.path.join(d, "mo.xyz")
    c0 = CC.gen_xyz(ctx.rng, allow_zero=False, plain=True)
    c1 = CC.gen_xyz(ctx.rng, allow_zero=False, plain=True)
    CC.xyz_write_code(engineparts, f, c0, plain=True)
    CC.xyz_write_code(engineparts, f, c1, append=True, plain=True)
    CC.xyz_write_code(engineparts, o, c0, plain=True)
    want = os.path.join(d, "mw.xyz")
    CC.xyz_write_code(engineparts, want, c1, plain=True)
    try:
        cp2k.CP2KEngine._extract_frame(CC.cp2k_ns(cp2k), f, 1, o)
        if CC.unsign_zero(get(o).encode()) != CC.unsign_zero(get(want).encode()):
            bad.append("CP2KEngine._extract_frame onto an existing file did not leave frame k alone in it")
    except Exception as e:  # noqa: BLE001
        bad.append(f"CP2KEngine._extract_frame onto an existing file raised {err_kind(e)}")
    ctx.count(5, branch="uni:rare-branches")
    if bad:
        fails.setdefault("C19:uni:rare-branch", ("; ".join(bad), {"part": PART, "kind": "misc"}))


# ----------------------------------------------------------------------------------------- run
def run_part(ctx):
    d = tempfile.mkdtemp(prefix="c19uni-", dir="/var/tmp")
    fails = {}
    try:
        # the white-space table itself: the model's `isSpace` (op splitws of Model/Template.lean is the same predicate the
        # readers' `norm` is built on) against str.isspace for every code point below U+3100 and a sample above
        if ctx._driver_ok:
            pts = list(range(0x3100)) + [0xFEFF, 0x1D7D8, 0x10FFFF]
            pts = [p for p in pts if not (0xD800 <= p <= 0xDFFF)]
            outs = ctx.driver([f"splitws {uhex('a' + chr(p) + 'b')}" for p in pts])
            for p, o in zip(pts, outs):
                want = ("a" + chr(p) + "b").split()
                got = [unhex(t) for t in o.split()[1:]]
                if got != want:
                    ctx.disagree({"part": PART, "fn": "str.split", "code_point": p}, want, got)
            ctx.count(len(pts), branch="uni:white-space-table")
        n1 = xyz_block(ctx, d, fails)
        n2 = g96_block(ctx, d, fails)
        n3 = cp2k_block(ctx, d, fails)
        misc_block(ctx, d, fails)
        boxdata_block(ctx, fails)
    finally:
        shutil.rmtree(d, ignore_errors=True)
    for sig in sorted(fails):
        what, replay = fails[sig]
        ctx.fail(sig, what, replay)
    ctx.assumptions += [
        "non-ASCII texts: xyz / g96 readers compared with Model/CodecUni.lean for every code point class (12 of the 19 "
        "non-ASCII white-space characters sampled per run, all 29 checked against the model's table); the xyz header "
        "string is compared with non-ASCII white space shown as blanks; CP2K templates with Latin-1 characters only "
        "(wire format of the cp2k ops), chain-shaped, ASCII section names (str.upper() beyond ASCII is outside the model)",
    ]
    return (f"non-ASCII: {n1} xyz trajectories (1-3 frames, names with non-ASCII letters / zero-width look-alikes / white "
            f"space of every kind; 30 % with field separators replaced by other white space), {n2} g96 files (title lines "
            f"and labels likewise), {n3} chain-shaped Latin-1 CP2K templates with updates; distinct by text")


def replay_part(ctx, obj):
    r = obj.get("replay", {})
    if r.get("part") != PART:
        return None
    import numpy as np
    gromacs, engineparts, cp2k = CC._eng()
    d = tempfile.mkdtemp(prefix="c19uni-", dir="/var/tmp")
    try:
        if r.get("kind") == "xyz":
            f = os.path.join(d, "u.xyz")
            if r.get("respaced"):
                put(f, r["text"])
            else:
                for k, case in enumerate(r["frames"]):
                    CC.xyz_write_code(engineparts, f, case, append=k > 0, plain=True)
            _, v = xyz_conf_real(cp2k, f)
            bad = v is None or not CC.conf_equals(v, r["frames"][0], r["frames"][0]["vel"])
        elif r.get("kind") == "g96":
            f = os.path.join(d, "u.g96")
            raw = {"TITLE": list(r["title"]), "POSITION": list(r["labels"]), "VELOCITY": list(r["labels"]), "BOX": ["x"]}
            gromacs.write_gromos96_file(f, raw, CC.arr(r["pos"]), CC.arr(r["vel"]), np.array([CC.d2f(b) for b in r["box"]]))
            try:
                res = gromacs.read_gromos96_file(f)
                bad = not (res[0]["TITLE"] == r["title"] and res[0]["POSITION"] == r["labels"] and res[0]["VELOCITY"] == r["labels"]
                           and CC.rows_eq(res[1], r["pos"]) and CC.rows_eq(res[2], r["vel"]) and res[3] is not None
                           and [CC.nz(CC.f2d(v)) for v in res[3]] == [CC.nz(b) for b in r["box"]])
            except Exception:  # noqa: BLE001
                bad = True
        elif r.get("kind") == "boxdata":
            from props import c19_boxdata as BD
            from infretis.classes.engines import cp2k as C
            ls = r["lines"]
            bad = BD.run_real(np, C, ls) != BD.run_real(np, C, ["".join(" " if ch.isspace() else ch for ch in l) for l in ls])
        elif r.get("kind") == "misc":
            fl = {}
            misc_block(types.SimpleNamespace(rng=__import__("random").Random(0), count=lambda *a, **k: None), d, fl)
            bad = bool(fl)
        elif r.get("kind") == "cp2k-entry":
            from infretis.classes.engines import cp2k as C
            from props.c19_cp2k import dec_update
            a, b = (os.path.join(d, x) for x in ("a.inp", "b.inp"))
            put(a, r["text"])
            upd = dec_update(r["update"])
            try:
                C.update_cp2k_input(a, b, copy_upd(upd), None)
                bad = cp2k_requested_once(C, a, b, upd) is not None
            except Exception:  # noqa: BLE001
                bad = True
        elif r.get("kind") == "cp2k":
            from infretis.classes.engines import cp2k as C
            from props.c19_cp2k import dec_update
            a, b, c = (os.path.join(d, x) for x in ("a.inp", "b.inp", "c.inp"))
            put(a, r["text"])
            try:
                C.update_cp2k_input(a, b, dec_update(r["update"]), None)
                C.update_cp2k_input(b, c, dec_update(r["update"]), None)
                bad = get(b) != get(c)
            except Exception:  # noqa: BLE001
                bad = True
        else:
            return None
    finally:
        shutil.rmtree(d, ignore_errors=True)
    print("replay:", "still fails" if bad else "passes")
    return 1 if bad else 0
