"""C19 — the `Variant asIs | repaired` scheme (DESIGN §7) for the two OPEN findings

    C19:cp2k:wfrvel:keyword-case   update_node compares CP2K keywords literally       (Model/TemplateCp2kRepaired.lean)
    C19:mdp:dash-underscore-key    _modify_input compares mdp names literally ('-' vs '_')   (Model/TemplateRepaired.lean)

Every driver op that runs one of the two editors exists twice: `op` = the code as it is (`asIs`), `opR` = the repaired
variant.  `settle` compares the real code with both:
  * code == asIs model                → agreement (where the two models differ the finding is still there; the property
                                         predicate of the part reports it under its open signature → KNOWN-FINDING);
  * code != asIs, code == repaired    → silent: the finding was repaired upstream;
  * neither                           → a broken correspondence (ctx.disagree).
`finish` (called once at the end of the run) makes "asIs on some inputs, repaired on others" a disagreement too.
"""
from __future__ import annotations

REPAIRED_OPS = {"cp2kupdate": "cp2kupdateR", "cp2ktext": "cp2ktextR", "cp2kwfrvel": "cp2kwfrvelR",
                "mdpmodify": "mdpmodifyR"}
FINDING_OF = {"cp2kupdate": "C19:cp2k:wfrvel:keyword-case", "cp2ktext": "C19:cp2k:wfrvel:keyword-case",
              "cp2kwfrvel": "C19:cp2k:wfrvel:keyword-case", "mdpmodify": "C19:mdp:dash-underscore-key"}


def _state(ctx):
    return ctx.extra.setdefault("variants", {s: {"asIs": 0, "repaired": 0, "models_differ": 0}
                                             for s in sorted(set(FINDING_OF.values()))})


def repaired_line(line):
    op, _, rest = line.partition(" ")
    return (REPAIRED_OPS[op] + " " + rest) if op in REPAIRED_OPS else None


def settle(ctx, part, items, same=None, conv=None):
    """items: list of (case, code, driver line, answer of the asIs model).  `same(code, model)`: equality used by the part
    (default ==); `conv`: answer -> the form `code` is in (default identity)"""
    same = same or (lambda a, b: a == b)
    conv = conv or (lambda x: x)
    idx = [i for i, it in enumerate(items) if repaired_line(it[2]) is not None]
    rep = dict(zip(idx, ctx.driver([repaired_line(items[i][2]) for i in idx]))) if idx else {}
    st = _state(ctx)
    status = {}                      # index -> "asIs" | "repaired" | "same" | "neither" | "n/a"
    for i, (case, code, line, asis) in enumerate(items):
        a = conv(asis)
        if i not in rep:
            status[i] = "n/a"
            if not same(code, a):
                ctx.disagree({"part": part, **case}, code, a)
            continue
        r = conv(rep[i])
        sig = FINDING_OF[line.partition(" ")[0]]
        differ = not same(a, r) and not (a == r)
        if differ:
            st[sig]["models_differ"] += 1
        if same(code, a):
            status[i] = "asIs" if differ else "same"
            if differ:
                st[sig]["asIs"] += 1
        elif same(code, r):
            status[i] = "repaired"
            st[sig]["repaired"] += 1
        else:
            status[i] = "neither"
            ctx.disagree({"part": part, **case}, code, a, note=f"repaired variant ({sig}): {r}")
    return status


def finish(ctx):
    for sig, c in _state(ctx).items():
        if c["asIs"] and c["repaired"]:
            ctx.disagree({"part": "variants", "finding": sig, "counts": dict(c)},
                         "the code behaves as the asIs model on some inputs and as the repaired model on others",
                         "asIs everywhere or repaired everywhere")
        ctx.count(1, branch=f"variant:{sig}:" + ("repaired" if c["repaired"] and not c["asIs"] else
                                                  "asIs" if c["asIs"] else "undecided(no input separates the models)"))
