"""C19, part "wfrvel" — cp2k.write_for_run_vel, the edit the CP2K engine makes before every run.

Tie: the REAL write_for_run_vel(infile, outfile, timestep, nsteps, subcycles, posfile, vel, name, print_freq) against
the Lean model Infretis.Cp2k.writeForRunVel (driver op cp2kwfrvel: the update dict `wfrVelUpdates`, the remove list,
read → update loop → removes → print), compared as section trees (canonical forests) of the re-read run input, for the
first application and for a second application to the written run input.  Float formatting is outside the model: the
velocity components and the time step are handed to the model as the text the very same Python expression
(`f"{x}"` / `str(x)`) produces.

Property predicates on the real output, independent of the model (Lean: cp2k_wfrvel_loop):
  * the VELOCITY section holds exactly one line per atom, in order, and the numbers read back are the numbers written
    (lossless);  GLOBAL holds exactly the three requested lines;  MD has the requested STEPS (= nsteps·subcycles) and
    TIMESTEP;  the EACH sections have `MD print_freq`;  TOPOLOGY names the position file;  EXT_RESTART and COORD are gone;
  * sections that were not addressed keep their parameters and data;
  * a second application to the written file gives the same tree (idempotent).
"""
from __future__ import annotations

import os
import shutil
import tempfile

from common import err_kind, hexs

from props import c19_cp2k as CP

PART = "wfrvel"
SIG = "C19:cp2k:wfrvel:"
# behaviour of the UNCHANGED /repo that a predicate rejects and that is reported but not (yet) a recorded finding.
# (SIG + "keyword-case" was pending until 2026-09-30; it is an OPEN entry of known_findings.json now and reported through
# ctx.fail -> KNOWN-FINDING; the model has the asIs | repaired variants, see c19_variant.py)
PENDING_FINDINGS: set = set()

TARGETS = ["GLOBAL", "MOTION->MD", "MOTION->PRINT->RESTART", "MOTION->PRINT->RESTART->EACH",
           "MOTION->PRINT->VELOCITIES->EACH", "MOTION->PRINT->TRAJECTORY->EACH", "FORCE_EVAL->SUBSYS->TOPOLOGY",
           "FORCE_EVAL->SUBSYS->VELOCITY", "FORCE_EVAL->DFT->SCF->PRINT->RESTART"]
REMOVED = ["EXT_RESTART", "FORCE_EVAL->SUBSYS->COORD"]


def np_():
    import numpy as np
    return np


# ----------------------------------------------------------------------------- templates in the engine's shape
DATA = {
    "GLOBAL": ["PROJECT old", "RUN_TYPE ENERGY", "PRINT_LEVEL MEDIUM", "project lower", "WALLTIME 100"],
    "MD": ["ENSEMBLE NVE", "STEPS 10", "TIMESTEP 0.5", "TEMPERATURE 300", "steps 3", "STEPS  7 ! twice", "TIMESTEP [fs] 2"],
    "RESTART": ["BACKUP_COPIES 3", "ADD_LAST NUMERIC", "FILENAME =r"],
    "EACH": ["MD 10", "md 2", "QS_SCF 0"],
    "TOPOLOGY": ["COORD_FILE_NAME old.xyz", "COORD_FILE_FORMAT pdb", "CONN_FILE_NAME c.psf"],
    "VELOCITY": ["0.0 0.0 0.0", "1.0 2.0 3.0"],
    "COORD": ["H 0 0 0", "O 1 1 1"],
    "CELL": ["ABC 10 10 10", "PERIODIC XYZ"],
    "KIND": ["BASIS_SET DZVP", "POTENTIAL GTH"],
    "SCF": ["EPS_SCF 1e-6", "MAX_SCF 20"],
    "DFT": ["BASIS_SET_FILE_NAME B", "CHARGE 0"],
    "EXT_RESTART": ["RESTART_FILE_NAME x.restart", "RESTART_COUNTERS F"],
    "FORCE_EVAL": ["METHOD FIST", "METHOD QS"],
}


def sec(rng, title, children=(), setts=(), p_data=0.7):
    data = [d for d in DATA.get(title, []) if rng.random() < p_data * 0.6]
    rng.shuffle(data)
    return {"title": title, "settings": list(setts), "data": data, "children": [c for c in children if c is not None]}


def opt(rng, p, mk):
    return mk() if rng.random() < p else None


def gen_template(rng):
    p = rng.choice((0.25, 0.6, 0.9, 1.0))
    each = lambda: sec(rng, "EACH")                                     # noqa: E731
    printsec = opt(rng, p, lambda: sec(rng, "PRINT", [
        opt(rng, p, lambda: sec(rng, "RESTART", [opt(rng, p, each)])),
        opt(rng, p, lambda: sec(rng, "VELOCITIES", [opt(rng, p, each)])),
        opt(rng, p, lambda: sec(rng, "TRAJECTORY", [opt(rng, p, each)], setts=rng.choice(([], ["ON"])))),
    ]))
    motion = opt(rng, p, lambda: sec(rng, "MOTION", [opt(rng, p, lambda: sec(rng, "MD", [opt(rng, 0.3, lambda: sec(rng, "THERMOSTAT"))])), printsec]))
    kinds = [sec(rng, "KIND", setts=[k]) for k in rng.sample(["O", "H", "C"], rng.choice((0, 1, 2, 2)))]
    subsys = opt(rng, p, lambda: sec(rng, "SUBSYS", [
        opt(rng, p, lambda: sec(rng, "CELL")), opt(rng, p, lambda: sec(rng, "COORD")),
        opt(rng, p, lambda: sec(rng, "TOPOLOGY")), opt(rng, 0.3, lambda: sec(rng, "VELOCITY"))] + kinds))
    dft = opt(rng, p, lambda: sec(rng, "DFT", [opt(rng, p, lambda: sec(rng, "SCF", [
        opt(rng, p, lambda: sec(rng, "PRINT", [opt(rng, p, lambda: sec(rng, "RESTART", setts=rng.choice(([], ["OFF"]))))]))]))]))
    feval = opt(rng, p, lambda: sec(rng, "FORCE_EVAL", [dft, subsys]))
    roots = [x for x in (opt(rng, p, lambda: sec(rng, "GLOBAL")), motion, feval, opt(rng, 0.5, lambda: sec(rng, "EXT_RESTART"))) if x]
    rng.shuffle(roots)
    return roots


def render(rng, roots):
    lines = []

    def rec(n, lvl):
        ind = rng.choice(("", "  " * lvl, " " * lvl))
        t = rng.choice((n["title"], n["title"], n["title"].lower()))
        lines.append(ind + "&" + t + "".join(" " + s for s in n["settings"]))
        for d in n["data"]:
            lines.append(ind + "  " + d + rng.choice(("", " ")))
        for c in n["children"]:
            rec(c, lvl + 1)
        lines.append(ind + rng.choice(("&END", "&END " + n["title"], "&end " + n["title"].lower())))

    for i, r in enumerate(roots):
        if i and rng.random() < 0.5:
            lines.append("")
        rec(r, 0)
    return "\n".join(lines) + rng.choice(("\n", ""))


def gen_params(rng):
    np = np_()
    n = rng.choice((0, 1, 2, 2, 3, 5))
    pool = [0.0, -0.0, 0.5, -0.25, 1e-05, 1.0, -3.0, 0.1, 1 / 3, 123456.789, -2.5e-12, 1e22, 7.0]
    vel = np.array([[rng.choice(pool) if rng.random() < 0.7 else rng.uniform(-2, 2) for _ in range(3)] for _ in range(n)],
                   dtype=float).reshape(n, 3)
    return {"timestep": rng.choice((0.5, 0.25, 2, 1e-3, 0.0)), "nsteps": rng.choice((0, 1, 7, 100, 12345)),
            "subcycles": rng.choice((1, 3, 10, 0)), "posfile": rng.choice(("conf.xyz", "e1/genvel.xyz", "a b.xyz", "")),
            "vel": vel, "name": rng.choice(("md_step", "trajB", "x y", "")),
            "print_freq": rng.choice((None, None, 1, 5, 0))}


# ----------------------------------------------------------------------------- running the real code
def call_of(C, P):
    def call(tpl, out):
        C.write_for_run_vel(tpl, out, P["timestep"], P["nsteps"], P["subcycles"], P["posfile"], P["vel"].copy(),
                            name=P["name"], print_freq=P["print_freq"])
    return call


def model_line(text, P):
    comps = [f"{x}" for row in P["vel"] for x in row]
    pf = "N" if P["print_freq"] is None else str(P["print_freq"])
    return " ".join(["cp2kwfrvel", hexs(text), hexs(P["name"]), hexs(str(P["timestep"])), hexs(P["posfile"]),
                     str(P["nsteps"]), str(P["subcycles"]), pf, str(len(comps))] + [hexs(c) for c in comps])


def first_tok(line):
    sp = line.split()
    return sp[0] if sp else None


def parse_ref(C, tmp, text, name="p.inp"):
    p = os.path.join(tmp, name)
    with open(p, "w", encoding="utf-8", newline="") as f:
        f.write(text)
    nodes = C.read_cp2k_input(p)
    alln = CP.all_nodes(nodes)
    return nodes, alln, C.set_parents(nodes)


def predicates(C, tmp, text, P, r, r2):
    """the property on the real code; returns a list of (signature, message)"""
    fails = []
    if r.err is not None:
        return [(SIG + "raises", f"write_for_run_vel raised {r.err} on a template that parses")]
    try:
        nodes0, all0, ref0 = parse_ref(C, tmp, text, "p0.inp")
        nodes1, all1, ref1 = parse_ref(C, tmp, r.out_text, "p1.inp")
    except Exception as e:  # noqa: BLE001
        return [(SIG + "output-unreadable", f"the written run input cannot be read back: {err_kind(e)}")]
    unique0 = len(ref0) == len(all0)          # every section of the template has its own address
    want_vel = [f"{v[0]} {v[1]} {v[2]}" for v in P["vel"]]
    n = ref1.get("FORCE_EVAL->SUBSYS->VELOCITY")
    if n is None or list(n.data) != want_vel:
        fails.append((SIG + "velocities", f"VELOCITY section holds {None if n is None else n.data!r}, requested {want_vel!r}"))
    else:
        back = [[float(x) for x in line.split()] for line in n.data]
        same = len(back) == len(P["vel"]) and all(
            len(b) == 3 and all((x == y) or (x != x and y != y) for x, y in zip(b, v)) and
            all(str(x) == str(float(y)) for x, y in zip(b, v)) for b, v in zip(back, P["vel"]))
        if not same:
            fails.append((SIG + "velocities-not-lossless", f"velocities read back {back!r}, written {P['vel'].tolist()!r}"))
    g = ref1.get("GLOBAL")
    want_g = [f"PROJECT {P['name']}", "RUN_TYPE MD", "PRINT_LEVEL LOW"]
    if g is None or [d.strip() for d in g.data] != [w.strip() for w in want_g]:
        fails.append((SIG + "global", f"GLOBAL holds {None if g is None else g.data!r}, requested {want_g!r}"))
    pf = P["subcycles"] if P["print_freq"] is None else P["print_freq"]
    wanted = {"MOTION->MD": {"STEPS": str(P["nsteps"] * P["subcycles"]), "TIMESTEP": str(P["timestep"])},
              "MOTION->PRINT->RESTART->EACH": {"MD": str(pf)}, "MOTION->PRINT->VELOCITIES->EACH": {"MD": str(pf)},
              "MOTION->PRINT->TRAJECTORY->EACH": {"MD": str(pf)},
              "FORCE_EVAL->SUBSYS->TOPOLOGY": {"COORD_FILE_NAME": P["posfile"], "COORD_FILE_FORMAT": "xyz"}}
    for tgt, kv in wanted.items():
        m = ref1.get(tgt)
        if m is None:
            fails.append((SIG + "section-missing", f"section {tgt} is not in the run input"))
            continue
        for k, v in kv.items():
            mine = [d for d in m.data if first_tok(d) == k]
            if not mine or any(d.strip() != f"{k} {v}".strip() for d in mine):
                fails.append((SIG + "requested-value", f"{tgt}: lines for {k} are {mine!r}, requested '{k} {v}'"))
            other = [d for d in m.data if first_tok(d) is not None and first_tok(d).upper() == k and first_tok(d) != k]
            if other:
                # CP2K keywords are case-insensitive: the template's own entry stays next to the requested one
                fails.append((SIG + "keyword-case", f"{tgt}: requested '{k} {v}' was appended but the template's entry "
                              f"{other!r} (same CP2K keyword, other case) is still there"))
    for tgt in ("MOTION->PRINT->RESTART", "FORCE_EVAL->DFT->SCF->PRINT->RESTART"):
        m = ref1.get(tgt)
        if m is None or list(m.data) != ["BACKUP_COPIES 0"]:
            fails.append((SIG + "requested-value", f"{tgt} holds {None if m is None else m.data!r}, requested ['BACKUP_COPIES 0']"))
    if unique0:
        for tgt in REMOVED:
            if tgt in ref1:
                fails.append((SIG + "not-removed", f"section {tgt} is still in the run input"))
        # sections that were not addressed keep parameters and data
        for k, n0 in ref0.items():
            if k in TARGETS or any(k == x or k.startswith(x + "->") for x in REMOVED):
                continue
            n1 = ref1.get(k)
            if n1 is None:
                fails.append((SIG + "unrequested-section-lost", f"section {k} of the template is not in the run input"))
            elif [d.strip() for d in n0.data] != [d.strip() for d in n1.data] or list(n0.settings) != list(n1.settings):
                fails.append((SIG + "unrequested-section-changed", f"section {k}: {n0.settings} {n0.data!r} became {n1.settings} {n1.data!r}"))
        extra = [k for k in ref1 if k not in ref0 and not any(t == k or t.startswith(k + "->") for t in TARGETS)]
        if extra:
            fails.append((SIG + "unrequested-section-added", f"sections {extra!r} were added"))
    if r2 is not None:
        if r2.err is not None or r2.out_canon != r.out_canon:
            fails.append((SIG + "not-idempotent", f"a second application to the written run input gives {r2.answer()!r}, "
                          f"the first gave {r.out_canon!r}"))
    return fails


def one(C, tmp, text, P):
    r = CP.Real(C, tmp, text, None, None, call=call_of(C, P))
    r2 = None
    if r.err is None and r.out_text is not None:
        r2 = CP.Real(C, tmp, r.out_text, None, None, call=call_of(C, P))
    return r, r2


def enc_params(P):
    return {"timestep": P["timestep"], "nsteps": P["nsteps"], "subcycles": P["subcycles"], "posfile": P["posfile"],
            "vel": [[float(x).hex() for x in row] for row in P["vel"]], "name": P["name"], "print_freq": P["print_freq"]}


def dec_params(E):
    np = np_()
    vel = np.array([[float.fromhex(x) for x in row] for row in E["vel"]], dtype=float).reshape(len(E["vel"]), 3)
    return {**E, "vel": vel}


def run_part(ctx):
    C = CP._mod()
    rng = ctx.rng
    tmp = tempfile.mkdtemp(prefix="c19wfrvel-", dir="/var/tmp")
    lines, pending = [], []
    fails = {}
    try:
        cases = []
        for name, text in CP.repo_inputs():
            for _ in range(2 if ctx.quick else 12):
                cases.append((text, gen_params(rng), "repo"))
        for t in ("", "&MOTION\n &MD\n  STEPS 10\n &END MD\n&END MOTION\n", "&GLOBAL\n&END\n&global\n&END\n", "X 1\n",
                  "&FORCE_EVAL\n &SUBSYS\n  &VELOCITY\n   1 2 3\n  &END\n  &COORD\n   H 0 0 0\n   &INNER\n   &END\n  &END\n &END\n&END\n"):
            cases.append((t, gen_params(rng), "fixed"))
        for _ in range(150 if ctx.quick else 2500):
            cases.append((render(rng, gen_template(rng)), gen_params(rng), "grammar"))
        for k, (text, P, origin) in enumerate(cases):
            r, r2 = one(C, tmp, text, P)
            ctx.count(1, branch=f"wfrvel-{origin}-" + ("error" if r.err else "edited"))
            if r.err is None:
                ctx.distinct(("wfrvel", text, repr(enc_params(P))))
            rep = {"part": PART, "template": text, "params": enc_params(P)}
            # the predicates are stated for templates that parse (a template that does not parse raises in both worlds)
            if r.read_canon is not None and not str(r.read_canon).startswith("err:"):
                for sig, what in predicates(C, tmp, text, P, r, r2):
                    cur = fails.get(sig)
                    if cur is None or len(text) < len(cur[1]["template"]):
                        fails[sig] = (what, rep, (cur[2] if cur else 0) + 1)
                    else:
                        fails[sig] = (cur[0], cur[1], cur[2] + 1)
            if "text" in r.rec:
                code = r.err if r.err is not None else (r.out_canon + " | " + (("second-" + r2.err) if r2.err is not None else r2.out_canon))
                lines.append(model_line(r.rec["text"], P))
                pending.append(({"fn": "write_for_run_vel", "template(observed sibling order)": r.rec["text"],
                                 "params": enc_params(P)}, code))
            if k % 97 == 5:
                ctx.sample({"part": PART, "template": text, "params": enc_params(P), "code": r.answer()})
        if ctx._driver_ok and lines:
            out = ctx.driver(lines)
            from props import c19_variant as V
            V.settle(ctx, PART, [(case, code, line, model) for (case, code), line, model in zip(pending, lines, out)],
                     same=lambda c, m: c == m or ("reread-err:" in str(c) and "reread-err:" in str(m)))
            ctx.hit("wfrvel-model-comparisons", len(lines))
        for sig in sorted(fails):
            what, rep, n = fails[sig]
            if sig in PENDING_FINDINGS:
                ctx.extra.setdefault("pending_findings", {})[sig] = {"what": what, "inputs_this_run": n, "smallest": rep}
                ctx.hit("pending:" + sig)
                continue
            ctx.fail(sig, f"{what} [{n} failing inputs this run; smallest shown]", rep)
    finally:
        shutil.rmtree(tmp, ignore_errors=True)
    ctx.assumptions += [
        "wfrvel part: float formatting (str(timestep), f'{v}' of numpy float64 components) is outside the model — the "
        "model receives the text the same Python expression produces; templates are ASCII; the predicates on untouched / "
        "removed sections are stated for templates in which every section has its own address (no duplicate-title "
        "siblings with equal parameters, no third duplicate: the two open set_parents findings)",
    ]
    return ("wfrvel: every ASCII *.inp of the repo, 5 boundary templates and seeded random templates from the engine's "
            "section grammar (each of GLOBAL / MOTION{MD,PRINT{RESTART,VELOCITIES,TRAJECTORY}{EACH}} / "
            "FORCE_EVAL{DFT{SCF{PRINT{RESTART}}},SUBSYS{CELL,COORD,TOPOLOGY,VELOCITY,KIND×0–2}} / EXT_RESTART present "
            "with probability 0.25–1, data lines incl. lower-case and repeated keywords, mixed-case section names) × "
            "random arguments (0–5 atoms, velocities incl. ±0.0, 1e-05, 1/3, 1e22; nsteps, subcycles, print_freq incl. 0 "
            "and None; names and position files with blanks / empty); distinct by (template, arguments)")


def replay_part(ctx, obj):
    r = obj.get("replay", obj)
    if r.get("part") != PART:
        return None
    C = CP._mod()
    tmp = tempfile.mkdtemp(prefix="c19wfrvel-", dir="/var/tmp")
    try:
        P = dec_params(r["params"])
        res, res2 = one(C, tmp, r["template"], P)
        fails = predicates(C, tmp, r["template"], P, res, res2)
        fails = [f for f in fails if f[0] not in PENDING_FINDINGS]
        for f in fails:
            print(f[0], f[1])
        want = obj.get("signature")
        sigs = [s for s, _ in fails]
        if want:
            return 1 if want in sigs else 0
        return 1 if sigs else 0
    finally:
        shutil.rmtree(tmp, ignore_errors=True)
