"""C20 — order parameters respect the symmetries of what they measure.

Tie: the real Distance / Distancevel / Position / Velocity / Dihedral / Puckering classes on System
objects with numpy pos/vel/box against the Lean model Infretis.Geom (driver `calc`), which returns
the rational pre-images; this module applies the transcendental tail (sqrt, arctan2, rad2deg, the
Cremer-Pople sums) in floating point and compares.  The symmetry predicates of the property are
evaluated directly on the real classes, independent of the model.

Cases are JSON-able dicts:
  {"op": [name, i..., periodic], "pos": [["p/q","p/q","p/q"], ...], "vel": [...], "box": None | ["p/q", ...]}
Coordinates are dyadic rationals (exact as floats) except in the rotation stream.
"""
from __future__ import annotations

import copy
import math
import warnings
from fractions import Fraction as Fr

import numpy as np

from common import err_kind, frac_token

SIG_DV = "C20:distancevel:box9-indexerror"
RTOL, ATOL = 1e-9, 1e-12


def _imports():
    from infretis.classes import orderparameter as opm
    from infretis.classes.system import System
    return opm, System


# --------------------------------------------------------------------------- real code
def build(opm, op):
    name = op[0]
    if name == "distance":
        return opm.Distance((op[1], op[2]), periodic=bool(op[3]))
    if name == "distancevel":
        return opm.Distancevel((op[1], op[2]), periodic=bool(op[3]))
    if name == "position":
        return opm.Position((op[1], op[2]), periodic=False)
    if name == "velocity":
        return opm.Velocity(op[1], dim="xyz"[op[2]])
    if name == "dihedral":
        return opm.Dihedral(tuple(op[1:5]), periodic=bool(op[5]))
    if name == "puckering":
        return opm.Puckering(tuple(op[1:7]), periodic=bool(op[7]))
    raise ValueError(name)


def fl(rows):
    return np.array([[float(Fr(x)) for x in r] for r in rows], dtype=float).reshape(len(rows), 3)


def mk_sys(System, case):
    s = System()
    s.pos = fl(case["pos"])
    s.vel = fl(case["vel"])
    s.box = None if case["box"] is None else np.array([float(Fr(x)) for x in case["box"]], dtype=float)
    s.order = [0.25]
    s.config = ("frame.xyz", 3)
    return s


def snapshot(s):
    """deep snapshot of every attribute (arrays: identity, dtype, shape, bytes)"""
    out = {}
    for k, v in sorted(vars(s).items()):
        if isinstance(v, np.ndarray):
            out[k] = ("nd", id(v), str(v.dtype), v.shape, v.tobytes())
        else:
            out[k] = ("py", id(v) if isinstance(v, (list, dict)) else None, repr(copy.deepcopy(v)))
    return out


def code_eval(opm, System, case):
    """-> (tag, values, pure) with tag 'ok' | 'err:<kind>'"""
    s = mk_sys(System, case)
    try:
        o = build(opm, case["op"])
    except Exception as e:  # noqa: BLE001
        return "ctor:" + err_kind(e), [], True
    before = snapshot(s)
    try:
        with np.errstate(all="ignore"), warnings.catch_warnings():
            warnings.simplefilter("ignore")
            out = o.calculate(s)
        tag, vals = "ok", [float(x) for x in out]
    except Exception as e:  # noqa: BLE001
        tag, vals = err_kind(e), []
    # purity = the System is untouched.  State kept inside the order-parameter object is not the System; whether
    # such state can change a later result is decided by the history predicate (check_history).
    pure = snapshot(s) == before
    return tag, vals, pure


# --------------------------------------------------------------------------- exact python transcription
def py_rint(x: Fr) -> int:
    return round(x)  # Fraction.__round__ is round-half-even


def py_wrap(d: Fr, L: Fr):
    """-> (value, nan?)"""
    if L == 0:
        return (d, d != 0)
    if abs(d) > L / 2:
        return (d - py_rint(d / L) * L, False)
    return (d, False)


def py_pbc(d, box):
    if len(box) > 3:
        raise IndexError
    out, nan = [Fr(0)] * 3, False
    for i, L in enumerate(box):
        out[i], n = py_wrap(d[i], L)
        nan = nan or n
    return out, nan


def _get(rows, i):
    n = len(rows)
    if not -n <= i < n:
        raise IndexError
    return rows[i]


def _sub(a, b):
    return [a[0] - b[0], a[1] - b[1], a[2] - b[2]]


def _dot(a, b):
    return a[0] * b[0] + a[1] * b[1] + a[2] * b[2]


def _cross(a, b):
    return [a[1] * b[2] - a[2] * b[1], a[2] * b[0] - a[0] * b[2], a[0] * b[1] - a[1] * b[0]]


def py_pre(case, variant="asis"):
    """exact pre-images, the same quantities the Lean model returns: ('ok', [Fr...]) | ('err:index',) | ('nan',)
    plus the list of wrapped difference vectors (for tie / conditioning decisions)"""
    op = case["op"]
    pos = [[Fr(x) for x in r] for r in case["pos"]]
    vel = [[Fr(x) for x in r] for r in case["vel"]]
    box = None if case["box"] is None else [Fr(x) for x in case["box"]]
    name = op[0]
    diffs = []

    def wrap(d, periodic, sl=True):
        diffs.append(d)
        if periodic and box is not None:
            return py_pbc(d, box[:3] if sl else box)
        return d, False

    try:
        if name == "distance":
            p1, p0 = _get(pos, op[2]), _get(pos, op[1])
            w, nan = wrap(_sub(p1, p0), op[3])
            return ("nan", [], diffs) if nan else ("ok", [_dot(w, w)], diffs)
        if name == "distancevel":
            p1, p0 = _get(pos, op[2]), _get(pos, op[1])
            w, nan = wrap(_sub(p1, p0), op[3], sl=(variant == "rep"))
            v1, v0 = _get(vel, op[2]), _get(vel, op[1])
            return ("nan", [], diffs) if nan else ("ok", [_dot(w, _sub(v1, v0)), _dot(w, w)], diffs)
        if name == "position":
            p = _get(pos, op[1])
            if not -3 <= op[2] < 3:
                raise IndexError
            return ("ok", [p[op[2]]], diffs)
        if name == "velocity":
            v = _get(vel, op[1])
            return ("ok", [v[op[2]]], diffs)
        if name == "dihedral":
            p = [_get(pos, i) for i in op[1:5]]
            w1, n1 = wrap(_sub(p[0], p[1]), op[5])
            w2, n2_ = wrap(_sub(p[1], p[2]), op[5])
            w3, n3 = wrap(_sub(p[3], p[2]), op[5])
            if n1 or n2_ or n3:
                return ("nan", [], diffs)
            n2 = _dot(w2, w2)
            return ("ok", [_dot(_cross(w1, w2), w3), n2 * _dot(w1, w3) - _dot(w1, w2) * _dot(w2, w3), n2], diffs)
        if name == "puckering":
            p = [_get(pos, i) for i in op[1:7]]
            if op[7] and box is not None:
                q, nan = [[Fr(0)] * 3], False
                for i in range(1, 6):
                    w, n = wrap(_sub(p[i], p[0]), True)
                    q.append(w)
                    nan = nan or n
                if nan:
                    return ("nan", [], diffs)
                p = q
            c = [sum(r[k] for r in p) / 6 for k in range(3)]
            q = [_sub(r, c) for r in p]
            A = [q[1][k] + q[2][k] - q[4][k] - q[5][k] for k in range(3)]
            B = [q[0][k] + (q[1][k] - q[2][k] - q[4][k] + q[5][k]) / 2 - q[3][k] for k in range(3)]
            N = _cross(A, B)
            return ("ok", [_dot(r, N) for r in q] + [_dot(N, N)], diffs)
    except IndexError:
        return ("err:index", [], diffs)
    raise ValueError(name)


def has_tie(case):
    """some wrapped difference has a component exactly at a half-box tie"""
    if case["box"] is None or not case["op"][-1] or case["op"][0] in ("position", "velocity"):
        return False
    box = [Fr(x) for x in case["box"]][:3]
    _, _, diffs = py_pre(case, "rep")
    for d in diffs:
        for k, L in enumerate(box):
            if L != 0 and (2 * d[k] / L).denominator == 1 and (2 * d[k] / L).numerator % 2 == 1:
                return True
    return False


# --------------------------------------------------------------------------- the tails (outside the model)
def tail(name, v):
    """code output as a function of the rational pre-image; returns (values, kinds, skip-mask)"""
    f = [float(x) for x in v]
    nanv = float("nan")
    if name == "distance":
        return [math.sqrt(f[0])], ["lin"], [False]
    if name == "distancevel":
        if v[1] == 0:
            return [nanv if v[0] == 0 else math.copysign(math.inf, f[0])], ["lin"], [False]
        return [f[0] / math.sqrt(f[1])], ["lin"], [False]
    if name in ("position", "velocity"):
        return [f[0]], ["lin"], [False]
    if name == "dihedral":
        trip, den, n2 = f
        if v[2] == 0:   # |v2| = 0: 0/0 in the code; with inexact inputs float noise decides -> not compared
            return [nanv], ["rad"], [True]
        num_c, den_c = trip / math.sqrt(n2), den / n2
        return [math.atan2(math.sqrt(n2) * trip, den)], ["rad"], [math.hypot(num_c, den_c) < 1e-3]
    if name == "puckering":
        zs, nn = f[:6], f[6]
        if v[6] == 0:   # exactly degenerate ring (A x B = 0): the code divides float noise by float noise
            return [nanv] * 3, ["deg", "deg", "lin"], [True] * 3
        z = [x / math.sqrt(nn) for x in zs]
        h1 = h2 = q3 = 0.0
        for i in range(6):
            h1 += math.sqrt(2 / 6) * z[i] * math.cos(2 * math.pi * 2 * i / 6)
            h2 += -math.sqrt(2 / 6) * z[i] * math.sin(2 * math.pi * 2 * i / 6)
            q3 += math.sqrt(1 / 6) * (-1) ** i * z[i]
        q2 = math.sqrt(h1 ** 2 + h2 ** 2)
        theta = math.atan2(q2, q3)
        phi = math.atan2(h2, h1)
        if phi < 0:
            phi += 2 * math.pi
        Q = math.sqrt(sum(x * x for x in z))
        bad = nn < 1e-2
        return ([math.degrees(theta), math.degrees(phi), Q], ["deg", "deg", "lin"],
                [bad or Q < 1e-2, bad or q2 < 1e-2, bad])
    raise ValueError(name)


def close(a, b, kind):
    if math.isnan(a) or math.isnan(b):
        return math.isnan(a) and math.isnan(b)
    if math.isinf(a) or math.isinf(b):
        return a == b
    if kind == "lin":
        return abs(a - b) <= RTOL * max(abs(a), abs(b)) + ATOL
    if kind == "deg":
        a, b = math.radians(a), math.radians(b)
    return abs(math.sin(a) - math.sin(b)) <= 1e-9 and abs(math.cos(a) - math.cos(b)) <= 1e-9


def same_vals(va, vb, kinds, skip, flip=False):
    if len(va) != len(vb):
        return False
    for a, b, k, s in zip(va, vb, kinds, skip):
        if s:
            continue
        if not close(-a if flip else a, b, k):
            return False
    return True


def kinds_of(case):
    """kinds and conditioning mask from the exact pre-image of the case (None when not 'ok')"""
    t = py_pre(case, "rep")
    if t[0] != "ok":
        return None
    _, kinds, skip = tail(case["op"][0], t[1])
    return kinds, skip


# --------------------------------------------------------------------------- driver lines
def toks(rows):
    flat = [frac_token(Fr(x)) for r in rows for x in r]
    return " ".join([str(len(flat))] + flat)


def line(case, variant):
    op = case["op"]
    box = "none" if case["box"] is None else " ".join([str(len(case["box"]))] + [frac_token(Fr(x)) for x in case["box"]])
    optok = " ".join([op[0]] + [str(int(x)) for x in op[1:]])
    return f"calc {variant} {optok} {toks(case['pos'])} {toks(case['vel'])} {box}"


def parse_model(ans):
    """'ok n r..| pure' -> (tag, [Fr], pure)"""
    val, _, pur = ans.partition(" | ")
    parts = val.split()
    if parts[0] == "ok":
        return "ok", [Fr(x) for x in parts[2:]], pur == "pure"
    return parts[0], [], pur == "pure"


# --------------------------------------------------------------------------- generators
LENGTHS = [Fr(2), Fr(4), Fr(8), Fr(16), Fr(7, 2), Fr(21, 4), Fr(6), Fr(5, 2), Fr(10), Fr(3)]
POW2 = [Fr(2), Fr(4), Fr(8), Fr(1), Fr(1, 2)]
# proper rotations with rational entries from Pythagorean triples
TRIPLES = [(3, 4, 5), (5, 12, 13), (8, 15, 17), (7, 24, 25), (20, 21, 29)]


def S(x):
    return str(Fr(x))


def rnd_vec(rng, span, den=16):
    return [S(Fr(rng.randint(-span * den, span * den), den)) for _ in range(3)]


def rot_axis(axis, c, s):
    m = [[Fr(1), Fr(0), Fr(0)], [Fr(0), Fr(1), Fr(0)], [Fr(0), Fr(0), Fr(1)]]
    a, b = [(1, 2), (2, 0), (0, 1)][axis]
    m[a][a], m[a][b], m[b][a], m[b][b] = c, -s, s, c
    return m


def matmul(A, B):
    return [[sum(A[i][k] * B[k][j] for k in range(3)) for j in range(3)] for i in range(3)]


def rnd_rot(rng):
    R = [[Fr(1), Fr(0), Fr(0)], [Fr(0), Fr(1), Fr(0)], [Fr(0), Fr(0), Fr(1)]]
    for _ in range(rng.randint(1, 3)):
        a, b, c = rng.choice(TRIPLES)
        cs, sn = Fr(a, c), Fr(b, c)
        if rng.random() < 0.5:
            cs, sn = sn, cs
        if rng.random() < 0.5:
            sn = -sn
        R = matmul(rot_axis(rng.randrange(3), cs, sn), R)
    return R


def apply_rot(R, rows):
    return [[S(sum(R[i][k] * Fr(r[k]) for k in range(3))) for i in range(3)] for r in rows]


NIDX = {"distance": 2, "distancevel": 2, "dihedral": 4, "puckering": 6}


def rnd_op(rng, n, name=None, periodic=None, valid=True):
    name = name or rng.choice(["distance", "distancevel", "position", "velocity", "dihedral", "puckering",
                               "distance", "distancevel", "dihedral", "puckering"])

    def idx():
        if valid:
            return rng.randint(-n, n - 1)
        return rng.choice([rng.randint(-n, n - 1), n, -n - 1, n + 3])
    if name == "position":
        return [name, idx(), rng.randint(-3, 2) if valid else rng.choice([-4, 3, 0, 1])]
    if name == "velocity":
        return [name, idx(), rng.randrange(3)]
    k = NIDX[name]
    if valid and n >= k and rng.random() < 0.85:
        ids = rng.sample(range(n), k)
        ids = [i - n if rng.random() < 0.2 else i for i in ids]
    else:
        ids = [idx() for _ in range(k)]
    p = rng.random() < 0.6 if periodic is None else periodic
    return [name] + ids + [int(p)]


def rnd_case(rng, name=None, periodic=None, boxform=None, valid=True, lengths=LENGTHS, n=None):
    n = n or rng.randint(2, 9)
    pos = [rnd_vec(rng, 10) for _ in range(n)]
    vel = [rnd_vec(rng, 4) for _ in range(n)]
    form = boxform or rng.choice(["3", "3", "9", "none"])
    L = [rng.choice(lengths) for _ in range(3)]
    if form == "none":
        box = None
    elif form == "3":
        box = [S(x) for x in L]
    elif form == "9":
        box = [S(x) for x in L] + ["0"] * 6
    else:
        box = form
    return {"op": rnd_op(rng, n, name, periodic, valid), "pos": pos, "vel": vel, "box": box}


def tie_free_case(rng, **kw):
    for _ in range(50):
        c = rnd_case(rng, **kw)
        if not has_tie(c):
            return c
    return c


# --------------------------------------------------------------------------- property predicates on the real classes
def with_(case, **kw):
    c = dict(case)
    c.update(kw)
    return c


def pred_pair(opm, System, a, b, flip=False):
    """f(a) vs f(b) on the real classes: None = holds/skipped, else description"""
    ta, va, _ = code_eval(opm, System, a)
    tb, vb, _ = code_eval(opm, System, b)
    if ta != tb:
        return f"{ta} {va} vs {tb} {vb}"
    if ta != "ok":
        return None
    ka, kb = kinds_of(a), kinds_of(b)
    if ka is None or kb is None:
        # exact transcription says nan / error although the code returned numbers: compare plainly
        kinds = ["lin"] * len(va)
        skip = [False] * len(va)
        if not all(math.isnan(x) for x in va + vb):
            return None
    else:
        kinds, skip = ka[0], [x or y for x, y in zip(ka[1], kb[1])]
    if not same_vals(va, vb, kinds, skip, flip):
        return f"{va} vs {vb}"
    return None


def translated(case, t):
    return with_(case, pos=[[S(Fr(r[k]) + Fr(t[k])) for k in range(3)] for r in case["pos"]])


def shifted(case, ks):
    L = [Fr(x) for x in case["box"][:3]]
    return with_(case, pos=[[S(Fr(r[k]) + ks[a][k] * L[k]) for k in range(3)] for a, r in enumerate(case["pos"])])


def reversed_vel(case):
    return with_(case, vel=[[S(-Fr(x)) for x in r] for r in case["vel"]])


def rotated(case, R):
    Rf = [[Fr(x) for x in r] for r in R]
    return with_(case, pos=apply_rot(Rf, case["pos"]), vel=apply_rot(Rf, case["vel"]))


def box9(case):
    return with_(case, box=list(case["box"][:3]) + ["0"] * 6)


VEL_TYPE = ("distancevel", "velocity")


def check_property(opm, System, kind, case, extra):
    """-> None | (signature, what). `kind` names the symmetry, `extra` its parameters."""
    from props import c20_ext, c20_lib
    if kind in c20_ext.KINDS:
        return c20_ext.KINDS[kind](opm, System, case)
    if kind in c20_lib.KINDS:
        return c20_lib.KINDS[kind](opm, System, case, extra)
    name = case["op"][0]
    if kind == "translation":
        r = pred_pair(opm, System, case, translated(case, extra["t"]))
        return r and ("C20:translation", f"{name} changes under rigid translation: {r}")
    if kind == "image-shift":
        r = pred_pair(opm, System, case, shifted(case, extra["ks"]))
        return r and ("C20:image-shift", f"periodic {name} changes under a shift by box vectors: {r}")
    if kind == "velocity-reversal":
        r = pred_pair(opm, System, case, reversed_vel(case), flip=name in VEL_TYPE)
        return r and ("C20:velocity-reversal",
                      f"{name} under v -> -v ({'sign change' if name in VEL_TYPE else 'no change'} expected): {r}")
    if kind == "rotation":
        r = pred_pair(opm, System, case, rotated(case, extra["R"]))
        return r and ("C20:rotation", f"non-periodic {name} changes under a proper rotation: {r}")
    if kind == "box3-box9":
        a, b = case, box9(case)
        ta, va, _ = code_eval(opm, System, a)
        tb, vb, _ = code_eval(opm, System, b)
        if name == "distancevel" and ta == "ok" and tb == "err:index":
            return (SIG_DV, f"Distancevel gives {va} for box {a['box']} but IndexError for the 9-component box {b['box']}")
        r = pred_pair(opm, System, a, b)
        return r and ("C20:box3-box9", f"{name}: 3-component vs 9-component box: {r}")
    if kind == "min-image":
        d = np.array([float(Fr(x)) for x in extra["d"]])
        L = np.array([float(Fr(x)) for x in extra["L"]])
        w = opm.pbc_dist_coordinate(d, L)
        if not np.all(np.abs(w) <= 0.5 * L * (1 + 1e-12)):
            return ("C20:min-image", f"pbc_dist_coordinate({list(d)}, {list(L)}) = {list(w)} exceeds half the box")
        k = np.rint((d - w) / L)
        if not np.allclose(d - w, k * L, rtol=0, atol=1e-9):
            return ("C20:min-image", f"pbc_dist_coordinate({list(d)}, {list(L)}) = {list(w)} is not an image of the input")
        return None
    if kind == "purity":
        _, _, pure = code_eval(opm, System, case)
        return None if pure else ("C20:purity", f"{name}.calculate modified the System (or itself)")
    if kind == "twins":
        return check_twins(opm, System, case["op"], extra["opb"], case["frames"])
    if kind == "factory":
        return check_factory(opm, System, case["op"], case["frames"], extra.get("with_periodic", True))
    if kind == "path":
        return check_path(opm, System, case["op"], case["frames"])
    if kind == "history":
        return check_history(opm, System, case["op"], case["frames"])
    if kind == "calculate-order":
        r = check_calc_order(opm, System, case)
        return r and (SIG_CO, r)
    if kind == "model":
        return None
    raise ValueError(kind)


# --------------------------------------------------------------------------- EngineBase.calculate_order
SIG_CO = "C20:calculate-order:velocity-direction"


def make_engine(order_function, table):
    """minimal EngineBase subclass: abstract methods stubbed, `_read_configuration` serves an in-memory table"""
    from infretis.classes.engines.enginebase import EngineBase

    class TableEngine(EngineBase):
        def __init__(self):
            super().__init__("C20 table engine", 0.002, 1)
            self.reads = 0

        def _read_configuration(self, filename):
            self.reads += 1
            xyz, vel, box = table[filename]
            return xyz, vel, box, None

        def modify_velocities(self, *a, **k):
            raise NotImplementedError

        def set_mdrun(self, md_items):
            raise NotImplementedError

        def _extract_frame(self, traj_file, idx, out_file):
            raise NotImplementedError

        def _propagate_from(self, *a, **k):
            raise NotImplementedError

        def _reverse_velocities(self, filename, outfile):
            raise NotImplementedError

    e = TableEngine()
    e.order_function = order_function
    return e


def calc_order_eval(opm, System, case, vel_rev, route):
    """engine.calculate_order on one route -> (tag, vals, purity problem or None)"""
    xyz, vel = fl(case["pos"]), fl(case["vel"])
    # the explicit route needs all three arrays (box None sends the code to the file route)
    box = None if case["box"] is None else np.array([float(Fr(x)) for x in case["box"]], dtype=float)
    keep = [a.copy() if a is not None else None for a in (xyz, vel, box)]
    eng = make_engine(build(opm, case["op"]), {"frame.xyz": (xyz, vel, box)})
    s = System()
    s.config = ("frame.xyz", 3)
    s.vel_rev = bool(vel_rev)
    s.order = [0.25]
    s.box = None      # the box the System had before the call (kept when the configuration has none);
    #                   the default 3x3 zero matrix of a bare System() is outside the modelled domain
    other0 = {k: repr(v) for k, v in vars(s).items() if k not in ("pos", "vel", "box")}
    try:
        with np.errstate(all="ignore"), warnings.catch_warnings():
            warnings.simplefilter("ignore")
            if route == "file":
                out = eng.calculate_order(s)
            else:
                out = eng.calculate_order(s, xyz=xyz, vel=vel, box=box)
        tag, vals = "ok", [float(x) for x in out]
    except Exception as e:  # noqa: BLE001
        tag, vals = err_kind(e), []
    prob = None
    for nm, a, b in zip(("xyz", "vel", "box"), (xyz, vel, box), keep):
        if a is not None and a.tobytes() != b.tobytes():
            prob = f"the {nm} array handed to calculate_order was modified in place"
    other1 = {k: repr(v) for k, v in vars(s).items() if k not in ("pos", "vel", "box")}
    if other0 != other1:
        prob = f"calculate_order changed System attributes {sorted(k for k in other1 if other0.get(k) != other1[k])}"
    if route == "explicit" and eng.reads and box is not None:
        prob = "explicit arrays were given but the configuration file was read"
    return tag, vals, prob


def check_calc_order(opm, System, case, model=None):
    """all of vel_rev x route for one (op, geometry).  `model` = {False: (tag, [Fr]), True: (...)}: the model's
    pre-image on velocities multiplied by (-1)^vel_rev (None: exact python transcription).  -> None | what"""
    name = case["op"][0]
    res = {(vr, rt): calc_order_eval(opm, System, case, vr, rt) for vr in (False, True) for rt in ("file", "explicit")}
    for key, (_, _, prob) in res.items():
        if prob:
            return f"{name} vel_rev={key[0]} route={key[1]}: {prob}"
    ks = kinds_of(case)
    kinds, skip = ks if ks else (["lin"] * 3, [False] * 3)
    for vr in (False, True):
        (tf, vf, _), (te, ve, _) = res[(vr, "file")], res[(vr, "explicit")]
        if tf != te or (tf == "ok" and not same_vals(vf, ve, kinds, skip)):
            return f"{name} vel_rev={vr}: file route gives {tf} {vf}, explicit-array route gives {te} {ve}"
    for rt in ("file", "explicit"):
        (t0, v0, _), (t1, v1, _) = res[(False, rt)], res[(True, rt)]
        flip = name in VEL_TYPE
        if t0 != t1 or (t0 == "ok" and not same_vals(v0, v1, kinds, skip, flip=flip)):
            return (f"{name} route={rt}: vel_rev=False gives {t0} {v0}, vel_rev=True gives {t1} {v1} "
                    f"({'sign change' if flip else 'no change'} expected)")
    # independent of the model: the engine's answer is the class's own answer on velocities times (-1)^vel_rev
    for vr in (False, True):
        c = reversed_vel(case) if vr else case
        td, vd, _ = code_eval(opm, System, c)
        for rt in ("file", "explicit"):
            t, v, _ = res[(vr, rt)]
            if t != td or (td == "ok" and not same_vals(v, vd, kinds, skip)):
                return (f"{name} vel_rev={vr} route={rt}: calculate_order gives {t} {v}, but {name}.calculate on the "
                        f"velocities times (-1)^vel_rev gives {td} {vd}")
    for vr in (False, True):
        c = reversed_vel(case) if vr else case
        mt, mv = model[vr] if model else py_pre(c, "asis")[:2]
        for rt in ("file", "explicit"):
            t, v, _ = res[(vr, rt)]
            if mt == "nan":
                ok = t == "ok" and all(math.isnan(x) for x in v)
            elif mt != "ok":
                ok = t == mt
            else:
                ev_, k_, s_ = tail(name, mv)
                ok = t == "ok" and same_vals(v, ev_, k_, s_)
            if not ok:
                return (f"{name} vel_rev={vr} route={rt}: calculate_order gives {t} {v}, the model on velocities "
                        f"times (-1)^vel_rev gives {mt} {[str(x) for x in mv]}")
    return None


# --------------------------------------------------------------------------- long-lived objects
SIG_H = "C20:history-dependent-result"


def call_obj(o, s):
    try:
        with np.errstate(all="ignore"), warnings.catch_warnings():
            warnings.simplefilter("ignore")
            return "ok", [float(x) for x in o.calculate(s)]
    except Exception as e:  # noqa: BLE001
        return err_kind(e), []


def _box_arr(case):
    return None if case["box"] is None else np.array([float(Fr(x)) for x in case["box"]], dtype=float)


def _install(System, holder, case, mode, scale=None):
    """bring `holder` = {'s': System, 'pos':…, 'vel':…, 'box':…} to the CURRENT contents of `case`.
    mode 'new'      : new System object, new arrays
    mode 'samesys'  : the same System object, new arrays assigned to its attributes
    mode 'inplace'  : the same System object AND the same numpy arrays, overwritten in place
                      (`box *= scale` when a scale is given, else `arr[...] = contents`)"""
    pos, vel, box = fl(case["pos"]), fl(case["vel"]), _box_arr(case)
    can_inplace = (holder.get("s") is not None and holder["pos"].shape == pos.shape and holder["vel"].shape == vel.shape
                   and (box is None) == (holder["box"] is None) and (box is None or holder["box"].shape == box.shape))
    if mode == "inplace" and can_inplace:
        holder["pos"][...] = pos
        holder["vel"][...] = vel
        if box is not None:
            if scale is not None:
                holder["box"] *= float(Fr(scale))
                assert holder["box"].tobytes() == box.tobytes(), "harness: scaled box is not exact"
            else:
                holder["box"][...] = box
        return
    if mode == "new" or holder.get("s") is None:
        s = System()
        s.config = ("frame.xyz", 0)
        s.order = [0.25]
        holder["s"] = s
    holder["pos"], holder["vel"], holder["box"] = pos, vel, box
    holder["s"].pos, holder["s"].vel, holder["s"].box = pos, vel, box


def check_history(opm, System, op, frames, models=None):
    """ONE order-parameter object (and ONE engine holding another, as the library does) evaluated over a sequence
    of systems: new Systems with new boxes, the same System with new arrays, and the SAME arrays changed in place
    (box rescaled / overwritten, 3- and 9-component).  Every evaluation must equal what a fresh object gives for the
    CURRENT contents alone (and the model's value for them).  -> None | (signature, what)"""
    name = op[0]
    long_obj = build(opm, op)
    table = {}
    eng = make_engine(build(opm, op), table)       # a second long-lived object, used through calculate_order
    direct, ebuf = {}, {}                          # System + arrays of the direct route / the engine's own buffers
    for j, fr in enumerate(frames):
        case = {"op": op, "pos": fr["pos"], "vel": fr["vel"], "box": fr["box"]}
        mode = fr.get("mode", "new")
        hist = [(f.get("mode", "new"), f["box"]) for f in frames[:j]]
        ks = kinds_of(case)
        kinds, skip = ks if ks else (["lin"] * 3, [False] * 3)
        # long-lived object, direct call (+ System purity); evaluated BEFORE the fresh object is created
        _install(System, direct, case, mode, fr.get("scale"))
        s = direct["s"]
        before = snapshot(s)
        tl, vl = call_obj(long_obj, s)
        # long-lived engine with its own buffers; in-place frames always go through the explicit-array route
        _install(System, ebuf, case, mode, fr.get("scale"))
        s2 = ebuf["s"]
        s2.box = None if ebuf["box"] is None else s2.box
        table["frame.xyz"] = (ebuf["pos"], ebuf["vel"], ebuf["box"])
        explicit = (mode == "inplace") or j % 2 == 1
        try:
            with np.errstate(all="ignore"), warnings.catch_warnings():
                warnings.simplefilter("ignore")
                out = (eng.calculate_order(s2, xyz=ebuf["pos"], vel=ebuf["vel"], box=ebuf["box"]) if explicit
                       else eng.calculate_order(s2))
            te, ve = "ok", [float(x) for x in out]
        except Exception as e:  # noqa: BLE001
            te, ve = err_kind(e), []
        # fresh object, fresh System, current contents only
        tf, vf = call_obj(build(opm, op), mk_sys(System, case))
        if snapshot(s) != before:
            return ("C20:purity", f"{name}.calculate modified the System (frame {j} of a sequence, indices {op[1:-1]})")
        if tl != tf or (tf == "ok" and not same_vals(vl, vf, kinds, skip)):
            return (SIG_H, f"{name}: frame {j} (box {fr['box']}, {mode}) evaluated by an object that has already seen "
                           f"{hist} gives {tl} {vl}; a fresh object on the current contents gives {tf} {vf}")
        if te != tf or (tf == "ok" and not same_vals(ve, vf, kinds, skip)):
            return (SIG_H, f"{name}: frame {j} (box {fr['box']}, {mode}) through a long-lived engine.calculate_order "
                           f"({'explicit arrays' if explicit else 'file'}) gives {te} {ve}; a fresh object gives {tf} {vf} "
                           f"(seen before: {hist})")
        # the model's value for the current contents alone
        if models is not None:
            mt, mv = models[j]
            if mt == "nan":
                ok = tl == "ok" and all(math.isnan(x) for x in vl)
            elif mt != "ok":
                ok = tl == mt
            else:
                ev_, k_, s_ = tail(name, mv)
                ok = tl == "ok" and same_vals(vl, ev_, k_, s_)
            if not ok:
                return (SIG_H, f"{name}: frame {j} (box {fr['box']}, {mode}) on a long-lived object gives {tl} {vl}; the model, "
                               f"a function of the system only, gives {mt} {[str(x) for x in mv]}")
    return None


SCALES = [Fr(2), Fr(1, 2), Fr(3, 2), Fr(3, 4), Fr(5, 4)]


def rnd_history(rng, name, contiguous):
    """one op with contiguous or non-contiguous indices and 5-7 frames: pairwise different boxes, frames alternate
    between new System / same System with new arrays / the same arrays changed in place (scaled or overwritten)"""
    n = rng.randint(6, 9)
    if name in ("position", "velocity"):
        op = rnd_op(rng, n, name)
    else:
        k = NIDX[name]
        if contiguous:
            st = rng.choice([0, 0, rng.randint(0, n - k)])
            ids = list(range(st, st + k))
        else:
            while True:
                ids = rng.sample(range(n), k)
                if any(b - a != 1 for a, b in zip(ids, ids[1:])):
                    break
        op = [name] + ids + [int(rng.random() < 0.85)]
    frames, seen = [], set()
    nfr = rng.randint(5, 7)
    for j in range(nfr):
        mode = "new" if j == 0 else rng.choice(["inplace", "inplace", "samesys", "new"])
        prev = frames[-1]["box"] if frames else None
        scale = None
        for _try in range(60):
            c = tie_free_case(rng, boxform=rng.choice(["3", "9", "3", "9", "none"]), n=n)
            c["op"] = op
            if mode == "inplace" and prev is not None:
                style = rng.choice(["scale", "axis", "overwrite"])
                if style == "scale":
                    scale = rng.choice(SCALES)
                    c["box"] = [S(Fr(x) * scale) for x in prev]
                elif style == "axis":
                    scale = None
                    c["box"] = list(prev)
                    ax = rng.randrange(3)
                    c["box"][ax] = S(rng.choice([L for L in LENGTHS if S(L) != prev[ax]]))
                else:
                    scale = None
                    c["box"] = [S(rng.choice(LENGTHS)) for _ in range(3)] + list(prev[3:])
            elif mode == "inplace":
                c["box"] = None
            key = str(c["box"][:3]) if c["box"] else "none"
            if (key not in seen or c["box"] is None) and not has_tie(c):
                break
        seen.add(key)
        fr = {"pos": c["pos"], "vel": c["vel"], "box": c["box"], "mode": mode}
        if scale is not None and mode == "inplace" and prev is not None:
            fr["scale"] = S(scale)
        frames.append(fr)
    return op, frames


# --------------------------------------------------------------------------- two objects alive at once, factory, Path
def _state(o):
    """comparison-safe picture of an object's attributes (never raises on ndarray / None mixes)"""
    out = {}
    for k, v in sorted(vars(o).items()):
        out[k] = ("nd", str(v.dtype), v.shape, v.tobytes()) if isinstance(v, np.ndarray) else ("py", repr(v))
    return out


def _cls_state(o):
    """mutable class-level attributes reachable from the instance's classes"""
    out = {}
    for c in type(o).__mro__[:-1]:
        for k, v in sorted(vars(c).items()):
            if isinstance(v, (list, dict, set, np.ndarray)):
                out[f"{c.__name__}.{k}"] = repr(v)
    return out


def _cmp_fresh(opm, System, o, op, fr, what):
    case = {"op": op, "pos": fr["pos"], "vel": fr["vel"], "box": fr["box"]}
    ks = kinds_of(case)
    kinds, skip = ks if ks else (["lin"] * 3, [False] * 3)
    s = mk_sys(System, case)
    before = snapshot(s)
    tl, vl = call_obj(o, s)          # the live object first: creating the fresh one must not be able to repair shared state
    if snapshot(s) != before:
        return ("C20:purity", f"{op[0]}.calculate modified the System ({what})")
    tf, vf = call_obj(build(opm, op), mk_sys(System, case))
    if tl != tf or (tf == "ok" and not same_vals(vl, vf, kinds, skip)):
        return (SIG_H, f"{op[0]} {op[1:]}: {what}: gives {tl} {vl}, a fresh object alone gives {tf} {vf} (box {fr['box']})")
    return None


def check_twins(opm, System, opa, opb, frames):
    """two objects of the same class (different index tuples / periodic flags) alive at once, evaluated interleaved:
    creating or using one must not change the other (class-level or base-class attributes shared between instances)"""
    a = build(opm, opa)
    sa, ca = _state(a), _cls_state(a)
    b = build(opm, opb)
    if _state(a) != sa:
        return (SIG_H, f"creating {opb} changed the attributes of the live object {opa}: {sa} -> {_state(a)}")
    for j, fr in enumerate(frames):
        for o, op, tag in ((a, opa, "A"), (b, opb, "B"), (a, opa, "A again")):
            r = _cmp_fresh(opm, System, o, op, fr, f"object {tag} of a pair alive at once, frame {j}")
            if r:
                return r
    if _cls_state(a) != ca:
        return (SIG_H, f"class-level mutable attributes changed while evaluating: {ca} -> {_cls_state(a)}")
    return None


CLASSNAME = {"distance": "Distance", "distancevel": "Distancevel", "position": "Position", "velocity": "Velocity",
             "dihedral": "Dihedral", "puckering": "Puckering"}
DEFAULT_PERIODIC = {"distance": 1, "distancevel": 1, "dihedral": 0, "puckering": 0}


def settings_of(op, with_periodic=True):
    name = op[0]
    d = {"class": CLASSNAME[name]}
    if name == "velocity":
        d["index"] = op[1]
        d["dim"] = "xyz"[op[2]]
    elif name == "position":
        d["index"] = [op[1], op[2]]
        d["periodic"] = False
    else:
        d["index"] = list(op[1:-1])
        if with_periodic:
            d["periodic"] = bool(op[-1])
    return {"orderparameter": d, "simulation": {"steps": 0}}


def check_factory(opm, System, op, frames, with_periodic=True):
    """create_orderparameter(settings): the settings dict is not modified, two parameters created from ONE dict are
    independent objects, each behaves like a directly constructed one (missing `periodic` = the class default)"""
    st = settings_of(op, with_periodic)
    keep = copy.deepcopy(st)
    eff = list(op)
    if not with_periodic and op[0] in DEFAULT_PERIODIC:
        eff[-1] = DEFAULT_PERIODIC[op[0]]
    try:
        o1 = opm.create_orderparameter(st)
        o2 = opm.create_orderparameter(st)
    except Exception as e:  # noqa: BLE001
        return ("C20:factory", f"create_orderparameter({keep['orderparameter']}) raised {err_kind(e)}: {e}")
    if st != keep:
        return ("C20:factory", f"create_orderparameter modified its settings: {keep['orderparameter']} -> {st['orderparameter']}")
    if o1 is o2:
        return ("C20:factory", "two create_orderparameter calls on one settings dict returned the same object")
    # Distance/Distancevel/Position keep the settings' own index list (no copy is promised); that is not a
    # violation as long as nobody writes to it — the settings comparison and the behaviour comparison below decide.
    for j, fr in enumerate(frames):
        for o, tag in ((o1, "first"), (o2, "second"), (o1, "first again")):
            r = _cmp_fresh(opm, System, o, eff, fr, f"{tag} object made by create_orderparameter from one settings dict, frame {j}")
            if r:
                return r
        if st != keep:
            return ("C20:factory", f"evaluating a created parameter modified the settings dict: {keep['orderparameter']} -> {st['orderparameter']}")
    return None


def check_path(opm, System, op, frames):
    """orders computed by engine.calculate_order (both routes, all returned values) stored in a Path:
    ordermin/ordermax use the first value; Path.reverse leaves the original path alone, keeps every value of a
    position-type parameter (frames mirrored) and negates the first value of velocity-type ones
    (the known unchanged-sign behaviour is reported under its own signature SIG_PR, anything else under C20:path-order)."""
    from infretis.classes.path import Path
    name = op[0]
    o = build(opm, op)
    table = {}
    eng = make_engine(o, table)
    pth = Path(maxlen=100)
    firsts, alls = [], []
    for j, fr in enumerate(frames):
        case = {"op": op, "pos": fr["pos"], "vel": fr["vel"], "box": fr["box"]}
        xyz, vel, box = fl(case["pos"]), fl(case["vel"]), _box_arr(case)
        table[f"f{j}"] = (xyz, vel, box)
        s = System()
        s.config = (f"f{j}", j)
        s.box = None
        try:
            with np.errstate(all="ignore"), warnings.catch_warnings():
                warnings.simplefilter("ignore")
                out = eng.calculate_order(s) if j % 2 == 0 else eng.calculate_order(s, xyz=xyz, vel=vel, box=box)
        except Exception:  # noqa: BLE001
            return None          # error cases are judged by the other predicates
        tf, vf = call_obj(build(opm, op), mk_sys(System, case))
        if tf != "ok" or len(out) != len(vf) or any(math.isnan(float(x)) for x in out):
            return None
        s.order = out
        pth.append(s)
        firsts.append(float(out[0]))
        alls.append([float(x) for x in out])
    if not firsts:
        return None
    nvals = {"puckering": 3}.get(name, 1)
    if any(len(a) != nvals for a in alls):
        return ("C20:path-order", f"{name} returned {[len(a) for a in alls]} values per frame through calculate_order, {nvals} expected")
    mx, imx = pth.ordermax
    mn, imn = pth.ordermin
    if float(mx) != max(firsts) or firsts[int(imx)] != max(firsts) or float(mn) != min(firsts) or firsts[int(imn)] != min(firsts):
        return ("C20:path-order", f"{name}: first order values {firsts}; Path.ordermax={mx, imx} ordermin={mn, imn}")
    keep = [(list(map(float, pp.order)), pp.vel_rev, pp.vel.tobytes(), pp.pos.tobytes()) for pp in pth.phasepoints]
    try:
        rv = pth.reverse(o)
    except Exception as e:  # noqa: BLE001
        return ("C20:path-order", f"Path.reverse({name}) raised {err_kind(e)}: {e}")
    now = [(list(map(float, pp.order)), pp.vel_rev, pp.vel.tobytes(), pp.pos.tobytes()) for pp in pth.phasepoints]
    if now != keep:
        return ("C20:path-order", f"Path.reverse({name}) changed the original path's frames")
    back = [list(map(float, pp.order)) for pp in rv.phasepoints]
    if name not in VEL_TYPE:
        if back != alls[::-1]:
            return ("C20:path-order", f"position-type {name}: orders {alls} became {back} after Path.reverse (mirror image expected)")
    else:
        want = [[-a[0]] + a[1:] for a in alls[::-1]]
        n1 = ["lin"] * nvals
        f1 = [False] * nvals
        if all(same_vals(b, w, n1, f1) for b, w in zip(back, want)) and len(back) == len(want):
            return None
        if all(same_vals(b, a, n1, f1) for b, a in zip(back, alls[::-1])) and len(back) == len(alls):
            return (SIG_PR, PR_WHAT + f" [instance: {name} {op[1:]}, mirrored forward orders {[a[0] for a in alls[::-1]]}, "
                                      f"after Path.reverse {[b[0] for b in back]}, vel_rev {[pp.vel_rev for pp in rv.phasepoints]}]")
        return ("C20:path-order", f"velocity-type {name}: mirrored forward orders {alls[::-1]} became {back} after Path.reverse "
                                  f"(first value negated expected)")
    return None


SIG_PR = "C20:path-reverse:velocity-order-sign-not-flipped"
PR_WHAT = ("Path.reverse(order_function) toggles vel_rev and recomputes velocity-dependent orders with "
           "order_function.calculate(frame), which reads the velocities stored with the frame and ignores the flag: orders of "
           "Velocity / Distancevel do not change sign under path reversal (frames made by calculate_order on either route)")


def path_reverse_witnesses():
    """FIXED witness set, evaluated on every run: Velocity and Distancevel, 3 frames, dyadic numbers.  check_path makes
    frame j through the file route for even j and through the explicit-array route for odd j, so both routes occur."""
    fr = []
    for k in range(3):
        fr.append({"pos": [["0", "0", "0"], [str(1 + k), "0", "0"], ["0", "2", "1"]],
                   "vel": [[str(1 + k), "0", "-1/2"], ["2", "0", "0"], ["0", "1", "0"]],
                   "box": ["16", "16", "16"]})
    fr9 = [dict(f, box=f["box"] + ["0"] * 6) for f in fr]
    return [(["velocity", 0, 0], fr), (["velocity", 0, 2], fr[::-1]), (["velocity", 1, 0], fr9),
            (["distancevel", 0, 1, 0], fr), (["distancevel", 0, 1, 1], fr9), (["distancevel", 1, 2, 1], fr[1:] + fr[:1])]


def boundary_cases():
    """hand-made boundary inputs: exact zeros, index 0, coincident atoms, displacements exactly at / next to half a box
    and a whole box, planar and perpendicular dihedrals, planar ring and ideal chair, zero box, off-diagonal 9-boxes"""
    out = []
    Z = ["0", "0", "0"]
    eps = Fr(1, 16)
    for L in (Fr(4), Fr(8), Fr(6), Fr(5, 2)):
        pow2 = L in (Fr(4), Fr(8))
        ds = [Fr(0), L / 2 - eps, L / 2 + eps, L - eps, L, L + eps, 2 * L, -L, -(L / 2 + eps)]
        if pow2:
            ds += [L / 2, -L / 2, 3 * L / 2, -3 * L / 2, 5 * L / 2]
        else:
            ds += [L / 2, -L / 2]        # |d| > L/2 is false: never reaches rint, exact for every L
        for d in ds:
            for axis in range(3):
                p1 = [S(d) if k == axis else "0" for k in range(3)]
                for box in ([S(L)] * 3, [S(L)] * 3 + ["0"] * 6, None, [S(L)] * 3 + ["1", "0", "1/2", "0", "0", "2"]):
                    for nm in ("distance", "distancevel"):
                        for per in (1, 0):
                            out.append({"op": [nm, 0, 1, per], "pos": [Z, p1], "vel": [Z, ["1", "-1/2", "1/4"]], "box": box})
    base = {"pos": [Z, Z, ["1", "0", "0"], ["1", "1", "0"], ["0", "0", "0"], ["2", "0", "1"]],
            "vel": [Z, Z, Z, ["0", "0", "0"], ["1", "0", "0"], Z]}
    for box in (None, ["4", "4", "4"], ["0", "0", "0"], ["0"] * 9, ["4", "4", "4"] + ["0"] * 6):
        for per in (1, 0):
            out.append({"op": ["distance", 0, 1, per], **base, "box": box})        # coincident atoms at the origin
            out.append({"op": ["distancevel", 0, 1, per], **base, "box": box})     # 0/0
            out.append({"op": ["distancevel", 0, 2, per], **base, "box": box})     # all velocities zero
            out.append({"op": ["dihedral", 0, 1, 2, 3, per], **base, "box": box})  # |v1| = 0
            out.append({"op": ["dihedral", 2, 0, 1, 3, per], **base, "box": box})  # |v2| = 0
        for d in range(-3, 3):
            out.append({"op": ["position", 0, d], **base, "box": box})
        for d in range(3):
            out.append({"op": ["velocity", 0, d], **base, "box": box})
            out.append({"op": ["velocity", 4, d], **base, "box": box})
    # dihedrals: cis (0), trans (+-180), +-90, collinear
    A, B, C = ["1", "1", "0"], ["1", "0", "0"], ["-1", "0", "0"]
    for D in (["-1", "1", "0"], ["-1", "-1", "0"], ["-1", "0", "1"], ["-1", "0", "-1"], ["-2", "0", "0"], ["-1", "1", "1/1024"]):
        for box in (None, ["16", "16", "16"], ["16", "16", "16"] + ["0"] * 6):
            for per in (0, 1):
                out.append({"op": ["dihedral", 0, 1, 2, 3, per], "pos": [A, B, C, D], "vel": [Z] * 4, "box": box})
    # rings: planar hexagon (Q = 0), ideal chair, boat-like
    hexa = [("2", "0"), ("1", "2"), ("-1", "2"), ("-2", "0"), ("-1", "-2"), ("1", "-2")]
    for zs in (["0"] * 6, ["1/2", "-1/2", "1/2", "-1/2", "1/2", "-1/2"], ["1/2", "0", "0", "1/2", "0", "0"],
               ["1/4", "1/8", "-1/2", "3/8", "0", "-1/4"]):
        ring = [[x, y, z] for (x, y), z in zip(hexa, zs)]
        for box in (None, ["16", "16", "16"], ["16", "16", "16"] + ["0"] * 6):
            for per in (0, 1):
                out.append({"op": ["puckering", 0, 1, 2, 3, 4, 5, per], "pos": ring, "vel": [Z] * 6, "box": box})
    return out


# --------------------------------------------------------------------------- run
def run(ctx):
    opm, System = _imports()
    rng = ctx.rng
    q = ctx.quick
    ctx.rule = ("seeded random geometries: 2-9 atoms on a 1/16 grid in [-10,10]^3, velocities in [-4,4]^3, orthogonal "
                "boxes from 10 dyadic lengths per axis in the forms None/[x,y,z]/[x,y,z,0*6] plus malformed boxes "
                "(length 0,1,2,4, zero and negative lengths), Python indices incl. negative/repeated/out-of-range, all six "
                "classes x periodic flag; plus a tie stream (power-of-two boxes, differences at exact half-box "
                "multiples). Non-trivial = the real class returned numbers and the pre-image is not degenerate; "
                "distinct by (op, pos, vel, box).")
    n_gen = 1500 if q else 12000
    n_sym = 400 if q else 3000
    cases = []       # (stream, case)
    # 1. generic stream (tie-free so float rint is never near a tie for non-power-of-two boxes)
    for _ in range(n_gen):
        cases.append(("generic", tie_free_case(rng)))
    # 2. malformed stream: odd boxes and bad indices
    odd_boxes = [[], ["4"], ["4", "8"], ["4", "4", "4", "4"], ["4", "0", "4"], ["0", "0", "0"], ["-4", "8", "-2"],
                 ["4", "4", "4", "0", "0"], ["2", "2", "2", "1", "1", "1", "1", "1", "1"]]
    for _ in range(n_gen // 3):
        form = rng.choice(odd_boxes) if rng.random() < 0.6 else None
        c = rnd_case(rng, boxform=form, valid=rng.random() < 0.5, lengths=POW2 + [Fr(4), Fr(8)])
        if form is not None and any(Fr(x) < 0 for x in form):
            pass
        cases.append(("malformed", c))
    # 3. tie stream: power-of-two boxes, atoms on a half-box lattice
    for _ in range(n_gen // 3):
        n = rng.randint(2, 7)
        L = [rng.choice([Fr(2), Fr(4), Fr(8)]) for _ in range(3)]
        pos = [[S(rng.randint(-5, 5) * L[k] / 2 + (Fr(rng.randint(-3, 3), 4) if rng.random() < 0.3 else 0))
                for k in range(3)] for _ in range(n)]
        vel = [rnd_vec(rng, 4) for _ in range(n)]
        box = [S(x) for x in L] + (["0"] * 6 if rng.random() < 0.3 else [])
        cases.append(("tie", {"op": rnd_op(rng, n, periodic=True), "pos": pos, "vel": vel, "box": box}))
    # 4. rotated geometries (non-dyadic coordinates; compared with tolerance)
    for _ in range(n_gen // 4):
        c = rnd_case(rng, name=rng.choice(["distance", "distancevel", "dihedral", "puckering"]), periodic=False)
        cases.append(("rotated", rotated(c, [[S(x) for x in r] for r in rnd_rot(rng)])))
    # 5. hand-made boundary inputs (exact zeros, half/whole box displacements, planar geometries, zero boxes, ...)
    for c in boundary_cases():
        cases.append(("boundary", c))
    # 6. 9-component boxes with NON-zero off-diagonal entries: the code promises orthogonal boxes only and uses
    #    box[:3]; the model does the same (no symmetry is claimed for such boxes)
    for _ in range(n_gen // 10):
        c = tie_free_case(rng, boxform="3")
        c["box"] = c["box"] + [S(Fr(rng.randint(-8, 8), 4)) for _ in range(6)]
        cases.append(("offdiag9", c))
    # the witness of the known defect and its 3-box twin are always part of the run
    wit = {"op": ["distancevel", 0, 1, 1], "pos": [["0", "0", "0"], ["1", "0", "0"]],
           "vel": [["0", "0", "0"], ["1", "0", "0"]], "box": ["4", "4", "4"]}
    cases.append(("witness", wit))
    cases.append(("witness", box9(wit)))

    # ---- code side
    code = [code_eval(opm, System, c) for _, c in cases]
    # ---- model side
    have_model = ctx._driver_ok
    if have_model:
        out = ctx.driver([line(c, "asis") for _, c in cases] + [line(c, "rep") for _, c in cases])
        m_asis = [parse_model(x) for x in out[: len(cases)]]
        m_rep = [parse_model(x) for x in out[len(cases):]]
    votes = {"asis": [], "rep": []}
    for k, (stream, c) in enumerate(cases):
        tag, vals, pure = code[k]
        name = c["op"][0]
        ctx.count(1, branch=f"{stream}:{name}:{tag if tag != 'ok' else ('nan' if vals and all(math.isnan(v) for v in vals) else 'ok')}")
        if tag == "ok" and not any(math.isnan(v) for v in vals):
            ctx.distinct(("case", str(c)))
        if k % 997 == 0:
            ctx.sample({"stream": stream, **c, "code": [tag] + vals})
        if not pure:
            ctx.fail("C20:purity", f"{name}.calculate modified the System (or itself)", {"kind": "purity", "case": c, "extra": {}})

        def agrees(m):
            mt, mv, mp = m
            if not mp:
                return False
            if mt == "nan":
                return tag == "ok" and len(vals) > 0 and all(math.isnan(v) for v in vals)
            if mt != "ok":
                return tag == mt
            if tag != "ok":
                return False
            ev, kinds, skip = tail(name, mv)
            return same_vals(vals, ev, kinds, skip)
        # exact python transcription vs model (both are mine: a cheap cross-check of the driver plumbing)
        if have_model:
            pa = py_pre(c, "asis")
            if (pa[0], pa[1]) != (m_asis[k][0], m_asis[k][1]):
                ctx.disagree({"fn": "py_pre vs lean model (asIs)", "case": c}, [pa[0]] + [str(x) for x in pa[1]],
                             [m_asis[k][0]] + [str(x) for x in m_asis[k][1]])
            a_ok, r_ok = agrees(m_asis[k]), agrees(m_rep[k])
            differ = (m_asis[k][0], m_asis[k][1]) != (m_rep[k][0], m_rep[k][1])
            if not differ:
                if not a_ok:
                    ctx.disagree({"fn": name + ".calculate", "case": c}, [tag] + vals,
                                 [m_asis[k][0]] + [str(x) for x in m_asis[k][1]])
            else:
                ctx.hit("variant-sensitive-cases")
                if a_ok:
                    votes["asis"].append(c)
                elif r_ok:
                    votes["rep"].append(c)
                else:
                    ctx.disagree({"fn": name + ".calculate (neither variant)", "case": c}, [tag] + vals,
                                 {"asIs": [m_asis[k][0]] + [str(x) for x in m_asis[k][1]],
                                  "repaired": [m_rep[k][0]] + [str(x) for x in m_rep[k][1]]})
    if votes["asis"] and votes["rep"]:
        ctx.disagree({"fn": "Distancevel box handling is neither asIs nor repaired everywhere",
                      "asIs-like": votes["asis"][0], "repaired-like": votes["rep"][0]}, "mixed", "asIs | repaired")
    ctx.extra["variant"] = ("asIs" if votes["asis"] and not votes["rep"] else
                            "repaired" if votes["rep"] and not votes["asis"] else "undetermined")
    votes["asis"].sort(key=lambda c: c["pos"] != wit["pos"])   # the fixed witness first: a stable replay file
    for c in votes["asis"][:1]:
        # the code behaves like the asIs model: the counterexample theorem applies to it
        three = with_(c, box=c["box"][:3])
        r = check_property(opm, System, "box3-box9", three, {})
        if r:
            ctx.fail(r[0], r[1], {"kind": "box3-box9", "case": three, "extra": {}})

    # ---- the symmetry predicates, evaluated on the real classes only
    def ev(kind, case, extra):
        ctx.count(1, branch="pred:" + kind + ":" + case["op"][0])
        r = check_property(opm, System, kind, case, extra)
        if r and r[0] == SIG_DV and votes["asis"]:
            ctx.hit("box9-indexerror-repeats")      # already reported once with the first asIs-like case
        elif r:
            ctx.fail(r[0], r[1], {"kind": kind, "case": case, "extra": extra})
        elif kind == "min-image" or py_pre(case, "rep")[0] == "ok":
            ctx.distinct((kind, str(case), str(extra)))

    rel = ["distance", "distancevel", "dihedral", "puckering"]
    for _ in range(n_sym):
        # translation: all relative parameters, periodic or not
        c = tie_free_case(rng, name=rng.choice(rel))
        ev("translation", c, {"t": rnd_vec(rng, 20)})
        # image shifts: periodic, tie-free (any dyadic box), any subset of atoms, also 9-boxes for the slicing classes
        nm = rng.choice(rel)
        c = tie_free_case(rng, name=nm, periodic=True,
                          boxform=rng.choice(["3", "9"]) if (nm != "distancevel" or ctx.extra.get("variant") == "repaired") else "3")
        ks = [[rng.randint(-3, 3) if rng.random() < 0.6 else 0 for _ in range(3)] for _ in c["pos"]]
        ev("image-shift", c, {"ks": ks})
        # velocity reversal: all six
        c = tie_free_case(rng, boxform=rng.choice(["3", "none"]))
        ev("velocity-reversal", c, {})
        # rotation: non-periodic relative parameters
        c = rnd_case(rng, name=rng.choice(rel), periodic=False)
        ev("rotation", c, {"R": [[S(x) for x in r] for r in rnd_rot(rng)]})
        # 3- vs 9-component boxes: periodic variants
        c = tie_free_case(rng, name=rng.choice(rel), periodic=True, boxform="3")
        ev("box3-box9", c, {})
        # minimum image on pbc_dist_coordinate itself
        L = [S(rng.choice(LENGTHS)) for _ in range(3)]
        ev("min-image", {"op": ["pbc"]}, {"d": rnd_vec(rng, 40), "L": L})
    # image shift of the distance AT exact ties (power-of-two boxes: float arithmetic is exact)
    n_t = 0
    for stream, c in cases:
        if stream == "tie" and c["op"][0] == "distance" and n_t < n_sym:
            n_t += 1
            ks = [[rng.randint(-3, 3) for _ in range(3)] for _ in c["pos"]]
            ev("image-shift", with_(c, box=c["box"][:3]), {"ks": ks})
    # observation (not a failure): signed periodic parameters at exact half-box ties
    flips = 0
    for stream, c in cases:
        if stream == "tie" and c["op"][0] == "distancevel" and len(c["box"]) == 3 and has_tie(c):
            ks = [[1, 1, 1] if a == (c["op"][2] % len(c["pos"])) else [0, 0, 0] for a in range(len(c["pos"]))]
            if pred_pair(opm, System, c, shifted(c, ks)):
                flips += 1
    ctx.extra["tie_observation"] = (f"{flips} Distancevel configurations with a component exactly at L/2 change sign when one atom is "
                                    "moved by one box vector (theorem image_shift_invariant_tie_counterexample); not counted as a failure")
    # ---- EngineBase.calculate_order: vel_rev x route x box form, every built-in order parameter
    co_cases = []
    names6 = ["distance", "distancevel", "position", "velocity", "dihedral", "puckering"]
    for _ in range(40 if q else 300):
        for nm in names6:
            for form in ("3", "9", "none"):
                per = None if nm in ("position", "velocity") else rng.random() < 0.7
                if nm == "distancevel" and form == "9" and ctx.extra["variant"] != "repaired":
                    per = False     # periodic Distancevel + 9-box is the known IndexError (reported above)
                co_cases.append(tie_free_case(rng, name=nm, periodic=per, boxform=form))
    co_model = [None] * len(co_cases)
    if have_model:
        var = "rep" if ctx.extra["variant"] == "repaired" else "asis"
        outm = ctx.driver([line(c, var) for c in co_cases] + [line(reversed_vel(c), var) for c in co_cases])
        for k in range(len(co_cases)):
            a, b = parse_model(outm[k]), parse_model(outm[len(co_cases) + k])
            co_model[k] = {False: a[:2], True: b[:2]}
    for k, c in enumerate(co_cases):
        ctx.count(4, branch="calculate_order:" + c["op"][0])
        r = check_calc_order(opm, System, c, co_model[k])
        if r:
            ctx.fail(SIG_CO, r, {"kind": "calculate-order", "case": c, "extra": {}})
        else:
            ctx.distinct(("calculate-order", str(c)))
    # ---- long-lived objects: one object (and one engine) per sequence of systems with different boxes
    hist = []
    for rep in range(16 if q else 100):
        for nm in names6:
            hist.append(rnd_history(rng, nm, contiguous=rep % 2 == 0))
    hmodels = [None] * len(hist)
    if have_model:
        var = "rep" if ctx.extra["variant"] == "repaired" else "asis"
        flat = [line({"op": op, "pos": fr["pos"], "vel": fr["vel"], "box": fr["box"]}, var) for op, frames in hist for fr in frames]
        outh = [parse_model(x)[:2] for x in ctx.driver(flat)]
        pos_ = 0
        for k, (op, frames) in enumerate(hist):
            hmodels[k] = outh[pos_: pos_ + len(frames)]
            pos_ += len(frames)
    for k, (op, frames) in enumerate(hist):
        ctx.count(3 * len(frames), branch="history:" + op[0])
        for f in frames:
            ctx.hit("history-frame-mode:" + f["mode"])
        r = check_history(opm, System, op, frames, hmodels[k])
        if r:
            ctx.fail(r[0], r[1], {"kind": "history", "case": {"op": op, "frames": frames}, "extra": {}})
        else:
            ctx.distinct(("history", str(op), str(frames)))
        if k == 7:
            ctx.sample({"stream": "history", "op": op, "frames": [(f["mode"], f["box"]) for f in frames]})
    # ---- two objects alive at once, create_orderparameter, orders inside a Path
    def guarded(fn, kind, case, extra, *args):
        try:
            r = fn(*args)
        except Exception as e:  # noqa: BLE001   (a harness exception must not hide a violation behind exit 2)
            r = ("C20:unexpected-exception", f"{kind}: the real code raised outside calculate(): {type(e).__name__}: {e}")
        if r:
            ctx.fail(r[0], r[1], {"kind": kind, "case": case, "extra": extra})
        else:
            ctx.distinct((kind, str(case), str(extra)))

    for op, frames in path_reverse_witnesses():
        ctx.count(len(frames), branch="path-reverse-witness:" + op[0])
        guarded(check_path, "path", {"op": op, "frames": frames}, {}, opm, System, op, frames)
    for k, (op, frames) in enumerate(hist):
        fr3 = [dict(f, mode="new") for f in frames[:3]]
        n = len(frames[0]["pos"])
        if (k // 6 + k) % 2 == 0 or not q:
            opb = rnd_op(rng, n, op[0])
            ctx.count(9, branch="twins:" + op[0])
            guarded(check_twins, "twins", {"op": op, "frames": fr3}, {"opb": opb}, opm, System, op, opb, fr3)
        if (k // 6 + k) % 2 == 1 or not q:
            wp = not (op[0] in DEFAULT_PERIODIC and (k // 12) % 2 == 1)
            ctx.count(9, branch="factory:" + op[0] + (":periodic-missing" if not wp else ""))
            guarded(check_factory, "factory", {"op": op, "frames": fr3}, {"with_periodic": wp}, opm, System, op, fr3, wp)
        if (k // 6 + k) % 3 == 0 or not q:
            ctx.count(len(frames), branch="path:" + op[0])
            guarded(check_path, "path", {"op": op, "frames": frames}, {}, opm, System, op, frames)
    # boundary distances at exact ties / whole boxes: image shifts must not change the periodic distance
    nb = 0
    for stream, c in cases:
        if stream == "boundary" and c["op"][0] == "distance" and c["op"][-1] and c["box"] and len(c["box"]) == 3 \
                and all(Fr(x) in (Fr(4), Fr(8)) for x in c["box"]):
            nb += 1
            if q and nb % 3:
                continue
            ev("image-shift", c, {"ks": [[rng.randint(-3, 3) for _ in range(3)] for _ in c["pos"]]})
    ctx.extra["path_reverse"] = ("velocity-type orders after Path.reverse are judged by check_path on a fixed witness set (Velocity, "
                                 "Distancevel; file and explicit-array frames) and on the random sequences: signature " + SIG_PR)
    # ---- extension pass: pbc_dist_coordinate itself, constructors / create_orderparameter, calculate_order and
    #      Path.reverse as whole operations against Model/GeomCtor.lean and Model/GeomFlow.lean
    from props import c20_ext
    c20_ext.run(ctx, opm, System)
    # ---- follow-up pass: frames the library really makes (snapshot_to_system / load_path / a real TurtleMD propagate),
    #      2-D boxes, changed-fields vs Geom.effects, base-class keys, producer agreement of the engines' boxes
    from props import c20_lib
    c20_lib.run(ctx, opm, System)
    new_assumptions = [
        "system.pos/vel are float (N,3) arrays, system.box is None or a 1-D float array (the default 3x3 zero box of a bare System() is not modelled)",
        "sqrt/arctan2/rad2deg/sin/cos and the final quotients are applied outside the Lean model (same formulas in floating point, compared at rel 1e-9; angles through sin/cos)",
        "ill-conditioned outputs are not compared: dihedral with hypot(numer, denom) < 1e-3, puckering with |A x B|^2 < 1e-2 or Q < 1e-2 (phi: q2 < 1e-2)",
        "float rint(d * (1/L)) equals the exact rint(d/L): ensured by tie-free inputs for general dyadic L and by power-of-two L in the tie stream",
        "image-shift invariance of the signed parameters is claimed (and tested) only away from exact half-box ties; at ties the sign depends on the image (proved)",
        "'the result is a function of the system only' is true of the Lean model by construction (value/calculate take only the System; "
        "there is no object state), so no separate theorem states it: its content is in the tie, which evaluates ONE long-lived object and "
        "ONE long-lived engine over sequences of systems (new Systems, the same System with new arrays, the same pos/vel/box arrays changed in place) "
        "against a fresh object and against the model per frame",
        "boxes are orthogonal: for 9-component boxes only the first three entries are used by the code (and by the model); off-diagonal entries, zero or not, are ignored and no symmetry is claimed for triclinic cells",
        "collinear dihedrals (|v1 x v2| or |v2 x v3| ~ 0) and planar rings (Q ~ 0) are evaluated (no exception, model/code agree on nan vs number) but their angles are not compared",
        "state kept inside an order-parameter object is not counted as modifying the System; whether it can influence a later result is decided by the history predicate",
    ]
    ctx.assumptions += [a for a in new_assumptions if a not in ctx.assumptions]


def replay(ctx, obj):
    """re-run one recorded failing input on the current implementation; 1 = still fails"""
    opm, System = _imports()
    r = obj.get("replay", {})
    if "kind" not in r:
        print("no replayable input in", obj.get("kind"))
        return 1
    res = check_property(opm, System, r["kind"], r["case"], r.get("extra", {}))
    print("predicate:", r["kind"], "case:", r["case"], "->", res or "holds")
    return 1 if res else 0
