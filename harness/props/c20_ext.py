"""C20, extension pass: the parts of the tie that compare the real code with Model/GeomCtor.lean and Model/GeomFlow.lean.

  pbc     pbc_dist_coordinate itself            vs  Geom.pbcDist            (+ predicates: image, shortest image)
  pfull   Puckering.calculate [theta, phi, Q]   vs  tail of Geom.puckeringFull ([H1, H2, Q3, ZZ, nn])
  lens    len(calculate(...)), velocity_dependent vs OP.outLen / OP.velocityDependent
  ctor    the six constructors called directly  vs  Geom.ctorDistance … ctorPuckering
  create  create_orderparameter(settings)       vs  Geom.createOrderParameter; objects in the domain of calculate are
          then USED once on a fixed system and compared with `calc cur` (construction → first use, end to end)
  corder  EngineBase.calculate_order, every pattern of missing arguments / missing file blocks / vel_rev / no order
          function: value, read request and the System afterwards   vs  Geom.calculateOrderFull
  prev    Path.reverse(order_function, rev_v) on whole paths (maxlen, stored multi-component orders, position- and
          velocity-type functions, IndexError)                        vs  Geom.pathReverse .asIs
Property predicates evaluated on the real code alone: wrong index count is refused at construction, constructed
objects have the right count and flag; 3- vs 9-component box through calculate_order; Path.reverse mirrors the frames,
keeps stored orders of position-type parameters, toggles the flags, leaves the original alone; minimum image is an
image and the shortest one.
"""
from __future__ import annotations

import copy
import math
import warnings
from fractions import Fraction as Fr

import numpy as np

from common import err_kind, frac_token

PENDING_FINDINGS: list = []     # signatures turned into notes (none at the moment)


def _base():
    from props import c20
    return c20


# --------------------------------------------------------------------------- encodings
def xhex(s):
    return "x" + (s.encode().hex() if s else "-")


def sc_tok(v):
    if v is None:
        return "N"
    if isinstance(v, bool):
        return "B1" if v else "B0"
    if isinstance(v, int):
        return f"I{v}"
    if isinstance(v, float):
        return "F" + frac_token(Fr(v))
    if isinstance(v, str):
        return "T" + (v.encode().hex() if v else "-")
    raise TypeError(type(v))


def idx_tok(v):
    if isinstance(v, (list, tuple)):
        return " ".join(["seq", str(len(v))] + [sc_tok(x) for x in v])
    return "scalar " + sc_tok(v)


def _isint(x):
    return type(x) is int


def op_of(o):
    """the object as an op list of the base tie when every index handed to numpy is a Python int, else None"""
    cls = type(o).__name__.lower()
    idx = getattr(o, "index", None)
    if cls in ("distance", "distancevel", "position"):
        if isinstance(idx, (list, tuple)) and len(idx) == 2 and all(_isint(i) for i in idx):
            return [cls, idx[0], idx[1]] + ([int(bool(o.periodic))] if cls != "position" else [])
        return None
    if cls == "velocity":
        return ["velocity", idx, o.dim] if _isint(idx) else None
    if cls == "dihedral":
        return ["dihedral"] + list(o.index) + [int(bool(o.periodic))] if len(o.index) == 4 and all(_isint(i) for i in o.index) else None
    if cls == "puckering":
        return ["puckering"] + list(o.index) + [int(bool(o.periodic))] if len(o.index) == 6 and all(_isint(i) for i in o.index) else None
    return None


def obj_str(o):
    """the same text as the driver's showObj"""
    cls = type(o).__name__.lower()
    if cls == "orderparameter":
        body = "base - p=- dim=-"
    elif cls in ("distance", "distancevel"):
        body = f"{cls} {idx_tok(o.index)} p={int(bool(o.periodic))} dim=-"
    elif cls == "position":
        body = f"position {idx_tok(o.index)} p={int(bool(o.periodic))} dim=-"
    elif cls == "velocity":
        body = f"velocity {idx_tok(o.index)} p=- dim={o.dim}"
    elif cls in ("dihedral", "puckering"):
        ints = " ".join([str(len(o.index))] + [str(i) for i in o.index])
        ok = isinstance(o.index, tuple) and all(_isint(i) for i in o.index)
        body = f"{cls} {'ints' if ok else 'NOT-INTS'} {ints} p={int(bool(o.periodic))} dim=-"
    else:
        return "obj unknown-class " + cls
    op = op_of(o)
    return f"obj {body} vd={int(bool(o.velocity_dependent))} op={' '.join(str(x) for x in op) if op else 'none'}"


ERRNAME = {"TypeError": "err:TypeError", "ValueError": "err:ValueError", "NotImplementedError": "err:NotImplementedError"}


def real_make(fn):
    try:
        with warnings.catch_warnings():
            warnings.simplefilter("ignore")
            o = fn()
    except Exception as e:  # noqa: BLE001
        return None, ERRNAME.get(type(e).__name__, "err:other:" + type(e).__name__)
    return o, obj_str(o)


# --------------------------------------------------------------------------- construction
INDEX_VALUES = [
    None, True, 3, 1.5, "ab", "abcd", "0123", "012345", [], [0], [0, 1], [1, 1], [-7, 0], (0, 1), [100, 200],
    [0, 1, 2], [0, 1, 2, 3], (3, 2, 1, 0), [3, 2, 1, 0, 4], [0, 1, 2, 3, 4, 5], (5, 4, 3, 2, 1, 0), [0, 1, 2, 3, 4, 5, 6],
    [0, None], [None, 1, 2, 3], [1.7, 2.0], [True, False], ["1", "2"], ["1", "2", "3", "4"], ["a", "1", "2", "3"],
    [0, "x", None, 3], [0, None, "x", 3], [1.5, -2.5, True, "-3"], [0, 1, 2, 3, 4, "+5"], [0, 1, 2, 3, 4, 5.9], [0, 0, 0, 0],
    [2, 2, 2, 2, 2, 2], [-1, -2, -3, -4], [-1, -2, -3, -4, -5, -6], ["", "1", "2", "3"], ["-", "1", "2", "3"],
]
CLASSES = ["Distance", "distance", "DISTANCEVEL", "Position", "velocity", "Dihedral", "PUCKERING", "OrderParameter",
           "orderparameter", "Foo", "distances"]
DIMS = ["x", "Y", "z", "w", "", "xx"]
ARITY = {"position": 2, "distance": 2, "distancevel": 2, "dihedral": 4, "puckering": 6}
ABSENT = object()

FIRST_USE = {
    "pos": [["0", "0", "0"], ["3", "1/2", "1/4"], ["1/2", "2", "3"], ["1/2", "5", "7/2"], ["-1", "1", "3/2"], ["5/2", "-3", "1"], ["1", "1", "-3/2"]],
    "vel": [["1", "0", "0"], ["0", "1", "0"], ["0", "0", "1"], ["1", "1", "1"], ["-1", "2", "0"], ["0", "0", "0"], ["1/2", "0", "1"]],
    "box": ["4", "8", "4"],
}


def direct_ctor(opm, kind, idx, per, dim):
    if kind == "velocity":
        return opm.Velocity(idx, dim)
    cls = {"distance": opm.Distance, "distancevel": opm.Distancevel, "position": opm.Position,
           "dihedral": opm.Dihedral, "puckering": opm.Puckering}[kind]
    return cls(idx, per)


def settings_for(cls, idx, per, dim):
    d = {"class": cls}
    if idx is not ABSENT:
        d["index"] = copy.deepcopy(idx)
    if per is not ABSENT:
        d["periodic"] = per
    if dim is not ABSENT:
        d["dim"] = dim
    return {"orderparameter": d, "simulation": {"steps": 0}}


def ctor_predicates(kind, idx, o, made_str):
    """what the property side expects of construction, judged on the real outcome alone -> None | (sig, what)"""
    if kind not in ARITY:
        return None
    n = ARITY[kind]
    try:
        ln = len(idx)
    except TypeError:
        ln = None
    if o is not None and (ln is None or ln != n):
        return ("C20:ctor:wrong-count-accepted",
                f"{kind} was constructed from index {idx!r} ({'no len' if ln is None else ln} entries, {n} required): "
                "a definition with the wrong number of particles must be refused when the object is made")
    if o is not None:
        try:
            stored = len(o.index)
        except TypeError:
            stored = None
        if stored != n:
            return ("C20:ctor:wrong-count-accepted", f"{kind} object holds index {o.index!r} ({stored} entries, {n} required)")
        if kind in ("dihedral", "puckering") and not all(_isint(i) for i in o.index):
            return ("C20:ctor:index-not-int", f"{kind} object holds non-int indices {o.index!r}")
        want = kind in ("distancevel", "velocity")
        if bool(o.velocity_dependent) != want:
            return ("C20:ctor:velocity-flag", f"{kind} object has velocity_dependent={o.velocity_dependent}")
    return None


def check_ctor(opm, System, case):
    """replayable: one construction (direct or through create_orderparameter) + the predicates"""
    kind, idx = case["kind"], case["index"]
    if case.get("via") == "create":
        st = settings_for(case["cls"], idx if not case.get("index_absent") else ABSENT,
                          case.get("periodic", ABSENT) if "periodic" in case else ABSENT,
                          case.get("dim", ABSENT) if "dim" in case else ABSENT)
        o, _ = real_make(lambda: opm.create_orderparameter(st))
    else:
        o, _ = real_make(lambda: direct_ctor(opm, kind, idx, case.get("periodic", True), case.get("dim", "x")))
    if kind == "velocity" and o is not None:
        if not bool(o.velocity_dependent):
            return ("C20:ctor:velocity-flag", "velocity object has velocity_dependent=False")
        return None
    return ctor_predicates(kind, idx, o, None)


def run_ctor(ctx, opm, System):
    base = _base()
    lines, metas = [], []
    # direct constructor calls
    for kind in ("distance", "distancevel", "position", "velocity", "dihedral", "puckering"):
        for idx in INDEX_VALUES:
            for per in (True, False):
                for dim in (DIMS if kind == "velocity" else ["x"]):
                    if kind == "velocity" and not per:
                        continue
                    lines.append(f"ctor {kind} {idx_tok(idx)} {int(per)} {xhex(dim)}")
                    metas.append(("ctor", kind, idx, per, dim, None))
    # through create_orderparameter
    quick = ctx.quick
    for cls in CLASSES:
        for idx in [ABSENT] + INDEX_VALUES:
            for per in (ABSENT, True, False):
                for dim in ([ABSENT] + DIMS if cls.lower() == "velocity" else [ABSENT, "q"]):
                    if quick and cls in ("distance", "orderparameter", "distances") and per is True:
                        continue
                    itok = "absent" if idx is ABSENT else idx_tok(idx)
                    ptok = "absent" if per is ABSENT else str(int(per))
                    dtok = "absent" if dim is ABSENT else xhex(dim)
                    lines.append(f"create {xhex(cls)} {itok} {ptok} {dtok}")
                    metas.append(("create", cls.lower(), idx, per, dim, cls))
    out = ctx.driver(lines) if ctx._driver_ok else [None] * len(lines)
    first_use = []
    for (via, kind, idx, per, dim, cls), ml in zip(metas, out):
        if via == "ctor":
            o, rs = real_make(lambda: direct_ctor(opm, kind, copy.deepcopy(idx), per, dim))
            case = {"via": "ctor", "kind": kind, "index": idx, "periodic": per, "dim": dim}
        else:
            st = settings_for(cls, idx, per, dim)
            keep = copy.deepcopy(st)
            o, rs = real_make(lambda: opm.create_orderparameter(st))
            case = {"via": "create", "kind": kind, "cls": cls, "index": None if idx is ABSENT else idx, "index_absent": idx is ABSENT}
            if per is not ABSENT:
                case["periodic"] = per
            if dim is not ABSENT:
                case["dim"] = dim
            if st != keep:
                ctx.fail("C20:factory", f"create_orderparameter modified its settings: {keep} -> {st}", {"kind": "ext-ctor", "case": case, "extra": {}})
        ctx.count(1, branch=f"ext:{via}:{kind if kind in ARITY or kind in ('velocity', 'orderparameter') else 'other'}:{'ok' if o is not None else rs}")
        if ml is not None:
            if ml == "external":
                # outside the model: the real side must not have produced one of the built-in classes
                if o is not None and type(o).__module__ == opm.__name__:
                    ctx.disagree({"fn": "create_orderparameter (class lookup)", "case": case}, rs, ml)
            elif ml != rs:
                ctx.disagree({"fn": "create_orderparameter" if via == "create" else f"{kind}.__init__", "case": case}, rs, ml)
        if idx is not ABSENT:
            r = ctor_predicates(kind, idx, o, rs)
            if r:
                ctx.fail(r[0], r[1], {"kind": "ext-ctor", "case": case, "extra": {}})
            elif o is not None:
                ctx.distinct(("ctor", via, kind, repr(idx), repr(per), repr(dim)))
        if o is not None and op_of(o) is not None:
            first_use.append((o, op_of(o), case))
    # construction -> first use: the created object itself is evaluated once and compared with the model's value
    if first_use:
        flines = [base.line({"op": op, **FIRST_USE}, "cur") for _, op, _ in first_use]
        fout = ctx.driver(flines) if ctx._driver_ok else [None] * len(flines)
        s = base.mk_sys(System, {"op": None, **FIRST_USE})
        for (o, op, case), ml in zip(first_use, fout):
            tag, vals = base.call_obj(o, s)
            ctx.count(1, branch=f"ext:first-use:{op[0]}:{tag}")
            n = len(FIRST_USE["pos"])
            ids = op[1:2] if op[0] in ("position", "velocity") else op[1:-1]
            in_range = all(-n <= i < n for i in ids) and (op[0] != "position" or -3 <= op[2] < 3)
            if (tag == "err:index") != (not in_range):
                ctx.fail("C20:ctor:first-use", f"{op}: calculate on a {n}-atom system gives {tag} {vals}; an IndexError is expected exactly "
                         "when an index is out of range", {"kind": "ext-ctor", "case": case, "extra": {}})
            if ml is not None:
                mt, mv, _ = base.parse_model(ml)
                if not _agrees(base, op[0], tag, vals, mt, mv):
                    ctx.disagree({"fn": "constructed object, first calculate", "op": op, "case": case}, [tag] + vals, ml)


def _agrees(base, name, tag, vals, mt, mv):
    if mt == "nan":
        return tag == "ok" and len(vals) > 0 and all(math.isnan(v) for v in vals)
    if mt != "ok":
        return tag == mt
    if tag != "ok":
        return False
    ev, kinds, skip = base.tail(name, mv)
    return base.same_vals(vals, ev, kinds, skip)


# --------------------------------------------------------------------------- pbc_dist_coordinate itself
def real_pbc(opm, d, box):
    try:
        with np.errstate(all="ignore"), warnings.catch_warnings():
            warnings.simplefilter("ignore")
            w = opm.pbc_dist_coordinate(np.array([float(Fr(x)) for x in d]), np.array([float(Fr(x)) for x in box], dtype=float))
        return "ok", [float(x) for x in w]
    except Exception as e:  # noqa: BLE001
        return err_kind(e), []


def check_pbc(opm, System, case):
    """predicates on pbc_dist_coordinate alone: result is an image of the input and the shortest one (positive lengths)"""
    d, box = [Fr(x) for x in case["d"]], [Fr(x) for x in case["box"]]
    tag, w = real_pbc(opm, case["d"], case["box"])
    if len(box) != 3 or any(L <= 0 for L in box):
        return None
    if tag != "ok":
        return ("C20:min-image", f"pbc_dist_coordinate({case['d']}, {case['box']}) raised {tag}")
    for k in range(3):
        wk = Fr(w[k])
        q = (d[k] - wk) / box[k]
        if q.denominator != 1:
            return ("C20:min-image", f"component {k}: {w[k]} is not an image of {case['d'][k]} for box length {case['box'][k]}")
        for m in range(-3, 4):
            if abs(wk) > abs(d[k] + m * box[k]):
                return ("C20:min-image", f"component {k}: |{w[k]}| exceeds the image {d[k] + m * box[k]} of {case['d'][k]} (box {case['box'][k]})")
    return None


def run_pbc(ctx, opm, System):
    base = _base()
    rng = ctx.rng
    cases = []
    n = 1500 if ctx.quick else 12000
    for _ in range(n):
        ln = rng.choice([0, 1, 2, 3, 3, 3, 3, 4, 5, 9])
        pow2 = rng.random() < 0.4
        pool = base.POW2 if pow2 else base.LENGTHS
        box = [rng.choice(pool) for _ in range(ln)]
        if rng.random() < 0.15 and ln:
            box[rng.randrange(ln)] = rng.choice([Fr(0), -rng.choice(base.POW2)])
        if pow2 and rng.random() < 0.5:
            d = [rng.randint(-6, 6) * (box[k] if k < ln and box[k] else Fr(2)) / 2 for k in range(3)]   # ties (exact in floats)
        else:
            d = [Fr(rng.randint(-40 * 16, 40 * 16), 16) for _ in range(3)]
            # avoid near-ties for non power-of-two lengths: float rint(d*(1/L)) must equal the exact rint
            d = [x + Fr(1, 32) if k < ln and box[k] and (2 * x / box[k]).denominator == 1 and not pow2 else x for k, x in enumerate(d)]
        cases.append({"d": [base.S(x) for x in d], "box": [base.S(x) for x in box]})
    lines = [f"pbc {' '.join(frac_token(Fr(x)) for x in c['d'])} {len(c['box'])} {' '.join(frac_token(Fr(x)) for x in c['box'])}".rstrip() for c in cases]
    out = ctx.driver(lines) if ctx._driver_ok else [None] * len(lines)
    for c, ml in zip(cases, out):
        tag, w = real_pbc(opm, c["d"], c["box"])
        nanr = tag == "ok" and any(math.isnan(x) for x in w)
        ctx.count(1, branch=f"ext:pbc:len{len(c['box'])}:{'nan' if nanr else tag}")
        if ml is not None:
            parts = ml.split()
            if parts[0] == "err:index":
                ok = tag == "err:index"
            else:
                mv, mnan = [Fr(x) for x in parts[1:4]], parts[4] == "1"
                ok = tag == "ok" and nanr == mnan and all(math.isnan(a) or Fr(a) == b for a, b in zip(w, mv))
            if not ok:
                ctx.disagree({"fn": "pbc_dist_coordinate", "case": c}, [tag] + w, ml)
        r = check_pbc(opm, System, c)
        if r:
            ctx.fail(r[0], r[1], {"kind": "ext-pbc", "case": c, "extra": {}})
        elif tag == "ok" and not nanr:
            ctx.distinct(("pbc", str(c)))


# --------------------------------------------------------------------------- Puckering: the sums; lengths and flags
def tail_full(v):
    """[theta, phi, Q] from the model's [H1, H2, Q3, ZZ, nn] -> (values, kinds, skip)"""
    H1, H2, Q3, ZZ, nn = [float(x) for x in v]
    if v[4] == 0:
        return [float("nan")] * 3, ["deg", "deg", "lin"], [True] * 3
    r = math.sqrt(nn)
    h1 = math.sqrt(1 / 3) * H1 / r
    h2 = -0.5 * H2 / r
    q3 = math.sqrt(1 / 6) * Q3 / r
    q2 = math.sqrt(h1 * h1 + h2 * h2)
    theta = math.atan2(q2, q3)
    phi = math.atan2(h2, h1)
    if phi < 0:
        phi += 2 * math.pi
    Q = math.sqrt(ZZ / nn)
    bad = nn < 1e-2
    return [math.degrees(theta), math.degrees(phi), Q], ["deg", "deg", "lin"], [bad or Q < 1e-2, bad or q2 < 1e-2, bad]


def run_pfull_lens(ctx, opm, System):
    base = _base()
    rng = ctx.rng
    cases = [base.tie_free_case(rng, name="puckering", n=rng.randint(6, 9)) for _ in range(300 if ctx.quick else 3000)]
    for c in base.boundary_cases():
        if c["op"][0] == "puckering":
            cases.append(c)
    if ctx._driver_ok:
        out = ctx.driver([base.line(c, "cur").replace("calc ", "pfull ", 1) for c in cases])
        for c, ml in zip(cases, out):
            tag, vals, _ = base.code_eval(opm, System, c)
            ctx.count(1, branch=f"ext:pfull:{tag}")
            mt, mv, _ = base.parse_model(ml + " | pure")
            if mt == "nan":
                ok = tag == "ok" and all(math.isnan(v) for v in vals)
            elif mt != "ok":
                ok = tag == mt
            else:
                ok = tag == "ok" and len(mv) == 5 and base.same_vals(vals, *tail_full(mv))
            if not ok:
                ctx.disagree({"fn": "Puckering.calculate (sums h1,h2,q3)", "case": c}, [tag] + vals, ml)
            elif tag == "ok":
                ctx.distinct(("pfull", str(c)))
    # number of returned values and the velocity flag, per class
    reps = {"distance": ["distance", 0, 1, 1], "distancevel": ["distancevel", 0, 1, 1], "position": ["position", 0, 0],
            "velocity": ["velocity", 0, 0], "dihedral": ["dihedral", 0, 1, 2, 3, 1], "puckering": ["puckering", 0, 1, 2, 3, 4, 5, 1]}
    want = {"distance": (1, 0), "distancevel": (1, 1), "position": (1, 0), "velocity": (1, 1), "dihedral": (1, 0), "puckering": (3, 0)}
    out = ctx.driver(["lens " + " ".join(str(x) for x in op) for op in reps.values()]) if ctx._driver_ok else [None] * 6
    s = base.mk_sys(System, {"op": None, **FIRST_USE})
    for (name, op), ml in zip(reps.items(), out):
        o = base.build(opm, op)
        tag, vals = base.call_obj(o, s)
        got = (len(vals), int(bool(o.velocity_dependent)))
        ctx.count(1, branch="ext:lens:" + name)
        if ml is not None and (tag != "ok" or tuple(int(x) for x in ml.split()[::2]) != got):
            ctx.disagree({"fn": "number of returned values / velocity_dependent", "op": op}, [tag, got], ml)
        if tag == "ok" and got != want[name]:
            ctx.fail("C20:path-order", f"{name}.calculate returns {got[0]} values, velocity_dependent={got[1]}; {want[name]} expected",
                     {"kind": "model", "case": {"op": op}, "extra": {}})


# --------------------------------------------------------------------------- calculate_order, whole
def _rows(a):
    if a is None:
        return None
    return [[Fr(float(x)) + 0 for x in r] for r in np.asarray(a, dtype=float).reshape(-1, 3)]


def _flat(rows):
    return [x for r in rows for x in r]


def opt_v3(rows):
    if rows is None:
        return "none"
    return _base().toks(rows)


def opt_box(b):
    if b is None:
        return "none"
    return " ".join([str(len(b))] + [frac_token(Fr(x)) for x in b])


def corder_real(opm, System, case):
    """-> (tag, vals, reads, pos, vel, box) after the call"""
    base = _base()
    fl = base.fl
    arr = lambda rows: None if rows is None else fl(rows)   # noqa: E731
    barr = lambda b: None if b is None else np.array([float(Fr(x)) for x in b], dtype=float)   # noqa: E731
    f = case["file"]
    table = {"frame.xyz": (arr(f["xyz"]), arr(f["vel"]), barr(f["box"]))}
    eng = base.make_engine(base.build(opm, case["op"]) if case["op"] else None, table)
    s = System()
    s.config = ("frame.xyz", 0)
    s.pos, s.vel, s.box = fl(case["sys0"]["pos"]), fl(case["sys0"]["vel"]), barr(case["sys0"]["box"])
    s.vel_rev = bool(case["velrev"])
    a = case["args"]
    try:
        with np.errstate(all="ignore"), warnings.catch_warnings():
            warnings.simplefilter("ignore")
            out = eng.calculate_order(s, xyz=arr(a["xyz"]), vel=arr(a["vel"]), box=barr(a["box"]))
        tag, vals = "ok", [float(x) for x in out]
    except ValueError as e:
        tag, vals = ("err:noorder" if case["op"] is None and "not defined" in str(e) else err_kind(e)), []
    except Exception as e:  # noqa: BLE001
        tag, vals = err_kind(e), []
    box = None if s.box is None else [Fr(float(x)) + 0 for x in np.asarray(s.box, dtype=float).reshape(-1)]
    return tag, vals, eng.reads, _rows(s.pos), _rows(s.vel), box, bool(s.vel_rev)


def corder_line(case):
    base = _base()
    op = case["op"]
    optok = "noop" if op is None else " ".join([op[0]] + [str(int(x)) for x in op[1:]])
    s0, a, f = case["sys0"], case["args"], case["file"]
    return (f"corder cur {optok} {int(case['velrev'])} {base.toks(s0['pos'])} {base.toks(s0['vel'])} {opt_box(s0['box'])} "
            f"{opt_v3(a['xyz'])} {opt_v3(a['vel'])} {opt_box(a['box'])} {opt_v3(f['xyz'])} {opt_v3(f['vel'])} {opt_box(f['box'])}")


def parse_corder(ans):
    val, rd, pos, vel, box = [x.strip() for x in ans.split(" | ")]
    p = val.split()
    mt, mv = (p[0], [Fr(x) for x in p[2:]]) if p[0] == "ok" else (p[0], [])
    tof = lambda t: [Fr(x) for x in t.split()[1:]]   # noqa: E731
    return mt, mv, int(rd.split("=")[1]), tof(pos), tof(vel), (None if box == "none" else tof(box))


def check_corder_box(opm, System, case):
    """predicate on the real code: the 3-component and the 9-component form of the same orthogonal box give the same
    value through calculate_order (explicit arrays).  -> None | (sig, what)"""
    base = _base()
    res = []
    for tail9 in ([], ["0"] * 6):
        c = copy.deepcopy(case)
        c["args"]["box"] = list(case["args"]["box"][:3]) + tail9
        res.append(corder_real(opm, System, c)[:2])
    (t3, v3), (t9, v9) = res
    ks = base.kinds_of({"op": case["op"], "pos": case["args"]["xyz"], "vel": case["args"]["vel"], "box": case["args"]["box"][:3]})
    kinds, skip = ks if ks else (["lin"] * 3, [False] * 3)
    if t3 != t9 or (t3 == "ok" and not base.same_vals(v3, v9, kinds, skip)):
        return ("C20:box3-box9", f"{case['op']}: calculate_order with the 3-component box gives {t3} {v3}, with the 9-component form {t9} {v9}")
    return None


def run_corder(ctx, opm, System):
    base = _base()
    rng = ctx.rng
    cases = []
    names = ["distance", "distancevel", "position", "velocity", "dihedral", "puckering"]
    for g in range(66 if ctx.quick else 660):
        nm = names[g % 6]
        c = base.tie_free_case(rng, name=nm, boxform=rng.choice(["3", "9"]), n=rng.randint(6, 8))
        if g % 7 == 6:
            c["op"] = base.rnd_op(rng, len(c["pos"]), nm, valid=False)      # some out-of-range definitions
        if g % 13 == 12:
            c["box"] = ["4", "0", "4"] + c["box"][3:]                        # a zero box length (NaN)
        other = base.tie_free_case(rng, name=nm, boxform="3", n=len(c["pos"]))
        third = base.tie_free_case(rng, name=nm, boxform=rng.choice(["3", "none"]), n=len(c["pos"]))
        op = None if g % 11 == 10 else c["op"]
        filevars = [{"xyz": other["pos"], "vel": other["vel"], "box": other["box"]},
                    {"xyz": other["pos"], "vel": other["vel"], "box": None},
                    {"xyz": other["pos"], "vel": None, "box": other["box"]},
                    {"xyz": other["pos"], "vel": None, "box": None}]
        for mask in range(8):
            for velrev in (False, True):
                args = {"xyz": c["pos"] if mask & 1 else None, "vel": c["vel"] if mask & 2 else None, "box": c["box"] if mask & 4 else None}
                f = filevars[0] if mask == 7 else rng.choice(filevars)
                cases.append({"op": op, "velrev": velrev, "sys0": {"pos": third["pos"], "vel": third["vel"], "box": third["box"]},
                              "args": args, "file": f})
    out = ctx.driver([corder_line(c) for c in cases]) if ctx._driver_ok else [None] * len(cases)
    for c, ml in zip(cases, out):
        tag, vals, reads, pos, vel, box, vr = corder_real(opm, System, c)
        mask = sum(b for b, k in ((1, "xyz"), (2, "vel"), (4, "box")) if c["args"][k] is not None)
        ctx.count(1, branch=f"ext:corder:mask{mask}:{'noop' if c['op'] is None else c['op'][0]}:{tag}")
        # predicates on the real code alone: complete explicit arrays are used without reading; the System ends up
        # holding the arrays that were used; vel_rev is not changed by the call
        if mask == 7 and reads:
            ctx.fail("C20:calculate-order:velocity-direction", "explicit arrays were given but the configuration file was read",
                     {"kind": "ext-corder", "case": c, "extra": {}})
        if vr != c["velrev"]:
            ctx.fail("C20:purity", "calculate_order changed system.vel_rev", {"kind": "ext-corder", "case": c, "extra": {}})
        if mask == 7:
            want_v = [[-Fr(x) if c["velrev"] else Fr(x) for x in r] for r in c["args"]["vel"]]
            if pos != [[Fr(x) for x in r] for r in c["args"]["xyz"]] or vel != want_v or box != [Fr(x) for x in c["args"]["box"]]:
                ctx.fail("C20:calculate-order:velocity-direction", "after calculate_order(xyz, vel, box) the System does not hold xyz, "
                         "vel*(-1)^vel_rev, box", {"kind": "ext-corder", "case": c, "extra": {}})
            if c["op"] is not None and c["args"]["box"] is not None and len(c["args"]["box"]) >= 3 and not c["velrev"]:
                r = check_corder_box(opm, System, c)
                if r:
                    ctx.fail(r[0], r[1], {"kind": "ext-corder-box", "case": c, "extra": {}})
        if ml is not None:
            mt, mv, mread, mpos, mvel, mbox = parse_corder(ml)
            ok = (reads == mread and _flat(pos) == mpos and _flat(vel) == mvel and box == mbox)
            if mt == "err:noorder":
                ok = ok and tag == "err:noorder"
            elif c["op"] is not None:
                ok = ok and _agrees(base, c["op"][0], tag, vals, mt, mv)
            if not ok:
                ctx.disagree({"fn": "EngineBase.calculate_order (whole)", "case": c},
                             {"val": [tag] + vals, "reads": reads, "pos": str(pos), "vel": str(vel), "box": str(box)}, ml)
            elif tag == "ok":
                ctx.distinct(("corder", str(c)))


def check_corder(opm, System, case):
    """replay: the model-independent predicates of run_corder on one case"""
    tag, vals, reads, pos, vel, box, vr = corder_real(opm, System, case)
    full = all(case["args"][k] is not None for k in ("xyz", "vel", "box"))
    if full and reads:
        return ("C20:calculate-order:velocity-direction", "explicit arrays were given but the configuration file was read")
    if vr != case["velrev"]:
        return ("C20:purity", "calculate_order changed system.vel_rev")
    if full:
        want_v = [[-Fr(x) if case["velrev"] else Fr(x) for x in r] for r in case["args"]["vel"]]
        if pos != [[Fr(x) for x in r] for r in case["args"]["xyz"]] or vel != want_v or box != [Fr(x) for x in case["args"]["box"]]:
            return ("C20:calculate-order:velocity-direction", "the System does not hold xyz, vel*(-1)^vel_rev, box after the call")
    return None


# --------------------------------------------------------------------------- Path.reverse, whole
def prev_real(opm, System, case):
    """-> ('err:index', None) | ('ok', [frame dicts]) and the untouched-original flag"""
    from infretis.classes.path import Path
    base = _base()
    fl = base.fl
    pth = Path(maxlen=10 ** 6)
    for j, fr in enumerate(case["frames"]):
        s = System()
        s.config = (f"f{j}", j)
        s.pos, s.vel = fl(fr["pos"]), fl(fr["vel"])
        s.box = None if fr["box"] is None else np.array([float(Fr(x)) for x in fr["box"]], dtype=float)
        s.vel_rev = bool(fr["velrev"])
        s.order = [float(Fr(x)) for x in fr["order"]]
        pth.append(s)
    pth.maxlen = case["maxlen"]
    o = base.build(opm, case["op"]) if case["op"] else None
    snap = lambda p: [(list(map(float, pp.order)), pp.vel_rev, pp.vel.tobytes(), pp.pos.tobytes(),   # noqa: E731
                       None if pp.box is None else pp.box.tobytes(), pp.config) for pp in p.phasepoints]
    keep = snap(pth)
    try:
        with np.errstate(all="ignore"), warnings.catch_warnings():
            warnings.simplefilter("ignore")
            new = pth.reverse(o, rev_v=bool(case["rev_v"]))
    except Exception as e:  # noqa: BLE001
        return err_kind(e), None, snap(pth) == keep, o
    frames = []
    for pp in new.phasepoints:
        frames.append({"velrev": bool(pp.vel_rev), "order": [float(x) for x in pp.order], "pos": _rows(pp.pos), "vel": _rows(pp.vel),
                       "box": None if pp.box is None else [Fr(float(x)) + 0 for x in pp.box]})
    return "ok", frames, snap(pth) == keep, o


def prev_line(case, vd):
    base = _base()
    op = case["op"]
    optok = "noop" if op is None else " ".join([op[0]] + [str(int(x)) for x in op[1:]]) + f" {int(vd)}"
    ml = "none" if case["maxlen"] is None else str(case["maxlen"])
    fr = " ".join(f"{base.toks(f['pos'])} {base.toks(f['vel'])} {opt_box(f['box'])} {int(f['velrev'])} "
                  f"{len(f['order'])} {' '.join(frac_token(Fr(x)) for x in f['order'])}".rstrip() for f in case["frames"])
    return f"prev asis cur {optok} {int(case['rev_v'])} {ml} {len(case['frames'])} {fr}".rstrip()


def parse_prev(ans):
    if ans.startswith("err:"):
        return ans, None
    parts = ans.split(" | ")
    frames = []
    for p in parts[1:]:
        t = p.split()
        vr = t[0] == "1"
        i = 1
        if t[i] == "NaN":
            order, i = ("NaN", []), i + 1
        else:
            kind, n = t[i], int(t[i + 1])
            order, i = (kind, [Fr(x) for x in t[i + 2: i + 2 + n]]), i + 2 + n
        npos = int(t[i]); pos = [Fr(x) for x in t[i + 1: i + 1 + npos]]; i += 1 + npos     # noqa: E702
        nvel = int(t[i]); vel = [Fr(x) for x in t[i + 1: i + 1 + nvel]]; i += 1 + nvel     # noqa: E702
        box = None if t[i] == "none" else [Fr(x) for x in t[i + 1: i + 1 + int(t[i])]]
        frames.append({"velrev": vr, "order": order, "pos": pos, "vel": vel, "box": box})
    return "ok", frames


def _same_stored(got, stored):
    """stored orders are finite rationals; what comes back must be exactly those numbers (NaN/inf: different)"""
    if len(got) != len(stored) or not all(math.isfinite(float(x)) for x in got):
        return False
    return [Fr(x) for x in got] == [Fr(x) for x in stored]


def check_prev(opm, System, case):
    """predicates on the real Path.reverse alone -> None | (sig, what)"""
    tag, frames, untouched, o = prev_real(opm, System, case)
    if not untouched:
        return ("C20:path-order", "Path.reverse changed the frames of the original path")
    if tag != "ok":
        return None      # IndexError of an out-of-range definition: judged by the model comparison
    old = case["frames"]
    n = len(old) if case["maxlen"] is None else min(len(old), case["maxlen"])
    if len(frames) != n:
        return ("C20:path-reverse:frames", f"path of {len(old)} frames (maxlen {case['maxlen']}) reversed into {len(frames)} frames")
    vd = bool(o.velocity_dependent) if o is not None else False
    for i, g in enumerate(frames):
        f = old[len(old) - 1 - i]
        if g["pos"] != [[Fr(x) for x in r] for r in f["pos"]] or g["vel"] != [[Fr(x) for x in r] for r in f["vel"]] or \
                g["box"] != (None if f["box"] is None else [Fr(x) for x in f["box"]]):
            return ("C20:path-reverse:frames", f"frame {i} of the reversed path does not carry the coordinates / velocities / box of frame {len(old) - 1 - i}")
        if g["velrev"] != (f["velrev"] != bool(case["rev_v"])):
            return ("C20:path-reverse:frames", f"frame {i}: vel_rev {f['velrev']} -> {g['velrev']} with rev_v={case['rev_v']}")
        # position-type functions (and no function at all): every stored value is kept.  (A velocity-type function with
        # rev_v=False is left to the model comparison: recomputing there would not contradict the property.)
        if not vd and not _same_stored(g["order"], f["order"]):
            return ("C20:path-order", f"frame {i}: stored order {f['order']} became {g['order']} under Path.reverse with the "
                                      f"position-type order function {case['op']} (rev_v={case['rev_v']})")
    return None


def run_prev(ctx, opm, System):
    base = _base()
    rng = ctx.rng
    cases = []
    names = ["distance", "distancevel", "position", "velocity", "dihedral", "puckering", "velocity", "distancevel"]
    for g in range(240 if ctx.quick else 2400):
        nm = names[g % len(names)]
        nat = rng.randint(6, 8)
        nfr = rng.randint(1, 6)
        op = base.rnd_op(rng, nat, nm, valid=rng.random() < (0.8 if nm in ("velocity", "distancevel") else 0.93))
        frames = []
        for _ in range(nfr):
            c = base.tie_free_case(rng, name=nm, boxform=rng.choice([["4", "0", "4"], ["0", "0", "0"]] if rng.random() < 0.08 else ["3", "9", "none"]), n=nat)
            c["op"] = op
            if base.has_tie(c):
                c["box"] = None
            frames.append({"pos": c["pos"], "vel": c["vel"], "box": c["box"], "velrev": rng.random() < 0.4,
                           "order": [base.S(Fr(rng.randint(-64, 64), 8)) for _ in range(rng.choice([1, 1, 2, 3]))]})
        ml = rng.choice([None, 100, nfr, nfr, max(0, nfr - 1), max(0, nfr - 2), 0])
        cases.append({"op": None if g % 9 == 8 else op, "rev_v": rng.random() < 0.8, "maxlen": ml, "frames": frames})
    reals = [prev_real(opm, System, c) for c in cases]
    lines = [prev_line(c, bool(r[3].velocity_dependent) if r[3] is not None else False) for c, r in zip(cases, reals)]
    out = ctx.driver(lines) if ctx._driver_ok else [None] * len(cases)
    for c, (tag, frames, untouched, o), ml in zip(cases, reals, out):
        nm = "noop" if c["op"] is None else c["op"][0]
        ctx.count(len(c["frames"]), branch=f"ext:prev:{nm}:rev_v={int(c['rev_v'])}:{tag}")
        r = check_prev(opm, System, c)
        if r:
            ctx.fail(r[0], r[1], {"kind": "ext-prev", "case": c, "extra": {}})
        if ml is None:
            continue
        mt, mframes = parse_prev(ml)
        ok = (tag == mt) if mt != "ok" else (tag == "ok" and len(frames) == len(mframes))
        if ok and mt == "ok":
            for g_, m_ in zip(frames, mframes):
                same = (g_["velrev"] == m_["velrev"] and _flat(g_["pos"]) == m_["pos"] and _flat(g_["vel"]) == m_["vel"] and g_["box"] == m_["box"])
                kind, mv = m_["order"]
                if kind == "S":
                    same = same and _same_stored(g_["order"], mv)
                elif kind == "NaN":
                    same = same and len(g_["order"]) > 0 and all(math.isnan(x) for x in g_["order"])
                else:
                    ev, kinds, skip = base.tail(c["op"][0], mv)
                    same = same and base.same_vals(g_["order"], ev, kinds, skip)
                if not same:
                    ok = False
                    break
        if not ok:
            ctx.disagree({"fn": "Path.reverse (whole)", "case": c}, {"tag": tag, "frames": str(frames)[:600]}, ml[:600])
        elif tag == "ok":
            ctx.distinct(("prev", str(c)))


# --------------------------------------------------------------------------- Galilean shift of the velocities
def check_velshift(opm, System, case, extra=None):
    """relative order parameters do not change when the same velocity is added to every atom -> None | (sig, what)"""
    base = _base()
    u = [Fr(x) for x in case["u"]]
    b = base.with_(case["case"], vel=[[base.S(Fr(r[k]) + u[k]) for k in range(3)] for r in case["case"]["vel"]])
    r = base.pred_pair(opm, System, case["case"], b)
    return r and ("C20:velocity-shift", f"{case['case']['op'][0]} changes when the velocity {case['u']} is added to every atom "
                                        f"(a relative parameter depends on velocity differences only): {r}")


def run_velshift(ctx, opm, System):
    base = _base()
    rng = ctx.rng
    for k in range(300 if ctx.quick else 3000):
        nm = ["distancevel", "distancevel", "distance", "dihedral", "puckering"][k % 5]
        c = {"case": base.tie_free_case(rng, name=nm), "u": base.rnd_vec(rng, 8)}
        ctx.count(1, branch="ext:pred:velocity-shift:" + nm)
        r = check_velshift(opm, System, c)
        if r:
            ctx.fail(r[0], r[1], {"kind": "ext-velshift", "case": c, "extra": {}})
        else:
            ctx.distinct(("velshift", str(c)))


# --------------------------------------------------------------------------- create_orderparameters (the loop over engines)
def run_create_all(ctx, opm, System):
    """create_orderparameters(engines, settings): every engine of every key gets its OWN object, equal to what
    create_orderparameter(settings) makes; the settings are not modified (tie only, no Lean counterpart)"""
    base = _base()

    class E:
        order_function = None

    for op in (["distance", 0, 1, 1], ["velocity", 2, 1], ["puckering", 5, 4, 3, 2, 1, 0, 0]):
        st = base.settings_of(op)
        keep = copy.deepcopy(st)
        engines = {"a": [E(), E()], "b": [E()], "c": []}
        try:
            opm.create_orderparameters(engines, st)
        except Exception as e:  # noqa: BLE001
            ctx.fail("C20:factory", f"create_orderparameters raised {type(e).__name__}: {e}", {"kind": "model", "case": {"op": op}, "extra": {}})
            continue
        ctx.count(3, branch="ext:create_orderparameters")
        objs = [e.order_function for k in engines for e in engines[k]]
        want = obj_str(opm.create_orderparameter(copy.deepcopy(keep)))
        if st != keep or any(o is None for o in objs) or len({id(o) for o in objs}) != len(objs) or any(obj_str(o) != want for o in objs):
            ctx.fail("C20:factory", f"create_orderparameters: engines got {[None if o is None else obj_str(o) for o in objs]}, "
                     f"one own '{want}' each expected; settings {'changed' if st != keep else 'unchanged'}",
                     {"kind": "model", "case": {"op": op}, "extra": {}})


# --------------------------------------------------------------------------- entry points
def run(ctx, opm, System):
    if ctx.extra.get("variant") == "asIs":
        ctx.disagree({"fn": "Variant.current"}, "the real Distancevel behaves like Variant.asIs (whole box handed to pbc_dist_coordinate)",
                     "Variant.current = repaired")
    run_pbc(ctx, opm, System)
    run_velshift(ctx, opm, System)
    run_pfull_lens(ctx, opm, System)
    run_ctor(ctx, opm, System)
    run_create_all(ctx, opm, System)
    run_corder(ctx, opm, System)
    run_prev(ctx, opm, System)
    new = [
        "construction (extension): index values are None / bool / int / finite float / str of ASCII letters, digits and a sign / lists and tuples "
        "of those; periodic a bool; dim an ASCII str; create_external (classes outside order_map) is outside the model",
        "calculate_order (extension): the System starts with 1-D box or None; _read_configuration returns float arrays or None per block",
        "Path.reverse (extension): frames carry (N,3) arrays and a 1-D box or None (frames loaded from disk with empty arrays are outside the model); "
        "stored orders are opaque numbers to the model and compared exactly; recomputed ones through the tails",
    ]
    ctx.assumptions += [a for a in new if a not in ctx.assumptions]


KINDS = {"ext-pbc": check_pbc, "ext-ctor": check_ctor, "ext-corder": check_corder, "ext-corder-box": check_corder_box,
         "ext-prev": check_prev, "ext-velshift": check_velshift}
