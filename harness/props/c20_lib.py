"""C20, follow-up pass: the states the LIBRARY really makes (Model/GeomFrames.lean) and the boxes its engines produce.

  libfr   frames made by the REAL `EngineBase.snapshot_to_system` (pos = vel = None), by the real `load_path`
          (bare System(): zeros(0) arrays, 3x3 zero box) and hand-built ones, mixed in one Path; the real
          `Path.reverse(order_function, rev_v)`                       vs  Geom.pathReverseL            (driver `prevl`)
          + one real TurtleMD propagate per velocity-/position-type class (frames straight out of an engine)
  calcb   calculate on None arrays / empty arrays / a 3x3 box (System() default, read_cp2k_box without CELL)
                                                                      vs  Geom.calcFrame / valueB      (driver `calcb`)
  effects which System fields (identity or content) `calculate` changes   vs  Geom.effects            (driver `effects`)
  basekeys create_orderparameter with the keys `velocity` / `description` vs  Geom.createOrderParameterX (`createx`)
  prod    PRODUCER AGREEMENT (tie only): one orthogonal cell (lower bounds != 0, several frames per file, 2- and 3-column
          BOX BOUNDS, boxes that change from frame to frame) through every route by which an engine obtains the box it
          hands to calculate_order: read_lammpstrj + shift_boxbounds; ReadAndProcessOnTheFly(lammpstrj_reader) with all
          frames arriving in ONE read + shift_boxbounds per frame (the statements of LAMMPSEngine._propagate_from);
          box_matrix_to_list(full=True/False); read_cp2k_box (ABC / A,B,C vectors); ASE cell.diagonal(); turtlemd
          Box.length.  Predicates on the real code: every producer returns box[:3] == the cell lengths of THAT frame,
          all periodic order parameters agree across producers (and with the model on the true cell), and do not change
          when atoms are moved by box vectors in the dump.

Findings: `Path.reverse` with a velocity-dependent order function raises on every path made of library frames
(signature SIG_LIB).  Until known_findings.json lists it, it is recorded as a pending finding (evidence
`pending_findings`), not printed; once listed (state open) it is reported through ctx.fail like every known finding.
"""
from __future__ import annotations

import contextlib
import copy
import io
import math
import os
import shutil
import tempfile
import warnings
from fractions import Fraction as Fr

import numpy as np

from common import err_kind, frac_token

SIG_LIB = "C20:path-reverse:raises-on-library-frames"
LIB_WHAT = ("Path.reverse(order_function) with a velocity-dependent built-in order function (Velocity, Distancevel) RAISES on every "
            "path the library itself makes: EngineBase.snapshot_to_system gives every engine-made frame pos = vel = None "
            "(no engine puts 'pos'/'vel' into its snapshot dict) -> TypeError 'NoneType' object is not subscriptable; "
            "load_path gives every loaded frame the empty arrays of a bare System() -> IndexError.  The only production "
            "call with an order function, tis.subt_acceptance (tis.py:606, wire fencing), therefore cannot succeed for "
            "Velocity/Distancevel whenever the trial path has to be reversed; position-type functions never recompute and "
            "reverse fine")
PENDING_FINDINGS = {SIG_LIB}

ERRMAP = {"err:type": "err:TypeError", "err:value": "err:ValueError", "err:index": "err:index"}


def _base():
    from props import c20
    return c20


def pending_or_fail(ctx, sig, what, rep):
    if sig in PENDING_FINDINGS and ctx._known(sig) is None:
        ctx.hit("pending:" + sig)
        pf = ctx.extra.setdefault("pending_findings", {})
        if sig not in pf:
            pf[sig] = {"what": what, "inputs_this_run": 0, "smallest": rep}
        pf[sig]["inputs_this_run"] += 1
    else:
        ctx.fail(sig, what, rep)


# --------------------------------------------------------------------------- encodings of real objects
def arr_tok(pos, vel):
    """the frame's arrays as the driver's <arrays>: None -> N; ndarray (0,) or (n,3) -> A <pos> <vel>"""
    if pos is None and vel is None:
        return "N"
    if pos is None or vel is None:
        raise ValueError("one of pos/vel is None, the other is not: outside the model")

    def rows(a):
        a = np.asarray(a, dtype=float)
        if a.size == 0:
            return "0"
        a = a.reshape(-1, 3)
        flat = [frac_token(Fr(float(x)) + 0) for r in a for x in r]
        return " ".join([str(len(flat))] + flat)
    return f"A {rows(pos)} {rows(vel)}"


def box_tok(box):
    if box is None:
        return "none"
    b = np.asarray(box, dtype=float)
    if b.ndim == 1:
        return " ".join(["flat", str(len(b))] + [frac_token(Fr(float(x)) + 0) for x in b])
    if b.shape == (3, 3):
        return " ".join(["mat"] + [frac_token(Fr(float(x)) + 0) for x in b.reshape(-1)])
    raise ValueError(f"box of shape {b.shape}: outside the model")


def op_tok(op):
    return " ".join([op[0]] + [str(int(x)) for x in op[1:]])


def parse_valx(ans):
    p = ans.split()
    if p[0] == "ok":
        return "ok", [Fr(x) for x in p[2:]]
    return p[0], []


def real_calc(o, s):
    try:
        with np.errstate(all="ignore"), warnings.catch_warnings():
            warnings.simplefilter("ignore")
            return "ok", [float(x) for x in o.calculate(s)]
    except Exception as e:  # noqa: BLE001
        k = err_kind(e)
        return ERRMAP.get(k, k), []


def agrees(base, name, tag, vals, mt, mv):
    if mt == "nan":
        return tag == "ok" and len(vals) > 0 and all(math.isnan(v) for v in vals)
    if mt != "ok":
        return tag == mt
    if tag != "ok":
        return False
    ev, kinds, skip = base.tail(name, mv)
    return base.same_vals(vals, ev, kinds, skip)


# --------------------------------------------------------------------------- library frames + Path.reverse
def build_lib_path(opm, System, case, workdir):
    """-> (Path, order function or None) made the way the library makes it.
    frames: {"pos","vel","box","velrev","kind"} with kind 'snap' (EngineBase.snapshot_to_system after a real
    calculate_order on the engine's working System), 'load' (the same path stored with PathStorage.output_path_files
    and read back with load_path: that frame is taken from the loaded path), 'hand' (a System that keeps its arrays)."""
    from infretis.classes.engines.enginebase import EngineBase
    from infretis.classes.formatter import PathStorage
    from infretis.classes.path import Path, load_path
    base = _base()
    mkop = case["mkop"]                     # the order function the ENGINE uses to make the orders
    table = {}
    eng = base.make_engine(base.build(opm, mkop), table)
    work = System()                         # one working System per propagation, as in every _propagate_from
    work.config = ("start.xyz", 0)
    work.box = None                         # (the 3x3 default of System() is exercised by the loaded frames and by calcb)
    snaps, hands = [], []
    problems = case.setdefault("_problems", []) if isinstance(case, dict) else []
    del problems[:]
    for j, fr in enumerate(case["frames"]):
        xyz, vel = base.fl(fr["pos"]), base.fl(fr["vel"])
        box = None if fr["box"] is None else np.array([float(Fr(x)) for x in fr["box"]], dtype=float)
        with np.errstate(all="ignore"), warnings.catch_warnings():
            warnings.simplefilter("ignore")
            table["start.xyz"] = (xyz, vel, box)      # a configuration without a box goes through the file route
            order = eng.calculate_order(work, xyz=xyz, vel=vel, box=box)
        # stored orders are opaque numbers for Path.reverse: degenerate geometries (nan/inf) are stored as 1/4
        order = [float(x) if math.isfinite(float(x)) else 0.25 for x in order]
        snapshot = {"order": order, "config": (os.path.join(workdir, "traj.xyz"), j), "vel_rev": bool(fr["velrev"])}
        snaps.append(EngineBase.snapshot_to_system(work, snapshot))
        prob = snapshot_problem(snaps[-1], work, snapshot)
        if prob:
            problems.append(f"frame {j}: {prob}")
        h = work.copy()                     # a frame that keeps the arrays (nothing in the library makes one)
        h.order, h.config, h.vel_rev = list(order), snapshot["config"], bool(fr["velrev"])
        hands.append(h)
    loaded = None
    if any(fr["kind"] == "load" for fr in case["frames"]):
        tmp = Path(maxlen=10 ** 6)
        for pp in snaps:
            tmp.append(pp)
        pdir = os.path.join(workdir, "stored")
        os.makedirs(os.path.join(pdir, "accepted"), exist_ok=True)
        with open(os.path.join(pdir, "accepted", "traj.xyz"), "w") as fh:
            fh.write("placeholder\n")
        PathStorage().output_path_files(0, (tmp, "ACC"), pdir)
        loaded = load_path(pdir).phasepoints
    pth = Path(maxlen=10 ** 6)
    for j, fr in enumerate(case["frames"]):
        pth.append({"snap": snaps, "hand": hands, "load": loaded}[fr["kind"]][j])
    pth.maxlen = case["maxlen"]
    o = base.build(opm, case["op"]) if case["op"] else None
    return pth, o


def snapshot_problem(pp, work, snapshot):
    """what a frame made by snapshot_to_system must carry (= Geom.snapshotToSystem): the order and flag of the snapshot, the
    configuration reference, the working System's box; it is a new object and the working System is left alone"""
    if pp is work:
        return "snapshot_to_system returned the working System itself"
    if [float(x) for x in pp.order] != [float(x) for x in snapshot["order"]]:
        return f"order {pp.order} instead of the snapshot's {snapshot['order']}"
    if bool(pp.vel_rev) != bool(snapshot["vel_rev"]):
        return f"vel_rev {pp.vel_rev} instead of the snapshot's {snapshot['vel_rev']}"
    if tuple(pp.config) != tuple(snapshot["config"]):
        return f"config {pp.config} instead of {snapshot['config']}"
    wb, fb = work.box, pp.box
    if (wb is None) != (fb is None) or (wb is not None and np.asarray(wb).tobytes() != np.asarray(fb).tobytes()):
        return f"box {fb} instead of the engine's working box {wb}"
    return None


def snap_path(p):
    out = []
    for pp in p.phasepoints:
        out.append(([float(x) for x in pp.order], bool(pp.vel_rev),
                    None if pp.pos is None else np.asarray(pp.pos).tobytes(), None if pp.vel is None else np.asarray(pp.vel).tobytes(),
                    None if pp.box is None else np.asarray(pp.box).tobytes(), pp.config))
    return out


def lib_reverse(pth, o, rev_v):
    keep = snap_path(pth)
    try:
        with np.errstate(all="ignore"), warnings.catch_warnings():
            warnings.simplefilter("ignore")
            new = pth.reverse(o, rev_v=bool(rev_v))
    except Exception as e:  # noqa: BLE001
        k = err_kind(e)
        return ERRMAP.get(k, k), None, snap_path(pth) == keep
    return "ok", [(bool(pp.vel_rev), [float(x) for x in pp.order]) for pp in new.phasepoints], snap_path(pth) == keep


def prevl_line(pth, case, vd):
    op = case["op"]
    optok = "noop" if op is None else op_tok(op) + f" {int(vd)}"
    ml = "none" if case["maxlen"] is None else str(case["maxlen"])
    frs = []
    for pp in pth.phasepoints:
        order = [frac_token(Fr(float(x)) + 0) for x in pp.order]
        frs.append(f"{arr_tok(pp.pos, pp.vel)} {box_tok(pp.box)} {int(bool(pp.vel_rev))} {len(order)} {' '.join(order)}".rstrip())
    return f"prevl cur {optok} {int(case['rev_v'])} {ml} {len(frs)} {' '.join(frs)}".rstrip()


def parse_prevl(ans):
    if not ans.startswith("ok"):
        return ans, None
    frames = []
    for p in ans.split(" | ")[1:]:
        t = p.split()
        vr = t[0] == "1"
        if t[1] == "NaN":
            frames.append((vr, ("NaN", [])))
        else:
            n = int(t[2])
            frames.append((vr, (t[1], [Fr(x) for x in t[3:3 + n]])))
    return "ok", frames


def lib_predicates(case, pth, o, tag, frames, untouched):
    """what the property side expects of Path.reverse on library frames, judged on the real outcome alone"""
    if case.get("_problems"):
        return ("C20:snapshot:frame-fields", "EngineBase.snapshot_to_system: " + "; ".join(case["_problems"][:3]))
    if not untouched:
        return ("C20:path-order", "Path.reverse changed the frames of the original path")
    old = pth.phasepoints
    n = len(old) if case["maxlen"] is None else min(len(old), case["maxlen"])
    vd = bool(o.velocity_dependent) if o is not None else False
    kinds = [f["kind"] for f in case["frames"]]
    if tag != "ok":
        if vd and case["rev_v"] and n > 0 and "hand" not in kinds:
            first = kinds[-1]
            return (SIG_LIB, LIB_WHAT + f" [instance: {case['op']} on a path of {len(old)} frames ({'/'.join(kinds)}): {tag}; "
                                       f"first frame evaluated is {first}-made]")
        if vd and case["rev_v"] and n > 0:
            return None       # a path with hand-built frames in it: judged by the model comparison only
        return ("C20:path-reverse:frames", f"Path.reverse raised {tag} although nothing has to be recomputed "
                                           f"(op {case['op']}, rev_v={case['rev_v']})")
    if len(frames) != n:
        return ("C20:path-reverse:frames", f"path of {len(old)} frames (maxlen {case['maxlen']}) reversed into {len(frames)} frames")
    recompute = vd and case["rev_v"]
    for i, (vr, order) in enumerate(frames):
        f = old[len(old) - 1 - i]
        if vr != (bool(f.vel_rev) != bool(case["rev_v"])):
            return ("C20:path-reverse:frames", f"frame {i}: vel_rev {f.vel_rev} -> {vr} with rev_v={case['rev_v']}")
        if not recompute and (not all(math.isfinite(x) for x in order) or [Fr(x) for x in order] != [Fr(float(x)) for x in f.order]):
            return ("C20:path-order", f"frame {i}: stored order {list(f.order)} became {order} although nothing is recomputed")
    return None


def check_libframes(opm, System, case, extra=None):
    """replay: one library-frame path through the real Path.reverse + the predicates"""
    wd = tempfile.mkdtemp(prefix="c20lib-")
    try:
        pth, o = build_lib_path(opm, System, case, wd)
        tag, frames, untouched = lib_reverse(pth, o, case["rev_v"])
        return lib_predicates(case, pth, o, tag, frames, untouched)
    finally:
        shutil.rmtree(wd, ignore_errors=True)


def run_libframes(ctx, opm, System):
    base = _base()
    rng = ctx.rng
    cases = []
    names = ["velocity", "distancevel", "distance", "dihedral", "puckering", "position", "velocity", "distancevel"]
    patterns = [lambda n: ["snap"] * n, lambda n: ["load"] * n, lambda n: ["load"] * (n // 2) + ["snap"] * (n - n // 2),
                lambda n: ["snap"] * (n - 1) + ["hand"], lambda n: ["hand"] + ["snap"] * (n - 1),
                lambda n: ["snap"] * (n - n // 2) + ["load"] * (n // 2), lambda n: ["hand"] * n]
    for g in range(160 if ctx.quick else 1600):
        nm = names[g % len(names)]
        nat = rng.randint(6, 8)
        nfr = rng.randint(1, 5)
        op = base.rnd_op(rng, nat, nm, valid=True)
        kinds = patterns[g % len(patterns)](nfr)
        frames = []
        for j in range(nfr):
            c = base.tie_free_case(rng, name=nm, boxform=rng.choice(["3", "9", "none"]), n=nat)
            c["op"] = op
            if base.has_tie(c):
                c["box"] = None
            frames.append({"pos": c["pos"], "vel": c["vel"], "box": c["box"], "velrev": rng.random() < 0.4, "kind": kinds[j]})
        use = None if g % 10 == 9 else op
        cases.append({"op": use, "mkop": op, "rev_v": rng.random() < 0.85, "maxlen": rng.choice([None, 100, nfr, max(0, nfr - 1), 0, 100]),
                      "frames": frames})
    wd = tempfile.mkdtemp(prefix="c20lib-")
    try:
        built = []
        for k, c in enumerate(cases):
            d = os.path.join(wd, str(k))
            os.makedirs(d)
            built.append(build_lib_path(opm, System, c, d))
        lines = [prevl_line(p, c, bool(o.velocity_dependent) if o is not None else False) for c, (p, o) in zip(cases, built)]
        out = ctx.driver(lines) if ctx._driver_ok else [None] * len(cases)
        for c, (pth, o), ml in zip(cases, built, out):
            tag, frames, untouched = lib_reverse(pth, o, c["rev_v"])
            nm = "noop" if c["op"] is None else c["op"][0]
            kinds = "".join(f["kind"][0] for f in c["frames"])
            mix = "snap" if set(kinds) == {"s"} else "load" if set(kinds) == {"l"} else "hand" if set(kinds) == {"h"} else "mixed"
            ctx.count(len(c["frames"]), branch=f"lib:prevl:{nm}:{mix}:rev_v={int(c['rev_v'])}:{tag}")
            r = lib_predicates(c, pth, o, tag, frames, untouched)
            if r:
                pending_or_fail(ctx, r[0], r[1], {"kind": "lib-frames", "case": {k: v for k, v in c.items() if k != "_problems"}, "extra": {}})
            if ml is None:
                continue
            mt, mframes = parse_prevl(ml)
            ok = (tag == mt) if mt != "ok" else (tag == "ok" and len(frames) == len(mframes))
            if ok and mt == "ok":
                for (vr, order), (mvr, (kind, mv)) in zip(frames, mframes):
                    same = vr == mvr
                    if kind == "S":
                        same = same and all(math.isfinite(x) for x in order) and [Fr(x) for x in order] == mv
                    elif kind == "NaN":
                        same = same and len(order) > 0 and all(math.isnan(x) for x in order)
                    else:
                        ev, kk, sk = base.tail(c["op"][0], mv)
                        same = same and base.same_vals(order, ev, kk, sk)
                    if not same:
                        ok = False
                        break
            if not ok:
                ctx.disagree({"fn": "Path.reverse on library frames", "case": c}, {"tag": tag, "frames": str(frames)[:500]}, ml[:500])
            else:
                ctx.distinct(("libfr", str({k: v for k, v in c.items() if k != "_problems"})))
    finally:
        shutil.rmtree(wd, ignore_errors=True)


def turtle_engine():
    from turtlemd.integrators import VelocityVerlet
    from infretis.classes.engines.turtlemdengine import TurtleMDEngine

    class SeedlessVV(VelocityVerlet):
        def __init__(self, timestep, seed=None):
            super().__init__(timestep)

    with contextlib.redirect_stdout(io.StringIO()):
        eng = TurtleMDEngine(
            timestep=0.5, subcycles=1, temperature=300, boltzmann=1.0,
            integrator={"class": "VelocityVerlet", "settings": {}},
            potential={"class": "LennardJones", "settings": {"parameters": {"1": {"sigma": 1.0, "epsilon": 0.0, "rcut": 0.5}}}},
            particles={"mass": [1.0, 1.0], "name": ["H", "H"], "pos": [[0, 0, 0], [1.0, 0, 0]]},
            box={"periodic": [True, True, True], "low": [0, 0, 0], "high": [16.0, 16.0, 16.0]})
    eng.integrator = SeedlessVV
    eng.integrator_settings = {}
    eng.rgen = np.random.default_rng(0)
    return eng


def check_turtle(opm, System, case, extra=None, want_path=False):
    """a REAL engine: TurtleMDEngine.propagate (free flight, 2 atoms) makes the path, then Path.reverse(engine.order_function)"""
    from infretis.classes.path import Path
    base = _base()
    wd = tempfile.mkdtemp(prefix="c20turtle-")
    try:
        eng = turtle_engine()
        o = base.build(opm, case["op"])
        eng.order_function = o
        eng.exe_dir = wd
        init = os.path.join(wd, "start.xyz")
        with open(init, "w") as fh:
            fh.write("2\n# Box:   16.0000   16.0000   16.0000\nH 0.0 0.0 0.0 0.0 0.0 0.0\nH 1.0 0.0 0.0 0.5 0.0 0.0\n")
        s = System()
        s.set_pos((init, 0))
        s.vel_rev = False
        pth = Path(maxlen=case["nframes"])
        with contextlib.redirect_stdout(io.StringIO()):
            eng.propagate(pth, {"interfaces": [-100.0, 0.0, 100.0], "ens_name": "000"}, s, reverse=False)
        c = {"op": case["op"], "rev_v": True, "maxlen": case["nframes"], "frames": [{"kind": "snap"}] * pth.length}
        tag, frames, untouched = lib_reverse(pth, o, True)
        r = lib_predicates(c, pth, o, tag, frames, untouched)
        if want_path:
            return r, pth, c, tag, frames
        return r
    finally:
        shutil.rmtree(wd, ignore_errors=True)

ASE_CALC = '''
import numpy as np
from ase.calculators.calculator import Calculator, all_changes


class Free(Calculator):
    """no forces: free flight"""
    implemented_properties = ["energy", "forces"]

    def calculate(self, atoms=None, properties=("energy",), system_changes=all_changes):
        super().calculate(atoms, properties, system_changes)
        self.results = {"energy": 0.0, "forces": np.zeros((len(atoms), 3))}
'''


def check_ase(opm, System, case, extra=None, want_path=False):
    """a second REAL engine: ASEEngine.propagate (free flight, 2 atoms in a 16-box), then Path.reverse(engine.order_function)"""
    import ase
    from infretis.classes.engines.ase_engine import ASEEngine
    from infretis.classes.path import Path
    base = _base()
    wd = tempfile.mkdtemp(prefix="c20ase-")
    try:
        mod = os.path.join(wd, "free_calc.py")
        with open(mod, "w") as fh:
            fh.write(ASE_CALC)
        with contextlib.redirect_stdout(io.StringIO()):
            eng = ASEEngine(1.0, 300, 1, wd, "velocityverlet", {"module": mod, "class": "Free"}, exe_path=wd)
        o = base.build(opm, case["op"])
        eng.order_function = o
        eng.exe_dir = wd
        at = ase.atoms.Atoms("H2", cell=[16.0, 16.0, 16.0], pbc=True)
        at.set_masses([1.0, 1.0])
        at.set_positions(np.array([[0.0, 0.0, 0.0], [1.0, 0.0, 0.0]]))
        at.set_velocities(np.array([[0.0, 0.0, 0.0], [0.5, 0.0, 0.0]]))
        init = os.path.join(wd, "start.traj")
        at.write(init)
        s = System()
        s.set_pos((init, 0))
        s.vel_rev = False
        pth = Path(maxlen=case["nframes"])
        with contextlib.redirect_stdout(io.StringIO()), warnings.catch_warnings():
            warnings.simplefilter("ignore")
            eng.propagate(pth, {"interfaces": [-100.0, 0.0, 100.0], "ens_name": "000"}, s, reverse=False)
        c = {"op": case["op"], "rev_v": True, "maxlen": case["nframes"], "frames": [{"kind": "snap"}] * pth.length}
        tag, frames, untouched = lib_reverse(pth, o, True)
        r = lib_predicates(c, pth, o, tag, frames, untouched)
        if want_path:
            return r, pth, c, tag, frames
        return r
    finally:
        shutil.rmtree(wd, ignore_errors=True)


def run_turtle(ctx, opm, System):
    base = _base()
    runs = [("turtle", check_turtle, op) for op in (["velocity", 1, 0], ["distancevel", 0, 1, 1], ["distance", 0, 1, 1], ["position", 1, 0])]
    runs += [("ase", check_ase, op) for op in (["velocity", 1, 0], ["distancevel", 0, 1, 1], ["distance", 0, 1, 1])]
    for engname, fn, op in runs:
        case = {"op": op, "nframes": 5}
        r, pth, c, tag, frames = fn(opm, System, case, want_path=True)
        ctx.count(pth.length, branch=f"lib:{engname}-propagate:{op[0]}:{tag}")
        arrays = {(type(pp.pos).__name__, type(pp.vel).__name__) for pp in pth.phasepoints}
        ctx.extra.setdefault("engine_made_frame_arrays", {})[f"{engname}:{op[0]}"] = sorted(map(str, arrays))
        if pth.length < 2:
            ctx.disagree({"fn": f"{engname} propagate (harness expectation)", "case": case}, f"{pth.length} frames", "at least 2 frames")
        if r:
            pending_or_fail(ctx, r[0], r[1], {"kind": f"lib-{engname}", "case": case, "extra": {}})
        if ctx._driver_ok:
            ml = ctx.driver([prevl_line(pth, c, bool(base.build(opm, op).velocity_dependent))])[0]
            mt, mframes = parse_prevl(ml)
            ok = tag == mt and (mt != "ok" or [(vr, [Fr(x) for x in od]) for vr, od in frames] == [(vr, mv) for vr, (_, mv) in mframes])
            if not ok:
                ctx.disagree({"fn": f"Path.reverse on a {engname}-made path", "case": case}, {"tag": tag, "frames": str(frames)[:300]}, ml[:300])


# --------------------------------------------------------------------------- calculate on None / empty arrays / 3x3 boxes
def calcb_real(opm, System, case):
    base = _base()
    s = System()
    s.config = ("frame.xyz", 0)
    if case["arrays"] == "none":
        s.pos = s.vel = None
    elif case["arrays"] == "empty":
        s.pos, s.vel = np.zeros(0), np.zeros(0)
    else:
        s.pos, s.vel = base.fl(case["pos"]), base.fl(case["vel"])
    b = case["box"]
    s.box = None if b is None else np.array([float(Fr(x)) for x in b], dtype=float).reshape((3, 3) if case.get("mat") else (-1,))
    try:
        o = base.build(opm, case["op"])
    except Exception as e:  # noqa: BLE001
        return "ctor:" + err_kind(e), [], s
    tag, vals = real_calc(o, s)
    return tag, vals, s


def run_calcb(ctx, opm, System):
    base = _base()
    rng = ctx.rng
    cases = []
    mats = [["4", "0", "0", "0", "4", "0", "0", "0", "4"], ["0"] * 9, ["100", "0", "0", "0", "100", "0", "0", "0", "100"],
            ["4", "1", "0", "0", "8", "1/2", "2", "0", "4"]]
    for g in range(240 if ctx.quick else 2400):
        c = base.rnd_case(rng, boxform="3", valid=rng.random() < 0.8, lengths=base.POW2 + [Fr(4), Fr(8)])
        kind = g % 6
        c["arrays"] = "none" if kind == 0 else "empty" if kind == 1 else "full"
        if kind >= 2:
            c["box"], c["mat"] = list(rng.choice(mats)), True
            if kind == 5 and len(c["vel"]) > 1:
                c["vel"] = c["vel"][: rng.randint(0, len(c["vel"]) - 1)]      # fewer velocity rows: ValueError comes before vel is read
        cases.append(c)
    lines = []
    for c in cases:
        if c["arrays"] == "none":
            arr = "N"
        elif c["arrays"] == "empty":
            arr = "A 0 0"
        else:
            arr = f"A {base.toks(c['pos'])} {base.toks(c['vel'])}"
        bx = "none" if c["box"] is None else (" ".join(["mat"] + [frac_token(Fr(x)) for x in c["box"]]) if c.get("mat")
                                              else " ".join(["flat", str(len(c["box"]))] + [frac_token(Fr(x)) for x in c["box"]]))
        lines.append(f"calcb cur {op_tok(c['op'])} {arr} {bx}")
    out = ctx.driver(lines) if ctx._driver_ok else [None] * len(cases)
    for c, ml in zip(cases, out):
        tag, vals, _ = calcb_real(opm, System, c)
        ctx.count(1, branch=f"lib:calcb:{c['arrays']}{':mat' if c.get('mat') else ''}:{c['op'][0]}:{tag}")
        if ml is None:
            continue
        mt, mv = parse_valx(ml)
        if not agrees(base, c["op"][0], tag, vals, mt, mv):
            ctx.disagree({"fn": "calculate on None/empty arrays or a 3x3 box", "case": c}, [tag] + vals, ml)
        else:
            ctx.distinct(("calcb", str(c)))


# --------------------------------------------------------------------------- effects: which System fields change
def run_effects(ctx, opm, System):
    """per class and periodic flag: the set of System attributes whose identity or content differs after calculate()
    must be the set the model's `effects` changes (empty).  Contiguous and scattered indices, 3- and 9-boxes."""
    base = _base()
    rng = ctx.rng
    cases = []
    for nm in ("distance", "distancevel", "position", "velocity", "dihedral", "puckering"):
        for per in ((0, 1) if nm in base.NIDX else (None,)):
            for form in ("3", "9", "none"):
                for contiguous in (True, False):
                    n = rng.randint(6, 9)
                    c = base.tie_free_case(rng, name=nm, periodic=bool(per) if per is not None else None, boxform=form, n=n)
                    if nm in base.NIDX and contiguous:
                        k = base.NIDX[nm]
                        c["op"] = [nm] + list(range(k)) + [per]
                    cases.append(c)
    out = ctx.driver([base.line(c, "cur").replace("calc ", "effects ", 1) for c in cases]) if ctx._driver_ok else [None] * len(cases)
    for c, ml in zip(cases, out):
        s = base.mk_sys(System, c)
        before = base.snapshot(s)
        o = base.build(opm, c["op"])
        real_calc(o, s)
        after = base.snapshot(s)
        changed = sorted(k for k in set(before) | set(after) if before.get(k) != after.get(k))
        ctx.count(1, branch=f"lib:effects:{c['op'][0]}")
        if changed:
            ctx.fail("C20:purity", f"{c['op'][0]}.calculate changed System attributes {changed}", {"kind": "purity", "case": c, "extra": {}})
        if ml is not None:
            model = sorted(k for k, v in (t.split("=") for t in ml.split()) if v == "1")
            if model != [k for k in changed if k in ("pos", "vel", "box")] or any(k not in ("pos", "vel", "box") for k in changed):
                ctx.disagree({"fn": "System fields changed by calculate (Geom.effects)", "case": c}, changed, ml)
            else:
                ctx.distinct(("effects", str(c)))


# --------------------------------------------------------------------------- base-class keys
def run_basekeys(ctx, opm, System):
    from props import c20_ext
    lines, metas = [], []
    idxs = {"distance": [0, 1], "Distancevel": (1, 0), "Position": [0, 1], "velocity": 0, "Dihedral": [0, 1, 2, 3],
            "PUCKERING": [0, 1, 2, 3, 4, 5], "OrderParameter": c20_ext.ABSENT, "orderparameter": [0, 1], "ORDERPARAMETER": c20_ext.ABSENT,
            "Foo": [0, 1]}
    for cls, idx in idxs.items():
        for vel in (c20_ext.ABSENT, True, False):
            for desc in (c20_ext.ABSENT, "my order parameter"):
                per = False if cls == "Position" else c20_ext.ABSENT
                st = c20_ext.settings_for(cls, idx, per, c20_ext.ABSENT)
                if vel is not c20_ext.ABSENT:
                    st["orderparameter"]["velocity"] = vel
                if desc is not c20_ext.ABSENT:
                    st["orderparameter"]["description"] = desc
                itok = "absent" if idx is c20_ext.ABSENT else c20_ext.idx_tok(idx)
                ptok = "absent" if per is c20_ext.ABSENT else str(int(per))
                vtok = "absent" if vel is c20_ext.ABSENT else str(int(vel))
                lines.append(f"createx {c20_ext.xhex(cls)} {itok} {ptok} absent {vtok}")
                metas.append((cls, st, vel, desc))
    out = ctx.driver(lines) if ctx._driver_ok else [None] * len(lines)
    for (cls, st, vel, desc), ml in zip(metas, out):
        keep = copy.deepcopy(st)
        try:
            o = opm.create_orderparameter(st)
            if type(o) is opm.OrderParameter:
                rs = f"base vd={int(bool(o.velocity_dependent))}"
                if desc is not c20_ext.ABSENT and o.description != desc:
                    ctx.fail("C20:factory", f"base class: description key {desc!r} not used ({o.description!r})",
                             {"kind": "model", "case": {"op": ["base"]}, "extra": {}})
            elif type(o).__module__ == opm.__name__:
                rs = c20_ext.obj_str(o)
            else:
                rs = "external"
        except Exception as e:  # noqa: BLE001
            o, rs = None, c20_ext.ERRNAME.get(type(e).__name__, "err:other:" + type(e).__name__)
        ctx.count(1, branch=f"lib:basekeys:{cls.lower()}:{rs.split()[0]}")
        if st != keep:
            ctx.fail("C20:factory", f"create_orderparameter modified its settings: {keep} -> {st}", {"kind": "model", "case": {"op": ["base"]}, "extra": {}})
        # property side, on the real code alone: a base-class object made with velocity=True must be flagged (Path.reverse and
        # the engines decide on that flag whether orders have to be recomputed); the six classes must not choke on the keys
        if o is not None and type(o) is opm.OrderParameter and vel is not c20_ext.ABSENT and bool(o.velocity_dependent) != bool(vel):
            ctx.fail("C20:ctor:velocity-flag", f"OrderParameter made through create_orderparameter with velocity={vel!r} has "
                     f"velocity_dependent={o.velocity_dependent}", {"kind": "lib-basekeys", "case": {"cls": cls, "settings": keep["orderparameter"]}, "extra": {}})
        if o is None and cls.lower() in ("distance", "distancevel", "position", "velocity", "dihedral", "puckering", "orderparameter"):
            ctx.fail("C20:factory", f"create_orderparameter({keep['orderparameter']}) raised {rs}: keys the class does not take must be ignored",
                     {"kind": "lib-basekeys", "case": {"cls": cls, "settings": keep["orderparameter"]}, "extra": {}})
        # the flag of the six classes is the class's, whatever the key says
        if o is not None and type(o) is not opm.OrderParameter and type(o).__module__ == opm.__name__:
            want = type(o).__name__ in ("Distancevel", "Velocity")
            if bool(o.velocity_dependent) != want:
                ctx.fail("C20:ctor:velocity-flag", f"{type(o).__name__} made with velocity={vel!r} has velocity_dependent={o.velocity_dependent}",
                         {"kind": "model", "case": {"op": ["base"]}, "extra": {}})
        if ml is not None:
            if ml == "external":
                if o is not None and type(o).__module__ == opm.__name__:
                    ctx.disagree({"fn": "create_orderparameter (base keys, class lookup)", "cls": cls}, rs, ml)
            elif ml != rs:
                ctx.disagree({"fn": "create_orderparameter with velocity/description keys", "cls": cls, "velocity": str(vel)}, rs, ml)
            else:
                ctx.distinct(("basekeys", cls, str(vel), str(desc)))


# --------------------------------------------------------------------------- producer agreement
LOWS = [Fr(0), Fr(2), Fr(1), Fr(3), Fr(-6), Fr(-13, 4), Fr(3, 2), Fr(-20), Fr(5), Fr(1, 2), Fr(-19), Fr(-18)]
CELLS = [Fr(4), Fr(8), Fr(16), Fr(10), Fr(12), Fr(25, 2), Fr(21, 4), Fr(6), Fr(2)]


def fmt(x):
    return repr(float(x))


def dump_text(frames, cols3, ids):
    """a LAMMPS dump: frames = [{"lo","L","pos","vel"}], BOX BOUNDS with 2 or 3 columns (tilt 0), atoms in the order `ids`"""
    s = ""
    for t, fr in enumerate(frames):
        n = len(fr["pos"])
        s += f"ITEM: TIMESTEP\n{t * 10}\nITEM: NUMBER OF ATOMS\n{n}\n"
        s += "ITEM: BOX BOUNDS xy xz yz pp pp pp\n" if cols3 else "ITEM: BOX BOUNDS pp pp pp\n"
        for k in range(3):
            lo, hi = Fr(fr["lo"][k]), Fr(fr["lo"][k]) + Fr(fr["L"][k])
            s += f"{fmt(lo)} {fmt(hi)}" + (" 0.0\n" if cols3 else "\n")
        s += "ITEM: ATOMS id type x y z vx vy vz id\n"
        for i in ids[t]:
            p, v = fr["pos"][i], fr["vel"][i]
            s += f"{i + 1} 1 {fmt(Fr(p[0]))} {fmt(Fr(p[1]))} {fmt(Fr(p[2]))} {fmt(Fr(v[0]))} {fmt(Fr(v[1]))} {fmt(Fr(v[2]))} {i + 1}\n"
    return s


def producers(case, wd):
    """-> {name: [per frame (pos, vel, box)]} from the REAL producers, and a list of errors"""
    from infretis.classes.engines import lammps as lm
    from infretis.classes.engines.cp2k import read_cp2k_box
    from infretis.classes.engines.engineparts import ReadAndProcessOnTheFly, box_matrix_to_list, lammpstrj_reader
    base = _base()
    frames = case["frames"]
    n = len(frames[0]["pos"])
    out = {}
    fn = os.path.join(wd, "traj.lammpstrj")
    with open(fn, "w") as fh:
        fh.write(dump_text(frames, case["cols3"], case["ids"]))
    # 1. read one frame back: read_lammpstrj + shift_boxbounds (= LAMMPSEngine._read_configuration per frame)
    res = []
    for j in range(len(frames)):
        _, pos, vel, box = lm.read_lammpstrj(fn, j, n)
        pos, box = lm.shift_boxbounds(pos, box)
        res.append((pos, vel, box))
    out["lmp-read"] = res
    # 2. the on-the-fly reader, every frame arriving in ONE read; then the statements of LAMMPSEngine._propagate_from
    reader = ReadAndProcessOnTheFly(fn, lammpstrj_reader)
    trajectory, box_trajectory = [], []
    fr_ = reader.read_and_process_content()
    trajectory += fr_[0]
    box_trajectory += fr_[1]
    res = []
    for _ in range(len(trajectory)):
        posvel = trajectory.pop(0)
        box = box_trajectory.pop(0)
        pos = posvel[:, :3]
        vel = posvel[:, 3:]
        pos, box = lm.shift_boxbounds(pos, box)
        res.append((pos.copy(), vel.copy(), np.array(box, dtype=float).copy()))
    out["lmp-fly"] = res
    if reader.file_object is not None:
        reader.file_object.close()
    # the producers that have no lower bounds work on the positions relative to the cell origin
    rel = [(base.fl([[str(Fr(p[k]) - Fr(fr["lo"][k])) for k in range(3)] for p in fr["pos"]]), base.fl(fr["vel"])) for fr in frames]
    Ls = [[float(Fr(x)) for x in fr["L"]] for fr in frames]
    out["gmx-9"] = [(p, v, box_matrix_to_list(np.diag(L), full=True)) for (p, v), L in zip(rel, Ls)]
    out["gmx-3"] = [(p, v, box_matrix_to_list(np.diag(L), full=False)) for (p, v), L in zip(rel, Ls)]
    res_abc, res_vec = [], []
    for j, ((p, v), L) in enumerate(zip(rel, Ls)):
        f1 = os.path.join(wd, f"abc{j}.inp")
        with open(f1, "w") as fh:
            fh.write(f"&FORCE_EVAL\n &SUBSYS\n  &CELL\n   ABC {fmt(L[0])} {fmt(L[1])} {fmt(L[2])}\n  &END CELL\n &END SUBSYS\n&END FORCE_EVAL\n")
        res_abc.append((p, v, np.asarray(read_cp2k_box(f1)[0], dtype=float)))
        f2 = os.path.join(wd, f"vec{j}.inp")
        with open(f2, "w") as fh:
            fh.write(f"&FORCE_EVAL\n &SUBSYS\n  &CELL\n   A {fmt(L[0])} 0.0 0.0\n   B 0.0 {fmt(L[1])} 0.0\n   C 0.0 0.0 {fmt(L[2])}\n"
                     "  &END CELL\n &END SUBSYS\n&END FORCE_EVAL\n")
        res_vec.append((p, v, np.asarray(read_cp2k_box(f2)[0], dtype=float)))
    out["cp2k-abc"], out["cp2k-vec"] = res_abc, res_vec
    import ase
    out["ase"] = [(p, v, np.asarray(ase.Atoms("H", cell=L, pbc=True).cell.diagonal(), dtype=float)) for (p, v), L in zip(rel, Ls)]
    from turtlemd.system.box import Box as TBox
    out["turtle"] = [(p, v, np.asarray(TBox(low=[float(Fr(x)) for x in fr["lo"]],
                                            high=[float(Fr(a) + Fr(b)) for a, b in zip(fr["lo"], fr["L"])],
                                            periodic=[True, True, True]).length, dtype=float))
                     for (p, v), fr in zip(rel, frames)]
    return out


def prod_values(opm, System, ops, pos, vel, box):
    base = _base()
    vals = []
    for op in ops:
        eng = base.make_engine(base.build(opm, op), {})
        s = System()
        s.box = None
        try:
            with np.errstate(all="ignore"), warnings.catch_warnings():
                warnings.simplefilter("ignore")
                v = eng.calculate_order(s, xyz=np.array(pos, dtype=float), vel=np.array(vel, dtype=float), box=box)
            vals.append(("ok", [float(x) for x in v]))
        except Exception as e:  # noqa: BLE001
            vals.append((err_kind(e), []))
    return vals


def check_producers(opm, System, case, extra=None, want=False):
    """-> None | (sig, what): the producer-agreement predicates on one case (also the replay entry point)"""
    base = _base()
    wd = tempfile.mkdtemp(prefix="c20prod-")
    try:
        frames, ops = case["frames"], case["ops"]
        prod = producers(case, wd)
        shifted_case = dict(case, frames=[dict(fr, pos=[[str(Fr(p[k]) + ks[k] * Fr(fr["L"][k])) for k in range(3)]
                                                        for p, ks in zip(fr["pos"], case["ks"])]) for fr in frames])
        wd2 = os.path.join(wd, "shifted")
        os.makedirs(wd2)
        prod_s = producers(shifted_case, wd2)
        ref = {}
        for j, fr in enumerate(frames):
            L = [float(Fr(x)) for x in fr["L"]]
            for name, res in prod.items():
                if len(res) != len(frames):
                    return ("C20:box-producers:frames", f"{name} returned {len(res)} frames for a file of {len(frames)}")
                box = np.asarray(res[j][2], dtype=float).reshape(-1)
                if box.shape[0] < 3 or list(box[:3]) != L:
                    return ("C20:box-producers:length",
                            f"frame {j} of {len(frames)}: cell with lower bounds {fr['lo']} and lengths {fr['L']} "
                            f"({'3' if case['cols3'] else '2'}-column BOX BOUNDS): producer {name} hands calculate_order the box "
                            f"{list(box)} instead of lengths {L}")
            # values: every producer, original and image-shifted atoms, against the first producer on the original atoms
            kk = [base.kinds_of({"op": op, "pos": fr["pos"], "vel": fr["vel"], "box": fr["L"]}) for op in ops]
            for label, pr in (("", prod), (" after moving atoms by box vectors", prod_s)):
                for name, res in pr.items():
                    pos, vel, box = res[j]
                    vals = prod_values(opm, System, ops, pos, vel, box)
                    if not ref.get(j):
                        ref[j] = (name, vals)
                        continue
                    for op, k, (t0, v0), (t1, v1) in zip(ops, kk, ref[j][1], vals):
                        kinds, skip = k if k else (["lin"] * 3, [False] * 3)
                        if t0 != t1 or (t0 == "ok" and not base.same_vals(v0, v1, kinds, skip)):
                            return ("C20:box-producers:value",
                                    f"frame {j}: periodic {op[0]} {op[1:-1]} of the same configuration (cell lo={fr['lo']} L={fr['L']}) is "
                                    f"{t0} {v0} with the box from {ref[j][0]} but {t1} {v1} with the box from {name}{label}")
        if want:
            return None, prod, ref
        return None
    finally:
        shutil.rmtree(wd, ignore_errors=True)


def rnd_prod_case(rng, k):
    base = _base()
    n = rng.randint(6, 8)
    nfr = rng.randint(2, 4)
    style = k % 4       # 0: lo > 0 somewhere, 1: hi < 0 somewhere, 2: box contains the origin, 3: anything
    while True:
        if style == 0:
            lo = [rng.choice([Fr(2), Fr(1), Fr(3), Fr(3, 2), Fr(5), Fr(1, 2)]) for _ in range(3)]
        elif style == 1:
            lo = [rng.choice([Fr(-20), Fr(-19), Fr(-18)]) for _ in range(3)]
        elif style == 2:
            lo = [rng.choice([Fr(-6), Fr(-13, 4), Fr(-1)]) for _ in range(3)]
        else:
            lo = [rng.choice(LOWS) for _ in range(3)]
        npt = rng.random() < 0.5
        L0 = [rng.choice(CELLS) for _ in range(3)]
        if style == 1:
            L0 = [min(x, Fr(16)) for x in L0]
        frames = []
        for _ in range(nfr):
            L = [rng.choice(CELLS) for _ in range(3)] if npt else list(L0)
            if style == 1:
                L = [min(x, Fr(16)) for x in L]
            pos = [[lo[d] + Fr(rng.randrange(0, int(L[d] * 16)), 16) for d in range(3)] for _ in range(n)]
            vel = [[Fr(rng.randint(-64, 64), 16) for _ in range(3)] for _ in range(n)]
            frames.append({"lo": [str(x) for x in lo], "L": [str(x) for x in L], "pos": [[str(x) for x in p] for p in pos],
                           "vel": [[str(x) for x in v] for v in vel]})
        ops = [base.rnd_op(rng, n, nm, periodic=True, valid=True) for nm in ("distance", "distancevel", "dihedral", "puckering")]
        if not any(base.has_tie({"op": op, "pos": fr["pos"], "vel": fr["vel"], "box": fr["L"]}) for op in ops for fr in frames):
            break
    ids = []
    for _ in range(nfr):
        order = list(range(n))
        rng.shuffle(order)
        ids.append(order)
    ks = [[rng.randint(-2, 2) if rng.random() < 0.5 else 0 for _ in range(3)] for _ in range(n)]
    return {"frames": frames, "ops": ops, "cols3": rng.random() < 0.5, "ids": ids, "ks": ks}


def prod_witnesses():
    """fixed cases, part of every run: positive lower bounds / negative upper bounds, 3 frames in one read, 2- and 3-column
    BOX BOUNDS, a pair straddling a face"""
    out = []
    for lo, cols3 in ((["2", "1", "3"], False), (["2", "1", "3"], True), (["-20", "-19", "-18"], False), (["-6", "3/2", "-13/4"], True)):
        L = ["10", "12", "16"]
        frames = []
        for t in range(3):
            pos = [[str(Fr(lo[0]) + Fr(1, 2)), str(Fr(lo[1]) + 1), str(Fr(lo[2]) + 2)],
                   [str(Fr(lo[0]) + Fr(19, 2) - Fr(t, 4)), str(Fr(lo[1]) + 11), str(Fr(lo[2]) + 1)],
                   [str(Fr(lo[0]) + 5), str(Fr(lo[1]) + Fr(1, 4)), str(Fr(lo[2]) + 15)],
                   [str(Fr(lo[0]) + 9), str(Fr(lo[1]) + 6), str(Fr(lo[2]) + Fr(1, 2))],
                   [str(Fr(lo[0]) + 1), str(Fr(lo[1]) + Fr(23, 2)), str(Fr(lo[2]) + 8)],
                   [str(Fr(lo[0]) + Fr(7, 2)), str(Fr(lo[1]) + 3), str(Fr(lo[2]) + Fr(31, 2))]]
            vel = [["1", "0", "0"], ["0", "1/2", "0"], ["0", "0", "-1"], ["1/4", "1", "0"], ["-1", "0", "2"], ["0", "0", "0"]]
            frames.append({"lo": lo, "L": L, "pos": pos, "vel": vel})
        out.append({"frames": frames, "ops": [["distance", 0, 1, 1], ["distancevel", 1, 0, 1], ["dihedral", 0, 1, 2, 3, 1], ["puckering", 0, 1, 2, 3, 4, 5, 1]],
                    "cols3": cols3, "ids": [[0, 1, 2, 3, 4, 5], [5, 4, 3, 2, 1, 0], [2, 0, 1, 5, 3, 4]], "ks": [[0, 0, 0], [1, -1, 0], [0, 0, 2], [0, 0, 0], [-2, 0, 1], [0, 1, 0]]})
    return out


def run_producers(ctx, opm, System):
    base = _base()
    rng = ctx.rng
    cases = prod_witnesses() + [rnd_prod_case(rng, k) for k in range(24 if ctx.quick else 240)]
    mlines, mmeta = [], []
    for c in cases:
        try:
            r = check_producers(opm, System, c, want=True)
        except Exception as e:  # noqa: BLE001   (a producer that raises on a well-formed file is a failure, not a harness error)
            r = (("C20:box-producers:raised", f"a box producer raised {type(e).__name__}: {e}"), None, None)
        if r is None or isinstance(r[0], str):
            rr = r
        else:
            rr = r[0]
        lo_kind = "pos-lo" if any(Fr(x) > 0 for x in c["frames"][0]["lo"]) else "neg-hi" if all(Fr(a) + Fr(b) < 0 for a, b in zip(c["frames"][0]["lo"], c["frames"][0]["L"])) else "origin-inside-or-zero"
        ctx.count(len(c["frames"]) * 9 * 2 * len(c["ops"]), branch=f"lib:producers:{lo_kind}:{'3col' if c['cols3'] else '2col'}:{len(c['frames'])}fr")
        if rr:
            ctx.fail(rr[0], rr[1], {"kind": "lib-producers", "case": c, "extra": {}})
            continue
        ctx.distinct(("producers", str(c)))
        # the model on the true cell against the producers' common value
        _, prod, ref = r
        for j, fr in enumerate(c["frames"]):
            for op, (t, v) in zip(c["ops"], ref[j][1]):
                rel = [[str(Fr(p[k]) - Fr(fr["lo"][k])) for k in range(3)] for p in fr["pos"]]
                mlines.append(base.line({"op": op, "pos": rel, "vel": fr["vel"], "box": fr["L"]}, "cur"))
                mmeta.append((op, t, v, j))
    if ctx._driver_ok and mlines:
        for (op, t, v, j), ml in zip(mmeta, ctx.driver(mlines)):
            mt, mv, _ = base.parse_model(ml)
            if not agrees(base, op[0], t, v, mt, mv):
                ctx.disagree({"fn": "periodic order parameter with an engine-produced box vs model on the true cell", "op": op, "frame": j}, [t] + v, ml)


# --------------------------------------------------------------------------- a box nobody shifts: read_cp2k_box without CELL
def run_cp2k_nocell(ctx, opm, System):
    """the one engine route that hands calculate_order a 2-D box: a CP2K input without CELL -> 3x3 matrix
    (cp2k.py:515-517 -> 840 -> 854).  Periodic classes then raise ValueError: compared with Geom.valueB (.mat)."""
    from infretis.classes.engines.cp2k import read_cp2k_box
    base = _base()
    wd = tempfile.mkdtemp(prefix="c20cp2k-")
    try:
        fn = os.path.join(wd, "nocell.inp")
        with open(fn, "w") as fh:
            fh.write("&GLOBAL\n PROJECT x\n&END GLOBAL\n&FORCE_EVAL\n &SUBSYS\n &END SUBSYS\n&END FORCE_EVAL\n")
        with warnings.catch_warnings():
            warnings.simplefilter("ignore")
            box, _ = read_cp2k_box(fn)
    finally:
        shutil.rmtree(wd, ignore_errors=True)
    box = np.asarray(box, dtype=float)
    ctx.extra["cp2k_box_without_CELL"] = {"shape": list(box.shape), "values": [float(x) for x in box.reshape(-1)]}
    if box.shape != (3, 3):
        ctx.disagree({"fn": "read_cp2k_box without CELL"}, list(box.shape), "a 3x3 matrix (BoxVal.mat)")
        return
    lines, metas = [], []
    for op in (["distance", 0, 1, 1], ["distance", 0, 1, 0], ["distancevel", 0, 1, 1], ["dihedral", 0, 1, 2, 3, 1], ["puckering", 0, 1, 2, 3, 4, 5, 1],
               ["position", 0, 0], ["velocity", 1, 2], ["distance", 0, 9, 1]):
        from props import c20_ext
        pos, vel = c20_ext.FIRST_USE["pos"], c20_ext.FIRST_USE["vel"]
        eng = base.make_engine(base.build(opm, op), {})
        s = System()
        try:
            with np.errstate(all="ignore"), warnings.catch_warnings():
                warnings.simplefilter("ignore")
                v = eng.calculate_order(s, xyz=base.fl(pos), vel=base.fl(vel), box=box.copy())
            tag, vals = "ok", [float(x) for x in v]
        except Exception as e:  # noqa: BLE001
            k = err_kind(e)
            tag, vals = ERRMAP.get(k, k), []
        ctx.count(1, branch=f"lib:cp2k-nocell:{op[0]}:{tag}")
        lines.append(f"calcb cur {op_tok(op)} A {base.toks(pos)} {base.toks(vel)} {box_tok(box)}")
        metas.append((op, tag, vals))
    if ctx._driver_ok:
        for (op, tag, vals), ml in zip(metas, ctx.driver(lines)):
            mt, mv = parse_valx(ml)
            if not agrees(base, op[0], tag, vals, mt, mv):
                ctx.disagree({"fn": "calculate_order with the 3x3 box of read_cp2k_box (no CELL)", "op": op}, [tag] + vals, ml)


# --------------------------------------------------------------------------- entry points
def run(ctx, opm, System):
    run_libframes(ctx, opm, System)
    run_turtle(ctx, opm, System)
    run_calcb(ctx, opm, System)
    run_cp2k_nocell(ctx, opm, System)
    run_effects(ctx, opm, System)
    run_basekeys(ctx, opm, System)
    run_producers(ctx, opm, System)
    ctx.extra["library_frames"] = (
        "Path.reverse is judged on frames made by EngineBase.snapshot_to_system (pos = vel = None), by load_path (empty arrays) and by a "
        "real TurtleMD propagate; with a velocity-dependent order function it raises on all of them (signature " + SIG_LIB + "); the "
        "array-carrying frames of the earlier streams (check_path, run_prev) are hand-built")
    new = [
        "purity is TIE-ONLY: the theorem calculate_pure is true by construction (the aliasing labels of Geom.effects — every in-place numpy "
        "target 'fresh' — are asserted by hand, not derived from the code); what carries the clause is the tie: identity+content snapshot of "
        "every System attribute before/after each calculate, and the per-class comparison of the changed fields with Geom.effects",
        "Path.reverse: frames the library makes carry NO arrays (snapshot_to_system: None; load_path: zeros(0)); theorems about "
        "array-carrying frames (pathReverse_frames, pathReverse_repaired_negates, pathReverse_asIs_not_negated, "
        "path_reverse_velocity_order_counterexample …) are about hand-built frames; library frames: pathReverse_engine_made_raises / "
        "pathReverse_loaded_raises / pathReverse_library_no_recompute",
        "2-D boxes: only 3x3 (System() default, read_cp2k_box without CELL) is modelled (ValueError for periodic classes); other 2-D shapes are outside",
        "box VALUES handed to calculate_order by the engines are tie-only (producer-agreement stream: read_lammpstrj/lammpstrj_reader + "
        "shift_boxbounds, box_matrix_to_list, read_cp2k_box, ASE cell.diagonal, turtlemd Box.length on one orthogonal cell); the codecs "
        "themselves belong to C19 (shift_boxbounds, read_lammpstrj), C13 (lammpstrj_reader), the pairing frame <-> own box inside a running "
        "engine to C12; 'both routes agree' (calculateOrderFull_routes_agree) assumes the two producers return identical arrays",
        "base class OrderParameter: keys velocity (bool) / description (str) modelled; its calculate is abstract and outside",
    ]
    ctx.assumptions += [a for a in new if a not in ctx.assumptions]


def check_basekeys(opm, System, case, extra=None):
    st = {"orderparameter": copy.deepcopy(case["settings"]), "simulation": {"steps": 0}}
    try:
        o = opm.create_orderparameter(st)
    except Exception as e:  # noqa: BLE001
        return ("C20:factory", f"create_orderparameter({case['settings']}) raised {type(e).__name__}: {e}")
    if type(o) is opm.OrderParameter and "velocity" in case["settings"] and bool(o.velocity_dependent) != bool(case["settings"]["velocity"]):
        return ("C20:ctor:velocity-flag", f"base class made with velocity={case['settings']['velocity']!r} has velocity_dependent={o.velocity_dependent}")
    return None


KINDS = {"lib-basekeys": check_basekeys, "lib-frames": check_libframes, "lib-turtle": check_turtle, "lib-ase": check_ase, "lib-producers": check_producers}
