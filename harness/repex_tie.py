"""Drives the REAL `REPEX_state` (infretis/classes/repex.py) through scheduler-shaped histories with
scripted random outcomes, and the Lean state machine (Infretis.Repex, driver drv_c03…) through the
same ops; records the canonical state after every op on both sides.

Used by the checks of C03 C04 C05 C07 (C06/C17 use real end-to-end runs in addition).
"""
from __future__ import annotations

import copy
import importlib.util  # noqa: F401
import os
import shutil
import tempfile
from fractions import Fraction

import numpy as np

from common import err_kind, frac_token, lst


# ----------------------------------------------------------------------------- scripted generator
class ScriptedGen(np.random.Generator):
    """numpy Generator whose `choice`/`random` outcomes are decided by a callback.

    `spawn_rng` builds children with type(rgen)(…), so every job stream is a ScriptedGen too; each
    call is logged with the identity (entropy, spawn_key) of the stream it was made on."""

    chooser = None      # callable(kind, payload) -> outcome   (class level: shared by all streams)
    log = None          # list of (stream id, kind, payload, outcome)

    def sid(self):
        ss = self.bit_generator._seed_seq
        ent = ss.entropy
        return (int(ent) if ent is not None else -1, tuple(int(k) for k in ss.spawn_key))

    def choice(self, a, size=None, replace=True, p=None, axis=0, shuffle=True):  # noqa: D102
        out = ScriptedGen.chooser("choice", (int(a), None if p is None else np.array(p, dtype=float)))
        ScriptedGen.log.append((self.sid(), "choice", (int(a), p), out, id(self)))
        return out

    def random(self, *a, **k):  # noqa: D102
        out = ScriptedGen.chooser("random", None)
        ScriptedGen.log.append((self.sid(), "random", None, out, id(self)))
        return out


class FakeStore:
    keep_traj_fnames: list = []

    def output(self, step, data):
        return data["path"]


class FakePath:
    """what REPEX_state needs of a path: number, weights and a few bookkeeping fields"""

    def __init__(self, pn, weights):
        self.path_number = pn
        self.weights = tuple(float(w) for w in weights)
        self.ordermax = (1.0, 1)
        self.ordermin = (0.0, 0)
        self.length = 3
        self.adress = set()

    def __deepcopy__(self, memo):
        return self


def staircase(n_ens, ens_num, last, weight=1):
    """weight vector (un-padded `path.weights`) of a plus path valid up to ensemble `last`"""
    return [weight if i <= last else 0 for i in range(n_ens - 1)] + [0]


class Sim:
    """one real REPEX_state + the mirrored line protocol for the Lean driver"""

    def __init__(self, ctx, n_ens, workers, steps, seed=0, wf=False, eng_types=1, cstep=0, image=None, rng=None,
                 screen=0):
        from infretis.classes import repex as R
        self.R = R
        self.ctx = ctx
        self.rng = rng if rng is not None else ctx.rng
        self.n_ens = n_ens
        self.n = n_ens + 1
        self.workers = workers
        self.wf = wf
        self.lines = []          # protocol lines for the model
        self.real = []           # real answers, aligned with lines
        self.kinds = []
        self.jobs_real = {}
        self.file_is_current = False     # restart.toml on disk was written for the state as it is now
        self.tmp = tempfile.mkdtemp(prefix="vp-repex-", dir="/var/tmp")
        self.cwd0 = os.getcwd()
        os.chdir(self.tmp)
        # engine types: ensemble i uses type (i % eng_types)
        self.eng_names = [f"engine{k}" for k in range(eng_types)]
        ens_engs = [[self.eng_names[i % eng_types]] for i in range(n_ens)]
        counts = {k: sum(1 for e in ens_engs if e[0] == k) for k in self.eng_names}
        cfg = {
            "current": {"size": n_ens, "cstep": cstep, "active": list(range(n_ens)), "locked": [],
                        "traj_num": n_ens, "frac": {}},
            "runner": {"workers": workers},
            "simulation": {"seed": seed, "steps": steps, "interfaces": [float(i) for i in range(n_ens)],
                           "shooting_moves": ["wf" if wf else "sh"] * n_ens,
                           "tis_set": {"lambda_minus_one": False, "maxlength": 100}, "load_dir": "load",
                           "ensemble_engines": ens_engs},
            "output": {"screen": screen, "data_dir": "./", "data_file": "./infretis_data.txt", "delete_old": False},
        }
        if image is not None:
            cfg["current"].update(image)
        self.cfg = cfg
        R.default_rng = lambda seed=None: ScriptedGen(np.random.PCG64(seed))
        ScriptedGen.log = []
        ScriptedGen.chooser = self._choose
        self.decisions = []      # outcomes taken since last reset
        st = R.REPEX_state(cfg, minus=True)
        st.pstore = FakeStore()
        st.traj_data = {}
        st.initiate_ensembles()
        st.engine_occ = {k: [-1] * min(counts[k], workers) for k in self.eng_names}
        self.st = st
        restarted = "restarted_from" in cfg["current"]
        ss = st.rgen.bit_generator._seed_seq
        self.emit(f"init {self.n} {workers} {steps} {cstep} {cfg['current']['traj_num']} {seed} "
                  f"{int(ss.entropy)} {int(ss.n_children_spawned)} {1 if restarted else 0}", "ok")
        self.emit("occ " + lst([len(st.engine_occ[k]) for k in self.eng_names]), "ok")
        self.emit(f"enseng {n_ens} " + " ".join(lst([self.eng_names.index(e) for e in ee]) for ee in ens_engs), "ok")
        for entry in cfg["current"].get("locked", []):
            es, ps = entry[0], entry[1]
            tail = f" {int(entry[2])}" if len(entry) > 2 else ""
            self.emit("locked0 " + lst(list(es)) + " " + lst([int(p) for p in ps]) + tail, "ok")
        if restarted:
            # set_rgen: the restored spawn counter (the stored one, else cstep + len(locked)) — model computes, code answers
            self.emit(f"restorectr {cfg['current'].get('spawned', '-')}", str(int(ss.n_children_spawned)), "restorectr")

    # ------------------------------------------------------------------ plumbing
    def close(self):
        os.chdir(self.cwd0)
        shutil.rmtree(self.tmp, ignore_errors=True)

    def emit(self, line, real, kind="setup"):
        self.lines.append(line)
        self.real.append(real)
        self.kinds.append(kind)

    def _choose(self, kind, payload):
        rng = self.rng
        if kind == "random":
            out = 0.25 if rng.random() < 0.5 else 0.75
        else:
            a, p = payload
            adm = [i for i in range(a) if p is not None and p[i] > 1e-12]
            if not adm:
                raise RuntimeError("no admissible outcome: probabilities all zero/NaN")
            out = rng.choice(adm)
        self.decisions.append((kind, payload, out))
        return out

    def load_initial(self, paths_by_slot=None, fracs=None):
        """load_paths equivalent: plus paths into their ensembles, then the minus path"""
        st, n_ens = self.st, self.n_ens
        if paths_by_slot is None:
            if getattr(self, "rich_init", False):
                # initial paths that reach beyond their own ensemble (so that off-diagonal picks are possible at once)
                paths_by_slot = [FakePath(0, (1.0,))] + [
                    FakePath(i, staircase(n_ens, i - 1, self.rng.randint(i - 1, n_ens - 2), 1)) for i in range(1, n_ens)]
            else:
                paths_by_slot = [FakePath(0, (1.0,))] + [FakePath(i, staircase(n_ens, i - 1, i - 1, 1)) for i in range(1, n_ens)]
        order = list(range(1, n_ens)) + [0]
        for i in order:
            p = paths_by_slot[i]
            fr = np.zeros(self.n, dtype="longdouble") if not fracs or p.path_number not in fracs else \
                np.array(fracs[p.path_number], dtype="longdouble")
            try:
                st.add_traj(ens=i - 1, traj=p, valid=p.weights, count=False)
                st.traj_data[p.path_number] = {"ens_save_idx": i, "max_op": p.ordermax, "min_op": p.ordermin,
                                               "length": p.length, "adress": p.adress, "weights": p.weights, "frac": fr}
                real = "ok"
            except Exception as e:  # noqa: BLE001
                real = err_kind(e)
            self.emit(f"load {i - 1} {p.path_number} {lst(p.weights, frac_token)} {lst([Fraction(float(x)) for x in fr], str)}",
                      real, "load")

    # ------------------------------------------------------------------ canonical dumps
    def dump_real(self):
        st = self.st
        f = lambda x: frac_token(float(x))  # noqa: E731
        W = ";".join(",".join(f(x) for x in row) for row in st.state)
        trajs = ",".join("-" if t == "" else str(t.path_number) for t in st._trajs)
        locks = "".join("1" if l else "0" for l in st._locks)
        locked = ";".join(",".join(str(int(e)) for e in t[0]) + ":" + ",".join(str(int(p)) for p in t[1]) for t in st.locked)
        locked0 = ";".join(",".join(str(int(e)) for e in t[0]) + ":" + ",".join(str(int(p)) for p in t[1]) for t in st.locked0)
        lockedord = ",".join(str(int(t[2])) for t in st.locked if len(t) > 2)
        frac = ";".join(f"{k}:" + ",".join(repr(float(x)) for x in v["frac"]) for k, v in st.traj_data.items())
        occ = ";".join(",".join(str(int(x)) for x in st.engine_occ[k]) for k in self.eng_names)
        ss = st.rgen.bit_generator._seed_seq
        main_draws = sum(1 for rec in ScriptedGen.log if rec[4] == id(st.rgen))
        rfrac, ractive, rlocked, rcstep = "", "", "", ""
        rspawned = "?"
        rt = os.path.join(self.tmp, "restart.toml")
        if os.path.exists(rt):
            import tomli
            try:
                with open(rt, "rb") as fh:
                    cur = tomli.load(fh)["current"]
                rfrac = ";".join(f"{k}:" + ",".join(v) for k, v in cur.get("frac", {}).items())
                ractive = ",".join(str(a) for a in cur.get("active", []))
                rlocked = ";".join(",".join(str(e) for e in t[0]) + ":" + ",".join(str(p) for p in t[1]) for t in cur.get("locked", []))
                rcstep = str(cur.get("cstep"))
                # comparable only when the file on disk is the one of the current step with the current jobs
                if cur.get("cstep") == st.cstep and len(cur.get("locked", [])) == len(st.locked) \
                        and self.file_is_current:
                    rspawned = str(cur.get("spawned", "-"))
            except Exception as e:  # noqa: BLE001
                rfrac = "unreadable:" + type(e).__name__
        # coherence of the cached P matrix (`_last_prob`) with a fresh computation for the current state/locks
        stale = "0"
        if st._last_prob is not None:
            try:
                import numpy as _np
                fresh = st.inf_retis(abs(st.state), st._locks)
                if fresh.shape != st._last_prob.shape or not _np.allclose(_np.asarray(fresh, dtype=float),
                                                                        _np.asarray(st._last_prob, dtype=float),
                                                                        rtol=0, atol=1e-9):
                    stale = "1"
            except Exception as e:  # noqa: BLE001
                stale = "err:" + type(e).__name__
        return {"_prob_stale": stale, "_restart_frac": rfrac, "_restart_active": ractive, "_restart_locked": rlocked, "_restart_cstep": rcstep,
                "W": W, "trajs": trajs, "locks": locks, "locked": locked, "locked0": locked0,
                "toinit": str(st.toinitiate), "cworker": str(st.cworker if st.cworker is not None else 0), "cstep": str(st.cstep),
                "trajnum": str(st.config["current"]["traj_num"]), "frac": frac, "rows": self.rows_real(),
                "occ": occ, "rng": f"{int(ss.entropy)}:{int(ss.n_children_spawned)}:{main_draws}",
                "lockedord": lockedord, "spawnedrec": rspawned}

    def rows_real(self):
        """parse the data file the code wrote: pn:frac cols:weight cols with ---- → 0"""
        fn = os.path.join(self.tmp, "infretis_data.txt")
        if not os.path.exists(fn):
            return ""
        out = []
        for line in open(fn):
            if line.startswith("#") or not line.strip():
                continue
            t = line.split()
            pn = int(t[0])
            cols = t[3:]
            k = len(cols) // 2
            fr = ["0" if c == "----" else c for c in cols[:k]]
            ws = ["0" if c == "----" else c for c in cols[k:]]
            out.append(f"{pn}:" + ",".join(fr) + ":" + ",".join(ws))
        return ";".join(out)

    def job_real(self, md):
        def sid(g):
            ss = g.bit_generator._seed_seq
            return f"{int(ss.entropy)}:" + ",".join(str(int(k)) for k in ss.spawn_key)
        pk = []
        for ens_num, d in md["picked"].items():
            eng = ",".join(f"{self.eng_names.index(k)}:{v}" for k, v in d["eng_idx"].items())
            pk.append(f"{ens_num}/{d['pn_old']}/{sid(d['ens']['rgen'])}/{sid(d['rgen-eng'])}/{eng}")
        wf = os.path.basename(md["w_folder"]).replace("worker", "")
        return f"pin={md['pin']} wf={wf} old=" + ",".join(str(p) for p in md["pnum_old"]) + " picked=" + ";".join(pk)

    # ------------------------------------------------------------------ ops
    def op_initiate(self):
        b = self.st.initiate()
        self.emit("initiate", f"{str(bool(b)).lower()} cworker={self.st.cworker if self.st.cworker is not None else 0} toinit={self.st.toinitiate}", "initiate")
        return b

    def op_loop(self):
        b = self.st.loop()
        self.emit("loop", f"{str(bool(b)).lower()} cstep={self.st.cstep}", "loop")
        return b

    def op_prep(self, md, saved_draws=0):
        self.decisions = []
        self.file_is_current = False
        pin_before = md.get("pin")
        try:
            md = self.st.prep_md_items(md)
            real = self.job_real(md)
            err = None
        except Exception as e:  # noqa: BLE001
            real = err_kind(e)
            err = e
        # reconstruct the outcome tuple from the decisions taken inside the call
        t = e_ = partner = 0
        coin = 0
        draws = []
        for kind, payload, out in self.decisions:
            if kind == "choice" and payload[0] == self.n ** 2:
                t, e_ = divmod(out, self.n)
                draws.append(("A", payload[1]))
            elif kind == "random":
                coin = 1 if out < 0.5 else 0
                draws.append(("C", None))
            else:
                partner = out
                draws.append(("K", payload[1]))
        self.emit(f"prep {'-' if pin_before is None else pin_before} {t} {e_} {coin} {partner} {saved_draws}", real, "prep")
        self.draws_by_op = getattr(self, 'draws_by_op', {})
        self.draws_by_op[len(self.lines) - 1] = draws
        if err is not None:
            raise err
        return md

    def op_treat(self, md, status, new_weights):
        if status == "ACC":
            for (ens_num, d), w in zip(md["picked"].items(), new_weights):
                d["traj"] = FakePath(None, w)
        md["status"] = status
        ws = new_weights if status == "ACC" else [[] for _ in md["picked"]]
        line = f"treat {md['pin']} {status} {len(ws)} " + " ".join(lst(w, frac_token) for w in ws)
        try:
            md = self.st.treat_output(md)
            real = "ok"
            err = None
            self.file_is_current = True
        except Exception as e:  # noqa: BLE001
            real = err_kind(e)
            err = e
        self.emit(line, real, "treat")
        if err is not None:
            raise err
        return md

    def op_dump(self):
        self.emit("dump", self.dump_real(), "dump")
        return self.real[-1]

    def op_prob(self):
        P = self.st.prob
        self.emit("prob", ";".join(",".join(repr(float(x)) for x in row) for row in P), "prob")

    # ------------------------------------------------------------------ outcome generators
    def random_new_weights(self, md, rng):
        ws = []
        for ens_num in md["picked"]:
            if ens_num == -1:
                ws.append([1])
            else:
                last = rng.randrange(ens_num, self.n_ens - 1) if self.n_ens - 1 > ens_num else ens_num
                last = min(last, self.n_ens - 2)
                w = rng.choice([1, 2, 3, 5, 17]) if self.wf else 1
                ws.append(staircase(self.n_ens, ens_num, last, w))
        return ws


def read_image(tmpdir):
    """the [current] table of the restart.toml the code wrote + 'restarted_from' as setup_config sets it"""
    import tomli
    with open(os.path.join(tmpdir, "restart.toml"), "rb") as fh:
        cur = tomli.load(fh)["current"]
    cur["restarted_from"] = cur["cstep"]
    return cur


def run_history(ctx, n_ens, workers, steps, seed=0, wf=False, eng_types=1, acc_p=0.7, dump_every=1,
                chooser=None, rng=None, restarts=(), rich_init=False):
    """`restarts`: step counts after which the process is "killed" (right after the restart file of that
    step was written) and a new REPEX_state is built from the restart file, as setup_config +
    setup_internal do.  Returns the LAST Sim; earlier ones are in `.previous` (each with lines/real)."""
    rng = rng if rng is not None else ctx.rng
    sims = []
    image = None
    weights = None
    for stop in list(restarts) + [None]:
        sim = _run_segment(ctx, n_ens, workers, steps, seed, wf, eng_types, acc_p, chooser, rng, stop, image, weights,
                           rich_init)
        sims.append(sim)
        if stop is None or sim.error is not None or sim.image is None:
            break
        image, weights = sim.image, sim.weights_by_pn
    last = sims[-1]
    last.previous = sims[:-1]
    return last


def _run_segment(ctx, n_ens, workers, steps, seed, wf, eng_types, acc_p, chooser, rng, stop_after, image, weights,
                 rich_init=False):
    """One scheduler-shaped history.  Returns the Sim (closed) with lines/real/kinds filled and
    `snap`: list of (real dump dict, in-flight job summaries) after every op."""
    sim = Sim(ctx, n_ens, workers, steps, seed=seed, wf=wf, eng_types=eng_types, rng=rng,
              cstep=0 if image is None else image["cstep"], image=image)
    sim.image = None
    sim.rich_init = rich_init
    snaps = []
    inflight = []
    error = None

    def snap(tag):
        d = sim.op_dump()
        held = [(md["pin"], [(e, dd["pn_old"]) for e, dd in md["picked"].items()],
                 {e: dict(dd["eng_idx"]) for e, dd in md["picked"].items()}, os.path.basename(md["w_folder"]))
                for md in inflight]
        snaps.append((tag, d, held))

    try:
        if image is None:
            sim.load_initial()
        else:
            sim.load_initial([FakePath(pn, weights[pn]) for pn in image["active"]],
                             {int(k): [float(x) for x in v] for k, v in image["frac"].items()})
        snap("loaded")
        base = {"mc_moves": sim.st.mc_moves, "interfaces": sim.st.interfaces, "cap": None}
        while sim.op_initiate():
            md = copy.deepcopy(base)
            md = sim.op_prep(md)
            inflight.append(md)
            snap("prep")
        while sim.op_loop():
            k = rng.randrange(len(inflight)) if chooser is None else chooser(inflight)
            md = inflight.pop(k)
            status = "ACC" if rng.random() < acc_p else "REJ"
            ws = sim.random_new_weights(md, rng)
            md = sim.op_treat(md, status, ws)
            snap("treat")
            if stop_after is not None and sim.st.cstep >= stop_after:
                sim.image = read_image(sim.tmp)
                sim.weights_by_pn = {pn: v["weights"] for pn, v in sim.st.traj_data.items()}
                break
            if sim.st.cstep + sim.st.workers <= sim.st.tsteps:
                md = sim.op_prep(md)
                inflight.append(md)
                snap("prep")
    except Exception as e:  # noqa: BLE001
        error = e
    sim.snaps = snaps
    sim.error = error
    sim.inflight_end = inflight
    sim.close()
    return sim


# ----------------------------------------------------------------------------- comparison
def parse_dump(s):
    return dict(part.split("=", 1) for part in s.split(" | "))


def _num_eq(a, b, tol=1e-9):
    try:
        return abs(float(Fraction(a)) - float(Fraction(b))) <= tol
    except (ValueError, ZeroDivisionError):
        try:
            return abs(float(a) - float(Fraction(b))) <= tol
        except ValueError:
            return a == b


def field_eq(key, real, model):
    if key in ("frac", "rows", "W"):
        ra, mb = real.split(";") if real else [], model.split(";") if model else []
        if len(ra) != len(mb):
            return False
        for x, y in zip(ra, mb):
            xs, ys = x.replace(":", ",").split(","), y.replace(":", ",").split(",")
            if len(xs) != len(ys) or not all(_num_eq(p, q) for p, q in zip(xs, ys)):
                return False
        return True
    if key == "spawnedrec" and real == "?":
        return True          # no current restart file to read the key from
    return real == model


def compare(ctx, sim, model_out, label):
    """diff real vs model answers op by op; returns number of disagreements registered"""
    bad = 0
    for i, (line, real, kind, mod) in enumerate(zip(sim.lines, sim.real, sim.kinds, model_out)):
        if kind == "dump":
            md = parse_dump(mod)
            for k, rv in real.items():
                if k.startswith("_"):
                    continue
                mv = md.get(k, "<missing>")
                if k == "rows":
                    # the data file masks entries: compare the columns it shows
                    mv = mask_rows(mv, sim.n)
                if not field_eq(k, rv, mv):
                    ctx.disagree({"history": label, "op_index": i, "after": sim.lines[i - 1] if i else "", "field": k},
                                 rv, mv)
                    bad += 1
                    break
        elif kind == "prep":
            rj = real.split(" draws=")[0]
            mj = mod.split(" draws=")[0]
            if rj != mj:
                ctx.disagree({"history": label, "op_index": i, "op": line}, rj, mj)
                bad += 1
            elif not real.startswith("err"):
                md_ = mod.split(" draws=")[1].split(" ") if " draws=" in mod and mod.split(" draws=")[1] else []
                rd = sim.draws_by_op.get(i, [])
                okd = len(md_) == len(rd)
                if okd:
                    for (kind_r, pvec), tok in zip(rd, md_):
                        if kind_r == "C":
                            okd = okd and tok == "C"
                            continue
                        if not tok.startswith(kind_r):
                            okd = False
                            break
                        body = tok.split(":", 1)[1]
                        vals = [Fraction(x) for row in body.split(";") for x in row.split(",")]
                        tot = sum(vals)
                        if tot == 0 or len(vals) != len(pvec):
                            okd = False
                            break
                        okd = okd and all(abs(float(v / tot) - float(q)) <= 1e-9 for v, q in zip(vals, pvec))
                if not okd:
                    ctx.disagree({"history": label, "op_index": i, "op": line, "what": "draw requests"},
                                 [(k, None if v is None else [float(x) for x in v]) for k, v in rd], md_)
                    bad += 1
        elif kind == "prob":
            if not field_eq("W", real, mod):
                ctx.disagree({"history": label, "op_index": i, "op": "prob"}, real, mod)
                bad += 1
        else:
            r = "ok" if (kind in ("treat",) and real == "ok") else real
            m = "ok" if (kind == "treat" and mod.startswith("new=")) else mod
            if r != m:
                ctx.disagree({"history": label, "op_index": i, "op": line}, real, mod)
                bad += 1
        if bad:
            break
    return bad


def mask_rows(model_rows, n):
    """apply write_to_pathens' masking to the model's full rows: minus path shows frac[0] only and
    weight w0; plus paths show '----', frac[1:-1]; zero fracs (and their weights) are masked"""
    if not model_rows:
        return ""
    out = []
    for r in model_rows.split(";"):
        pn, fr, ws = r.split(":")
        fr = [Fraction(x) for x in fr.split(",")]
        ws = [Fraction(x) for x in ws.split(",")]
        if len(ws) == 1:
            f = [fr[0]] + [Fraction(0)] * (n - 2)
            w = [ws[0] if fr[0] != 0 else Fraction(0)] + [Fraction(0)] * (n - 2)
        else:
            f = [Fraction(0)] + list(fr[1:-1])
            w = [Fraction(0)] + [wi if fi != 0 else Fraction(0) for wi, fi in zip(ws[:-1], fr[1:-1])]
        out.append(f"{pn}:" + ",".join(str(x) for x in f) + ":" + ",".join(str(x) for x in w))
    return ";".join(out)
