"""Validate one seeded change and run the matching check against it.

usage: seedcheck.py <property id> <dir with patch.diff demo.py notes.md> <name> [--tier quick] [--checks C03,C05]

1. scratch worktree of /repo HEAD under /var/tmp, `git apply patch.diff`
2. the repository's test suite on the changed tree (must equal the baseline: 76 passed)
3. demo.py on the unchanged tree (exit 0) and on the changed tree (exit != 0)
4. ./check <id> (and any extra checks) with the changed tree first on PYTHONPATH
   (equivalent to applying the patch to /repo; used because other jobs share /repo)
5. writes /verif/seeded/<name>/{patch.diff, demo.py, notes.md, meta.json}, removes the worktree
"""
from __future__ import annotations

import json
import os
import re
import shutil
import subprocess
import sys
import time
from pathlib import Path

VERIF = Path(__file__).resolve().parent.parent


def sh(cmd, cwd=None, env=None, timeout=3600):
    p = subprocess.run(cmd, cwd=cwd, env=env, stdout=subprocess.PIPE, stderr=subprocess.STDOUT, text=True, timeout=timeout)
    return p.returncode, p.stdout


def sh_group(cmd, cwd=None, env=None, timeout=900):
    """run in its own session with output to a file (not a pipe): a demo that leaves worker processes behind
    must neither block us (open pipe) nor survive (the whole group is killed afterwards)"""
    import signal
    import tempfile
    with tempfile.TemporaryFile(mode="w+") as fh:
        p = subprocess.Popen(cmd, cwd=cwd, env=env, stdout=fh, stderr=subprocess.STDOUT, text=True, start_new_session=True)
        try:
            rc = p.wait(timeout=timeout)
        except subprocess.TimeoutExpired:
            rc = 124
        try:
            os.killpg(p.pid, signal.SIGKILL)
        except (ProcessLookupError, PermissionError):
            pass
        fh.seek(0)
        return rc, fh.read()


def main():
    prop, src, name = sys.argv[1], Path(sys.argv[2]), sys.argv[3]
    tier = "quick"
    checks = [prop]
    if "--tier" in sys.argv:
        tier = sys.argv[sys.argv.index("--tier") + 1]
    if "--checks" in sys.argv:
        checks = sys.argv[sys.argv.index("--checks") + 1].split(",")
    skip_tests = "--skip-tests" in sys.argv
    wt = Path(f"/var/tmp/seedcheck-{name}")
    if wt.exists():
        sh(["git", "-C", "/repo", "worktree", "remove", "--force", str(wt)])
    rc, out = sh(["git", "-C", "/repo", "worktree", "add", "-q", str(wt), "HEAD"])
    meta = {"property": prop, "name": name, "patch_from": str(src), "ran": []}
    try:
        rc, out = sh(["git", "apply", str((src / "patch.diff").resolve())], cwd=wt)
        if rc != 0:
            # a later fix: commit rewrote the lines the seed touches: use the same mutation rebased on HEAD
            for alt in sorted(src.glob("patch.rebased-*.diff"), reverse=True):
                rc, out2 = sh(["git", "apply", str(alt.resolve())], cwd=wt)
                if rc == 0:
                    meta["patch_used"] = alt.name
                    break
        meta["patch_applies"] = rc == 0
        if rc != 0:
            print("PATCH DOES NOT APPLY:", out)
            meta["error"] = out[-800:]
            return finish(meta, src, name, keep=False)
        env = dict(os.environ, PYTHONPATH=str(wt), PYTHONDONTWRITEBYTECODE="1")
        if not skip_tests:
            t0 = time.time()
            rc, out = sh(["/venv/bin/python", "-m", "pytest", "-q", "-p", "no:cacheprovider", "--timeout=900"], cwd=wt, env=env)
            tail = out.strip().splitlines()[-1] if out.strip() else ""
            m = re.search(r"(\d+) passed", tail)
            failed = re.findall(r"^FAILED (\S+)", out, re.M)
            meta["tests"] = {"summary": tail, "passed": int(m.group(1)) if m else 0, "failed": failed,
                             "wall_s": round(time.time() - t0, 1)}
            # test_modify_velocity_distribition is a statistical test on an unseeded generator (3-sigma band): it
            # fails now and then on the untouched tree too.  Re-run such extra failures alone, twice at most.
            extra = [f for f in failed if "test_restart_multiple_w" not in f]
            flaky = []
            for f in extra:
                for _ in range(2):
                    rc2, out2 = sh(["/venv/bin/python", "-m", "pytest", "-q", "-p", "no:cacheprovider", "--timeout=900", f],
                                   cwd=wt, env=env)
                    if rc2 == 0:
                        flaky.append(f)
                        break
            meta["tests"]["passed_on_rerun"] = flaky
            npass = (int(m.group(1)) if m else 0) + len(flaky)
            meta["tests_ok"] = npass == 76 and all(f in flaky for f in extra)
            meta["ran"].append("PYTHONPATH=<changed tree> /venv/bin/python -m pytest -q -p no:cacheprovider --timeout=900")
            print("tests:", tail)
        # demo on both trees (run from a temp cwd so that it cannot litter)
        demo = (src / "demo.py").resolve()
        for label, tree in (("clean", "/repo"), ("changed", str(wt))):
            d = Path(f"/var/tmp/seedcheck-{name}-demo-{label}")
            d.mkdir(exist_ok=True)
            rc, out = sh_group(["/venv/bin/python", str(demo)], cwd=d, env=dict(os.environ, PYTHONPATH=tree), timeout=600)
            meta[f"demo_{label}_rc"] = rc
            meta[f"demo_{label}_tail"] = out[-600:]
            shutil.rmtree(d, ignore_errors=True)
            print(f"demo on {label} tree: rc={rc}")
        meta["ran"].append("PYTHONPATH=/repo demo.py ; PYTHONPATH=<changed tree> demo.py")
        meta["demo_ok"] = meta["demo_clean_rc"] == 0 and meta["demo_changed_rc"] != 0
        # the checks
        meta["checks"] = {}
        for c in checks:
            t0 = time.time()
            rc, out = sh([str(VERIF / "check"), c, "--tier", tier], cwd=VERIF,
                         env=dict(os.environ, PYTHONPATH=str(wt), VERIF_SEED=os.environ.get("VERIF_SEED", "0")))
            viol = [l for l in out.splitlines() if l.startswith("VIOLATION")]
            sigs = []
            for l in viol:
                m = re.search(r"replay=(\S+)", l)
                if m and (VERIF / m.group(1)).exists():
                    try:
                        r = json.loads((VERIF / m.group(1)).read_text())
                        sigs.append(r.get("signature") or r.get("kind"))
                    except Exception:  # noqa: BLE001
                        pass
            meta["checks"][c] = {"rc": rc, "violations": viol, "signatures": sigs, "tier": tier,
                                 "wall_s": round(time.time() - t0, 1), "last_line": out.strip().splitlines()[-1] if out.strip() else ""}
            meta["ran"].append(f"PYTHONPATH=<changed tree> ./check {c} --tier {tier}")
            print(f"check {c}: rc={rc} violations={len(viol)} signatures={sigs}")
        meta["caught_by"] = [c for c, v in meta["checks"].items() if v["rc"] == 1 and v["violations"]]
        meta["caught_with_failing_input"] = [c for c, v in meta["checks"].items()
                                             if any("no-failing-input-found" not in l for l in v["violations"])]
        return finish(meta, src, name, keep=True)
    finally:
        sh(["git", "-C", "/repo", "worktree", "remove", "--force", str(wt)])
        # replays written by the mutated run are not evidence of anything on the real tree
        sh(["git", "-C", str(VERIF), "checkout", "--", "evidence"], cwd=VERIF)


def finish(meta, src, name, keep):
    out = VERIF / "seeded" / name
    out.mkdir(parents=True, exist_ok=True)
    # a re-run with --skip-tests keeps the earlier test-suite result; checks accumulate
    old = out / "meta.json"
    if old.exists():
        try:
            o = json.loads(old.read_text())
            for k in ("tests", "tests_ok"):
                if k not in meta and k in o:
                    meta[k] = o[k]
                    meta["tests_from_earlier_run"] = True
            merged = dict(o.get("checks") or {})
            merged.update(meta.get("checks") or {})
            if meta.get("checks") is not None:
                meta["checks"] = merged
                meta["caught_by"] = [c for c, v in merged.items() if v["rc"] == 1 and v["violations"]]
                meta["caught_with_failing_input"] = [c for c, v in merged.items()
                                                     if any("no-failing-input-found" not in l for l in v["violations"])]
        except Exception:  # noqa: BLE001
            pass
    for f in ["patch.diff", "demo.py", "notes.md"] + [a.name for a in src.glob("patch.rebased-*.diff")]:
        if (src / f).exists() and (src / f).resolve() != (out / f).resolve():
            shutil.copy(src / f, out / f)
    (out / "meta.json").write_text(json.dumps(meta, indent=1))
    print(json.dumps({k: meta.get(k) for k in ("tests_ok", "demo_ok", "caught_by", "caught_with_failing_input")}))
    return 0


if __name__ == "__main__":
    sys.exit(main())
