"""Generate the prompts (and scratch worktrees) for a further seeding round.

usage: seedprompts.py <suffix, e.g. c> [C01 C02 ...]
For each property: worktree /tmp/seed/<ID><suffix> at /repo HEAD, prompt /tmp/seed/<ID><suffix>.prompt.txt built
from /tmp/seed/PROMPT.txt-style template (kept in this file), listing the sites earlier rounds already used
(taken from /verif/seeded/<ID>-*/patch.diff) so that the new agent chooses different mechanisms.  The prompt gives
the agent only the text of the property; nothing from /verif.
"""
import json
import re
import subprocess
import sys
from pathlib import Path

VERIF = Path(__file__).resolve().parent.parent
SEED = Path("/tmp/seed")

TEMPLATE = """You are a careful adversarial software engineer. In the directory /tmp/seed/@ID@ you have your own scratch git worktree of a Python library (infretis: replica-exchange transition interface sampling driving external MD engines). Work ONLY inside /tmp/seed/@ID@ and /tmp/seed/@ID@-out (create the latter). Do NOT read or list anything under /verif, /root/verif-probes, /root/.claude, /root/.vp or other /tmp/seed/* directories, and do not touch /repo: your work must be independent of any existing verification machinery.

Here is a semantic property the library is supposed to satisfy:
---
@TEXT@
---
Task: produce TWO different, realistic changes to the library source (each a separate small patch, the kind of slip a maintainer could make in a refactor or "optimisation") that each BREAK this property while the code still imports/"compiles" and the existing test suite still passes exactly as before. Prefer changes that need something specific to manifest — a particular interleaving or completion order, a crash or fault at a particular point, a multi-step sequence of operations, an unusual but legal input, a boundary value, or two cooperating sites that each look fine alone — NOT ones that ordinary use would expose at once, and not ones that simply make the code raise on every call. The two changes should break the property in different ways / at different sites.

How to run things: Python is /venv/bin/python (the package is installed in editable mode pointing at another checkout, so ALWAYS run with your worktree first on the path):
  cd /tmp/seed/@ID@ && PYTHONPATH=/tmp/seed/@ID@ /venv/bin/python -m pytest -q -p no:cacheprovider --timeout=900
Baseline on the untouched tree: 76 passed, 1 failed (test_restart_multiple_w always fails in this sandbox — ignore that one); your changed tree must give the same. Always `import importlib.util` before importing infretis modules in your own scripts. There is no network.

For each change i in {1,2} deliver in /tmp/seed/@ID@-out/mut<i>/:
  patch.diff   — `git diff` of the change against the worktree's HEAD (apply-able with `git apply`);
  demo.py      — a self-contained demonstration program (run as `PYTHONPATH=<tree> /venv/bin/python demo.py`) that exits 0 on the UNCHANGED tree and exits 1 (printing what went wrong) on the CHANGED tree, demonstrating the violation of the property through the library's real functions/classes (not by inspecting source text); keep it deterministic and under ~60 s;
  notes.md     — which part of the property it breaks, what exactly is needed for it to manifest (input / sequence / timing / configuration), why the test suite does not notice, and the exact commands you ran with their outcomes (test suite on the changed tree, demo on both trees).
After producing a patch, save it with `git diff > patch.diff` and run `git checkout -- .` (do NOT use `git stash`: the stash is shared between worktrees) so the worktree is clean between the two changes, and leave it clean at the end. Verify everything yourself before finishing: patch applies to a clean tree, tests 76 passed on the changed tree, demo exit codes 0 (clean) / 1 (changed). Final message: a short summary of the two changes (files/lines, what they break, what they need to manifest).

This is a FURTHER round for this property. Earlier rounds already used changes at these sites — choose DIFFERENT mechanisms and sites (a different function, a different clause of the property, a different kind of trigger):
@SITES@
Favour subtle ones: off-by-one at a boundary that only matters for one configuration class, state that leaks between two calls or two objects, an ordering change between two effects, a cache that is not invalidated, a default that differs only for a falsy-but-valid value, aliasing (a view or shared reference where a copy was made), a unit or sign that is only wrong for one engine, a change that is only wrong after a restart or only with several workers or only when jobs complete out of order, two cooperating sites that each look fine alone.
"""


def prop_text(p):
    a = p["anchors"]
    return (f"{p['id']} — {p['title']}\n\n{p['statement']}\n\nQuantifier: {p['quantifier']['text']}\n\n"
            f"Why the existing tests cannot settle it: {p['why_tests_cant']}\n\nAnchored in: {', '.join(a['files'])}\n")


def sites(pid):
    out = []
    for d in sorted((VERIF / "seeded").glob(f"{pid}-*")):
        pf = d / "patch.diff"
        if not pf.exists():
            continue
        cur, minus, plus = None, [], []
        for l in pf.read_text().splitlines():
            if l.startswith("+++ b/"):
                cur = l[6:]
            elif l.startswith("@@"):
                m = re.search(r"@@.*@@\s*(.*)", l)
                ctxt = m.group(1).strip() if m else ""
                if cur:
                    out.append(f"  - {cur}: near `{ctxt}`" if ctxt else f"  - {cur}")
            elif l.startswith("-") and not l.startswith("---") and l[1:].strip() and len(minus) < 1:
                minus.append(l[1:].strip())
        if minus:
            out.append(f"      (first removed line: `{minus[0][:110]}`)")
    # de-duplicate keeping order
    seen, res = set(), []
    for o in out:
        if o not in seen:
            seen.add(o)
            res.append(o)
    return "\n".join(res) if res else "  (none)"


def main():
    suffix = sys.argv[1]
    want = [a.upper() for a in sys.argv[2:]]
    props = [json.loads(l) for l in (VERIF / "properties.jsonl").read_text().splitlines() if l.strip()]
    SEED.mkdir(exist_ok=True)
    for p in props:
        if want and p["id"] not in want:
            continue
        ident = p["id"] + suffix
        wt = SEED / ident
        if not wt.exists():
            subprocess.run(["git", "-C", "/repo", "worktree", "add", "-q", "--detach", str(wt), "HEAD"], check=True)
        (SEED / f"{ident}-out").mkdir(exist_ok=True)
        txt = TEMPLATE.replace("@ID@", ident).replace("@TEXT@", prop_text(p)).replace("@SITES@", sites(p["id"]))
        (SEED / f"{ident}.prompt.txt").write_text(txt)
        print(ident, len(txt))


if __name__ == "__main__":
    main()
