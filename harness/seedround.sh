#!/bin/bash
# usage: harness/seedround.sh C10 [extra seedcheck args]   — validate the two round-2 seeds of one property
cd "$(dirname "$0")/.."
c=$1; shift
git -C /repo worktree remove --force /tmp/seed/${c}b 2>/dev/null
mkdir -p scratch/seedlogs
for m in 1 2; do
  /venv/bin/python harness/seedcheck.py $c /tmp/seed/${c}b-out/mut$m $c-r2-mut$m "$@" > scratch/seedlogs/$c-r2-mut$m.log 2>&1
  echo "$c-r2-mut$m: $(tail -1 scratch/seedlogs/$c-r2-mut$m.log)"
done
