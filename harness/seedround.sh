#!/bin/bash
# usage: [SUFFIX=b LABEL=r2] harness/seedround.sh C10 [extra seedcheck args] — validate the two seeds of one property/round
cd "$(dirname "$0")/.."
c=$1; shift
sfx=${SUFFIX:-b}; lab=${LABEL:-r2}
git -C /repo worktree remove --force /tmp/seed/${c}${sfx} 2>/dev/null
mkdir -p scratch/seedlogs
for m in 1 2; do
  /venv/bin/python harness/seedcheck.py $c /tmp/seed/${c}${sfx}-out/mut$m $c-$lab-mut$m "$@" > scratch/seedlogs/$c-$lab-mut$m.log 2>&1
  echo "$c-$lab-mut$m: $(tail -n 1 scratch/seedlogs/$c-$lab-mut$m.log)"
done
