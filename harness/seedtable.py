"""Regenerates the table of DESIGN.md §9.5 from seeded/*/meta.json."""
import glob, json, os, re
V = os.path.dirname(os.path.dirname(os.path.abspath(__file__)))
rows = []
for d in sorted(glob.glob(f'{V}/seeded/*/meta.json')):
    m = json.load(open(d)); n = os.path.basename(os.path.dirname(d))
    patch = open(os.path.join(os.path.dirname(d), 'patch.diff')).read()
    files = sorted(set(re.findall(r'^\+\+\+ b/(\S+)', patch, re.M)))
    sigs = []
    for c, v in (m.get('checks') or {}).items():
        if v['rc'] == 1 and any('no-failing-input-found' not in l for l in v['violations']):
            sigs.append(f"{c}: " + ", ".join(s for s in v['signatures'][:2] if s))
    ok = "yes" if m.get('tests_ok') else ("flaky ASE test" if m.get('tests') else "?")
    rows.append((n, ", ".join(f.split('/')[-1] for f in files), ok, "; ".join(sigs) or "—"))
tab = ("| seeded change | touches | suite = baseline | caught with a failing input by (first signatures) |\n|---|---|---|---|\n"
       + "\n".join(f"| {a} | {b} | {c} | {d} |" for a, b, c, d in rows))
p = f'{V}/DESIGN.md'
s = open(p).read()
a = s.index("| seeded change |")
b = s.index("\n\n", a) if "\n\n" in s[a:] else len(s)
s = s[:a] + tab + s[b:]
open(p, 'w').write(s)
print(len(rows), "seeds;", sum(1 for r in rows if r[3] == "—"), "not caught with a failing input")
