#!/bin/bash
# usage: harness/sweep.sh <tier> <seeds...>   — runs every claimed check for each seed, prints one line per run
tier=$1; shift
cd "$(dirname "$0")/.."
props=$(python3 -c "import json; print(' '.join(c['property_id'] for c in json.load(open('MANIFEST.json'))['checks']))")
for seed in "$@"; do
  for p in $props; do
    t0=$(date +%s)
    out=$(VERIF_SEED=$seed ./check $p --tier $tier 2>&1); rc=$?
    t1=$(date +%s)
    echo "seed=$seed $p rc=$rc wall=$((t1-t0))s $(echo "$out" | grep -c '^VIOLATION') violations $(echo "$out" | grep -c '^KNOWN-FINDING') known"
    if [ $rc -ne 0 ]; then echo "$out" | grep -v '^KNOWN' | tail -5; fi
  done
done
