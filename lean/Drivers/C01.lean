import Infretis.Model.Proto
open Infretis.Proto

def handle (_toks : List String) : String := "bad-op"

def main : IO Unit := mainWith handle
