import Infretis.Model.Proto
import Infretis.Model.Lattice
import Infretis.Model.LatticeMoves
open Infretis Infretis.Proto Infretis.Lattice

/-- parse `cnt` rows of `2 + 2*n` tokens: len max f_0 … f_{n-1} w_0 … w_{n-1} -/
def takeRows (n : Nat) : Nat → List String → Option (List Row × List String)
  | 0, rest => some ([], rest)
  | cnt + 1, l :: m :: rest =>
    match parseNat? l, parseRat? m, (rest.take n).mapM parseRat?, ((rest.drop n).take n).mapM parseRat? with
    | some l, some m, some f, some w =>
      if f.length = n ∧ w.length = n then
        match takeRows n cnt (rest.drop (2 * n)) with
        | some (rows, rest') => some ({ len := l, maxOp := m, frac := f, w := w } :: rows, rest')
        | none => none
      else none
    | _, _, _, _ => none
  | _ + 1, _ => none

def showEst (o : Option Rat) : String :=
  match o with
  | some q => showRat q
  | none => "none"

/-- `num den estimate` for every column k = 1 … n-1 -/
def showCols (n : Nat) (rows : List Row) : String :=
  " ".intercalate ((List.range (n - 1)).map (fun i =>
    let k := i + 1
    s!"{showRat (num k rows)} {showRat (den k rows)} {showEst (estimate k rows)}"))

/-- `lenNum den meanLenEst` for every column k = 1 … n-1 (the reweighted mean path length) -/
def showLenCols (n : Nat) (rows : List Row) : String :=
  " ".intercalate ((List.range (n - 1)).map (fun i =>
    let k := i + 1
    s!"{showRat (lenNum k rows)} {showRat (den k rows)} {showEst (meanLenEst k rows)}"))

def parseCoin? (s : String) : Option Bool := if s = "1" then some true else if s = "0" then some false else none

def b01 (b : Bool) : String := if b then "1" else "0"

def showLStatus : LatticeMoves.Status → String
  | .ACC => "ACC" | .KOB => "KOB" | .BTL => "BTL" | .BTX => "BTX" | .BWI => "BWI" | .FTL => "FTL" | .FTX => "FTX" | .NCR => "NCR"

def showMStatus : Moves.Status → String
  | .ACC => "ACC" | .KOB => "KOB" | .BTL => "BTL" | .BTX => "BTX" | .BWI => "BWI" | .FTL => "FTL" | .FTX => "FTX"
  | .ZL => "0-L" | .NCR => "NCR" | .NSG => "NSG"

/-- halve the doubled coordinates of the generic model's answer; odd values are shown as `odd` (never happens) -/
def showHalf (x : Int) : String := if x % 2 = 0 then toString (x / 2) else "odd"

/-- `lshoot mid top maxlength ld idx xi  n old…  n cb…  n cf…` →
    `<latShoot answer> || <Moves.shoot answer>` each `ok acc status genNb usedB usedF | trial` -/
def lshoot (toks : List String) : String :=
  match toks with
  | mid :: top :: ml :: ld :: idx :: xi :: rest =>
    match parseInt? mid, parseInt? top, parseNat? ml, parseCoin? ld, parseNat? idx, parseRat? xi, takeList parseInt? rest with
    | some mid, some top, some ml, some ld, some idx, some xi, some (old, rest) =>
      match takeList parseCoin? rest with
      | some (cb, rest) =>
        match takeList parseCoin? rest with
        | some (cf, []) =>
          let e : LatticeMoves.Ens := { mid := mid, top := top, maxlength := ml }
          let a := match LatticeMoves.latShoot e old ld idx xi cb cf with
            | .error .value => "err:value"
            | .error .badDraw => "err:baddraw"
            | .error .zerodiv => "err:zerodiv"
            | .ok o => s!"ok {b01 o.accept} {showLStatus o.status} {o.genNb} {o.usedB} {o.usedF} | {showList toString o.trial}"
          let b := match LatticeMoves.latShootRef e old ld idx xi cb cf with
            | .error .value => "err:value"
            | .error .badDraw => "err:baddraw"
            | .error .zerodiv => "err:zerodiv"
            | .error .index => "err:index"
            | .error .assert => "err:assert"
            | .ok o => s!"ok {b01 o.accept} {showMStatus o.status} {o.genNb} {o.usedB - 1} {o.usedF - 1} | {showList showHalf o.trial}"
          a ++ " || " ++ b
        | _ => "bad-op"
      | none => "bad-op"
    | _, _, _, _, _, _, _ => "bad-op"
  | _ => "bad-op"

def handle (toks : List String) : String :=
  match toks with
  | "lshoot" :: rest => lshoot rest
  -- meanlen n k                    closed form of the mean number of frames of data column k with n interfaces
  | ["meanlen", n, k] =>
    match parseNat? n, parseNat? k with
    | some n, some k => if 0 < k ∧ k < n then showRat (LatticeMoves.meanLen n k) else "bad-op"
    | _, _ => "bad-op"
  -- marg n w00 w01 … (row-major n×n)   the matrix of marginals of the permutation distribution ∝ Π W[i,σ(i)], row-major, or `none`
  | "marg" :: n :: rest =>
    match parseNat? n, rest.mapM parseRat? with
    | some n, some ws =>
      if ws.length = n * n ∧ n ≤ 7 then
        let W := (List.range n).map (fun i => (ws.drop (i * n)).take n)
        match LatticeMoves.margMatrix W with
        | none => "none"
        | some P => " ".intercalate (P.flatten.map showRat)
      else "bad-op"
    | _, _ => "bad-op"
  -- kpaths n o… n n…               matchCount of the interiors, kernelPaths o n, kernelPaths n o, pathWeight o, pathWeight n
  | "kpaths" :: rest =>
    match takeList parseInt? rest with
    | some (o, rest) =>
      match takeList parseInt? rest with
      | some (n, []) =>
        s!"{LatticeMoves.matchCount (LatticeMoves.interior o) (LatticeMoves.interior n)} {showRat (LatticeMoves.kernelPaths o n)} {showRat (LatticeMoves.kernelPaths n o)} {showRat (LatticeMoves.pathWeight o)} {showRat (LatticeMoves.pathWeight n)}"
      | _ => "bad-op"
    | none => "bad-op"
  -- estimate n cnt row*            the estimator on data rows, all columns
  | "estimate" :: n :: cnt :: rest =>
    match parseNat? n, parseNat? cnt with
    | some n, some cnt =>
      match takeRows n cnt rest with
      | some (rows, []) => showCols n rows
      | _ => "bad-op"
    | _, _ => "bad-op"
  -- estlen n cnt row*              both estimators on the same rows: `<estimate answer> || <lenNum den meanLenEst per column>`
  | "estlen" :: n :: cnt :: rest =>
    match parseNat? n, parseNat? cnt with
    | some n, some cnt =>
      match takeRows n cnt rest with
      | some (rows, []) => showCols n rows ++ " || " ++ showLenCols n rows
      | _ => "bad-op"
    | _, _ => "bad-op"
  -- steps N t x                    the walk's finite-horizon law of the exit time E[min(τ,t)] (t ≤ 24: the definition branches twice per step)
  | ["steps", n, t, x] =>
    match parseNat? n, parseNat? t, parseNat? x with
    | some n, some t, some x => if t ≤ 24 then showRat (LatticeMoves.stepsBy n t x) else "bad-op"
    | _, _, _ => "bad-op"
  -- hsteps N t x                   E[τ·1{N first, τ ≤ t}] under the walk's law (t ≤ 20)
  | ["hsteps", n, t, x] =>
    match parseNat? n, parseNat? t, parseNat? x with
    | some n, some t, some x => if t ≤ 20 then showRat (LatticeMoves.hitStepsBy n t x) else "bad-op"
    | _, _, _ => "bad-op"
  -- hit k                          the closed form (k+1)/(k+2)
  | ["hit", k] =>
    match parseNat? k with
    | some k => showRat (hit k)
    | none => "bad-op"
  -- lam k                          interface position
  | ["lam", k] =>
    match parseNat? k with
    | some k => showRat (lam k)
    | none => "bad-op"
  -- reach N t x                    law of the walk after t steps (reachRow = reachBy, lemma reachRow_get)
  | ["reach", n, t, x] =>
    match parseNat? n, parseNat? t, parseNat? x with
    | some n, some t, some x =>
      match (reachRow n t)[x]? with
      | some q => showRat q
      | none => "none"
    | _, _, _ => "bad-op"
  -- acc v nOld nNew                acceptance probability of the length rule (v = stated | asis)
  | ["acc", v, a, b] =>
    match parseNat? a, parseNat? b with
    | some a, some b =>
      if v = "stated" then showRat (accProb .stated a b)
      else if v = "asis" then showRat (accProb .asIs a b)
      else "bad-op"
    | _, _ => "bad-op"
  | _ => "bad-op"

def main : IO Unit := mainWith handle
