import Infretis.Model.Proto
import Infretis.Model.Lattice
open Infretis Infretis.Proto Infretis.Lattice

/-- parse `cnt` rows of `2 + 2*n` tokens: len max f_0 … f_{n-1} w_0 … w_{n-1} -/
def takeRows (n : Nat) : Nat → List String → Option (List Row × List String)
  | 0, rest => some ([], rest)
  | cnt + 1, l :: m :: rest =>
    match parseNat? l, parseRat? m, (rest.take n).mapM parseRat?, ((rest.drop n).take n).mapM parseRat? with
    | some l, some m, some f, some w =>
      if f.length = n ∧ w.length = n then
        match takeRows n cnt (rest.drop (2 * n)) with
        | some (rows, rest') => some ({ len := l, maxOp := m, frac := f, w := w } :: rows, rest')
        | none => none
      else none
    | _, _, _, _ => none
  | _ + 1, _ => none

def showEst (o : Option Rat) : String :=
  match o with
  | some q => showRat q
  | none => "none"

/-- `num den estimate` for every column k = 1 … n-1 -/
def showCols (n : Nat) (rows : List Row) : String :=
  " ".intercalate ((List.range (n - 1)).map (fun i =>
    let k := i + 1
    s!"{showRat (num k rows)} {showRat (den k rows)} {showEst (estimate k rows)}"))

def handle (toks : List String) : String :=
  match toks with
  -- estimate n cnt row*            the estimator on data rows, all columns
  | "estimate" :: n :: cnt :: rest =>
    match parseNat? n, parseNat? cnt with
    | some n, some cnt =>
      match takeRows n cnt rest with
      | some (rows, []) => showCols n rows
      | _ => "bad-op"
    | _, _ => "bad-op"
  -- hit k                          the closed form (k+1)/(k+2)
  | ["hit", k] =>
    match parseNat? k with
    | some k => showRat (hit k)
    | none => "bad-op"
  -- lam k                          interface position
  | ["lam", k] =>
    match parseNat? k with
    | some k => showRat (lam k)
    | none => "bad-op"
  -- reach N t x                    law of the walk after t steps (reachRow = reachBy, lemma reachRow_get)
  | ["reach", n, t, x] =>
    match parseNat? n, parseNat? t, parseNat? x with
    | some n, some t, some x =>
      match (reachRow n t)[x]? with
      | some q => showRat q
      | none => "none"
    | _, _, _ => "bad-op"
  -- acc v nOld nNew                acceptance probability of the length rule (v = stated | asis)
  | ["acc", v, a, b] =>
    match parseNat? a, parseNat? b with
    | some a, some b =>
      if v = "stated" then showRat (accProb .stated a b)
      else if v = "asis" then showRat (accProb .asIs a b)
      else "bad-op"
    | _, _ => "bad-op"
  | _ => "bad-op"

def main : IO Unit := mainWith handle
