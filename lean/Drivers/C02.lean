import Infretis.Model.Proto
import Infretis.Model.Perm
open Infretis Infretis.Proto Infretis.Perm

/-- matrix token format: `R` followed by `R` length-prefixed rows of rationals -/
def takeRows : Nat → List String → Option (Mat × List String)
  | 0, rest => some ([], rest)
  | k + 1, rest =>
    match takeList parseRat? rest with
    | none => none
    | some (r, rest) =>
      match takeRows k rest with
      | none => none
      | some (rs, rest) => some (r :: rs, rest)

def takeMat : List String → Option (Mat × List String)
  | [] => none
  | n :: rest =>
    match parseNat? n with
    | none => none
    | some k => takeRows k rest

def showMat (M : Mat) : String :=
  toString M.length ++ (M.foldl (fun acc r => acc ++ " " ++ showList showRat r) "")

def showErr : Err → String
  | .value => "err:value" | .type => "err:type" | .assert => "err:assert" | .key => "err:key" | .nan => "nan"

def showRes : Res → String
  | .ok P => "ok " ++ showMat P
  | .monteCarlo d => "mc " ++ showList toString d
  | .error e => showErr e

def showBlocks : Blocks → String
  | .single => "tuple"
  | .list bs => showList (fun b => s!"{b.1},{b.2.1},{b.2.2}") bs

def handle (toks : List String) : String :=
  match toks with
  | "spec" :: rest =>                      -- spec <locks> <W>  → probMatrix, or "perm0" if the idle permanent is 0
    match takeList parseNat? rest with
    | some (locks, rest) =>
      match takeMat rest with
      | some (W, []) =>
        let lk : List Bool := locks.map (fun x => x == 1)
        if permC (idle W lk) = 0 then "perm0" else "ok " ++ showMat (probMatrix W lk)
      | _ => "bad-op"
    | none => "bad-op"
  | "perm" :: rest =>
    match takeMat rest with
    | some (W, []) => showRat (permC W)
    | _ => "bad-op"
  | "infretis" :: off :: rest =>           -- infretis <off> <locks> <W>
    match parseNat? off, takeList parseNat? rest with
    | some off, some (locks, rest) =>
      match takeMat rest with
      | some (W, []) =>
        let lk : List Bool := locks.map (fun x => x == 1)
        showRes (infRetis W lk off) ++ " | " ++ showList id (branches W lk off)
      | _ => "bad-op"
    | _, _ => "bad-op"
  | "quick" :: rest =>
    match takeMat rest with
    | some (W, []) => "ok " ++ showMat (quickProb W)
    | _ => "bad-op"
  | "blocks" :: off :: rest =>
    match parseNat? off, takeMat rest with
    | some off, some (W, []) => showBlocks (findBlocks W off)
    | _, _ => "bad-op"
  | "permprob" :: rest =>
    match takeMat rest with
    | some (W, []) =>
      match permanentProb W with
      | .ok P => "ok " ++ showMat P
      | .error e => showErr e
    | _ => "bad-op"
  | "glynn" :: rest =>
    match takeMat rest with
    | some (W, []) =>
      match glynn W with
      | .ok v => showRat v
      | .error e => showErr e
    | _ => "bad-op"
  | _ => "bad-op"

def main : IO Unit := mainWith handle
