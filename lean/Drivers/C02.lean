import Infretis.Model.Proto
import Infretis.Model.Perm
import Infretis.Model.PermRandom
import Infretis.Model.PermEval
import Infretis.Model.PermCache
open Infretis Infretis.Proto Infretis.Perm

/-- matrix token format: `R` followed by `R` length-prefixed rows of rationals -/
def takeRows : Nat → List String → Option (Mat × List String)
  | 0, rest => some ([], rest)
  | k + 1, rest =>
    match takeList parseRat? rest with
    | none => none
    | some (r, rest) =>
      match takeRows k rest with
      | none => none
      | some (rs, rest) => some (r :: rs, rest)

def takeMat : List String → Option (Mat × List String)
  | [] => none
  | n :: rest =>
    match parseNat? n with
    | none => none
    | some k => takeRows k rest

def showMat (M : Mat) : String :=
  toString M.length ++ (M.foldl (fun acc r => acc ++ " " ++ showList showRat r) "")

def showErr : Err → String
  | .value => "err:value" | .type => "err:type" | .assert => "err:assert" | .key => "err:key" | .nan => "nan"

def showRes : Res → String
  | .ok P => "ok " ++ showMat P
  | .monteCarlo d => "mc " ++ showList toString d
  | .error e => showErr e

def showBlocks : Blocks → String
  | .single => "tuple"
  | .list bs => showList (fun b => s!"{b.1},{b.2.1},{b.2.2}") bs


/-! ### extension pass: `prep` (intermediate values of inf_retis), `randprob`, `cache` -/

/-- `prep <off> <locks> <W>` → `offset m | sortIdx | equal | blocks | keys of argsort 1 | keys of argsort 2` (the two argsorts joined as the code joins
    them, the equal-weight test, `find_blocks` on the sorted idle block when the test fails) -/
def showPrep (off : Nat) (W : Mat) (lk : List Bool) : String :=
  let s := prepare off W lk
  if s.m = 0 then "empty" else
  s!"{s.offset} {s.m} | {showList toString s.sortIdx} | {if s.equal then 1 else 0} | " ++
    (if s.equal then "-" else showBlocks (findBlocks s.sorted s.offset)) ++
    s!" | {showList toString (keysMinus off W lk)} | {showList toString (keysPlus off W lk)}"

/-- `given <off> <locks> <W> <a> <b>`: `inf_retis` with the code's own two argsort results →
    `result | offset m | sortIdx | equal | blocks | sorts(a) sorts(b) | branches | sorted matrix` -/
def showGiven (off : Nat) (W : Mat) (lk : List Bool) (a b : List Nat) : String :=
  let s := prepareGiven off W lk a b
  showRes (infRetisGiven W lk off a b) ++ " | " ++
    (if s.m = 0 then "empty | - | - | -" else
      s!"{s.offset} {s.m} | {showList toString s.sortIdx} | {if s.equal then 1 else 0} | " ++
      (if s.equal then "-" else showBlocks (findBlocks s.sorted s.offset))) ++
    s!" | {if sortsB (keysMinus off W lk) a then 1 else 0} {if sortsB (keysPlus off W lk) b then 1 else 0} | " ++
    showList id (branchesOfSorted s) ++ " | " ++ showMat s.sorted

/-- draws of `randprob`: per iteration `left s1 s2 <rs>` -/
def takeDraws : Nat → List String → Option (List PermRandom.Draw × List String)
  | 0, rest => some ([], rest)
  | k + 1, l :: a :: b :: rest =>
    match parseNat? l, parseNat? a, parseNat? b, takeList parseRat? rest with
    | some l, some a, some b, some (rs, rest) =>
      match takeDraws k rest with
      | some (ds, rest) => some ({ left := l == 1, s1 := a, s2 := b, rs := rs } :: ds, rest)
      | none => none
    | _, _, _, _ => none
  | _, _ => none

def showReq : PermRandom.Req → String
  | .c2 => "c2"
  | .rnd m => s!"rnd{m}"

def showCErr : PermCache.CErr → String
  | .st .assert => "err:assert" | .st .value => "err:value" | .st .index => "err:index"
  | .st .key => "err:key" | .st .stall => "err:stall"
  | .perm e => showErr e

/-- operations of `cache`: `r` | `l e` | `u e` | `sl t e` | `a ens pn <valid>` | `s` | `p` | `x t e` | `ri t e` -/
def takeOps : Nat → List String → Option (List PermCache.Op)
  | 0, [] => some []
  | 0, _ => none
  | k + 1, "r" :: rest => (takeOps k rest).map (fun o => .read :: o)
  | k + 1, "s" :: rest => (takeOps k rest).map (fun o => .sort :: o)
  | k + 1, "p" :: rest => (takeOps k rest).map (fun o => .printState :: o)
  | k + 1, "l" :: e :: rest =>
    match parseNat? e with
    | some e => (takeOps k rest).map (fun o => .lock e :: o)
    | none => none
  | k + 1, "u" :: e :: rest =>
    match parseNat? e with
    | some e => (takeOps k rest).map (fun o => .unlock e :: o)
    | none => none
  | k + 1, "sl" :: t :: e :: rest =>
    match parseNat? t, parseNat? e with
    | some t, some e => (takeOps k rest).map (fun o => .swapLock t e :: o)
    | _, _ => none
  | k + 1, "x" :: t :: e :: rest =>
    match parseNat? t, parseNat? e with
    | some t, some e => (takeOps k rest).map (fun o => .rawSwap t e :: o)
    | _, _ => none
  | k + 1, "ri" :: t :: e :: rest =>
    match parseNat? t, parseNat? e with
    | some t, some e => (takeOps k rest).map (fun o => .reissue t e :: o)
    | _, _ => none
  | k + 1, "a" :: ens :: pn :: rest =>
    match parseInt? ens, parseNat? pn, takeList parseRat? rest with
    | some ens, some pn, some (v, rest) => (takeOps k rest).map (fun o => .addTraj ens pn v :: o)
    | _, _, _ => none
  | _, _ => none

def showUse (u : PermCache.Use) : String := showRes u.val

/-- per operation: `N`/`S` (is `_last_prob` None afterwards), the locks, the matrices handed out -/
def showTraceItem : Except PermCache.CErr (PermCache.C × List PermCache.Use) → String
  | .error e => showCErr e
  | .ok (c, us) =>
    (if c.cache.isNone then "N" else "S") ++ " " ++ String.join (c.s.locks.map (fun b => if b then "1" else "0"))
      ++ (us.foldl (fun acc u => acc ++ " # " ++ showUse u) "")

def handle (toks : List String) : String :=
  match toks with
  | "prep" :: off :: rest =>               -- prep <off> <locks> <W>
    match parseNat? off, takeList parseNat? rest with
    | some off, some (locks, rest) =>
      match takeMat rest with
      | some (W, []) => showPrep off W (locks.map (fun x => x == 1))
      | _ => "bad-op"
    | _, _ => "bad-op"
  | "given" :: off :: rest =>              -- given <off> <locks> <W> <a> <b>
    match parseNat? off, takeList parseNat? rest with
    | some off, some (locks, rest) =>
      match takeMat rest with
      | some (W, rest) =>
        match takeList parseNat? rest with
        | some (a, rest) =>
          match takeList parseNat? rest with
          | some (b, []) => showGiven off W (locks.map (fun x => x == 1)) a b
          | _ => "bad-op"
        | none => "bad-op"
      | _ => "bad-op"
    | _, _ => "bad-op"
  | "randprob" :: n :: rest =>             -- randprob <n> <draws> <arr> → requests | final temp[0] | matrix
    match parseNat? n with
    | some n =>
      match takeDraws n rest with
      | some (ds, rest) =>
        match takeMat rest with
        | some (arr, []) =>
          showList showReq (PermRandom.requests arr.length) ++ " | " ++
            showList toString (PermRandom.finalPerm arr ds) ++ " | " ++ showMat (PermRandom.randomProb arr ds)
        | _ => "bad-op"
      | none => "bad-op"
    | none => "bad-op"
  | "cache" :: n :: ti :: rest =>          -- cache <n> <toinitiate> <locks> <trajs (-1 = none)> <W> <nops> ops…
    match parseNat? n, parseInt? ti, takeList parseNat? rest with
    | some n, some ti, some (locks, rest) =>
      match takeList parseInt? rest with
      | some (trajs, rest) =>
        match takeMat rest with
        | some (W, k :: rest) =>
          match parseNat? k with
          | some k =>
            match takeOps k rest with
            | some ops =>
              let c := PermCache.mkC n ti W (locks.map (fun x => x == 1))
                (trajs.map (fun t => if t < 0 then none else some t.toNat))
              String.intercalate " ; " ((PermCache.trace c ops).map showTraceItem)
            | none => "bad-op"
          | none => "bad-op"
        | _ => "bad-op"
      | none => "bad-op"
    | _, _, _ => "bad-op"
  | "spec" :: rest =>                      -- spec <locks> <W>  → probMatrix, or "perm0" if the idle permanent is 0
    match takeList parseNat? rest with
    | some (locks, rest) =>
      match takeMat rest with
      | some (W, []) =>
        let lk : List Bool := locks.map (fun x => x == 1)
        if permC (idle W lk) = 0 then "perm0" else "ok " ++ showMat (probMatrix W lk)
      | _ => "bad-op"
    | none => "bad-op"
  | "perm" :: rest =>
    match takeMat rest with
    | some (W, []) => showRat (permC W)
    | _ => "bad-op"
  | "infretis" :: off :: rest =>           -- infretis <off> <locks> <W>
    match parseNat? off, takeList parseNat? rest with
    | some off, some (locks, rest) =>
      match takeMat rest with
      | some (W, []) =>
        let lk : List Bool := locks.map (fun x => x == 1)
        showRes (infRetis W lk off) ++ " | " ++ showList id (branches W lk off)
      | _ => "bad-op"
    | _, _ => "bad-op"
  | "quick" :: rest =>
    match takeMat rest with
    | some (W, []) => "ok " ++ showMat (quickProb W)
    | _ => "bad-op"
  | "blocks" :: off :: rest =>
    match parseNat? off, takeMat rest with
    | some off, some (W, []) => showBlocks (findBlocks W off)
    | _, _ => "bad-op"
  | "permprob" :: rest =>
    match takeMat rest with
    | some (W, []) =>
      match permanentProb W with
      | .ok P => "ok " ++ showMat P
      | .error e => showErr e
    | _ => "bad-op"
  | "glynn" :: rest =>
    match takeMat rest with
    | some (W, []) =>
      match glynn W with
      | .ok v => showRat v
      | .error e => showErr e
    | _ => "bad-op"
  | _ => "bad-op"

def main : IO Unit := mainWith handle
