import Infretis.Model.RepexProto

def main : IO Unit := Infretis.Repex.repexMain
