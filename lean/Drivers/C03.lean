import Infretis.Model.RepexC03Proto

def main : IO Unit := Infretis.Repex.Micro.c03Main
