import Infretis.Model.DataFileProto

def main : IO Unit := Infretis.Repex.Data.dataMain
