import Infretis.Model.RepexCv

def main : IO Unit := Infretis.RepexCv.c05Main
