import Infretis.Model.RepexRestartNow

def main : IO Unit := Infretis.Repex.c06Main
